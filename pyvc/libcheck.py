"""Differential validation of the ASSUMED library contracts (libmodels.py, strings.py) against the real
library.  Evidence for the assumptions - never counted as proof.  quick: sampled; thorough: exhaustive where
the domain is finite."""
from __future__ import annotations
import datetime, calendar, random, time
import z3
from . import libmodels as L


def _eval(term, env):
    subs = [(z3.Int(k), z3.IntVal(v)) for k, v in env.items()]
    r = z3.simplify(z3.substitute(term, *subs))
    if z3.is_int_value(r):
        return r.as_long()
    if z3.is_true(r):
        return True
    if z3.is_false(r):
        return False
    raise AssertionError(f"not a value: {r}")


def py_ymd2ord(y, m, d):
    y1 = y - 1
    leap = (y % 4 == 0 and y % 100 != 0) or y % 400 == 0
    return y1 * 365 + y1 // 4 - y1 // 100 + y1 // 400 + L._DBM[m] + (1 if m > 2 and leap else 0) + d


def check_gregorian(tier, seed):
    rng = random.Random(seed)
    y, m, d = z3.Ints("y m d")
    ordt = L.z_ymd2ord(y, m, d)
    validt = L.z_valid_date(y, m, d)
    dimt = L.z_days_in_month(y, m)
    n = 0
    ords = [1, 2, 365, 366, 730119, 730120, L.MAX_ORD - 1, L.MAX_ORD] + [rng.randint(1, L.MAX_ORD) for _ in range(400 if tier == "quick" else 4000)]
    for o in ords:
        dt = datetime.date.fromordinal(o)
        env = {"y": dt.year, "m": dt.month, "d": dt.day}
        assert _eval(ordt, env) == o, ("ordinal formula", o)
        assert _eval(validt, env) is True
        assert _eval(dimt, env) == calendar.monthrange(dt.year, dt.month)[1]
        n += 1
    # invalid dates are recognised as invalid
    for (yy, mm, dd) in [(2021, 2, 29), (2020, 2, 30), (1900, 2, 29), (2000, 2, 29), (2020, 13, 1), (0, 1, 1), (10000, 1, 1), (2020, 4, 31), (2020, 0, 1), (2020, 1, 0)]:
        try:
            datetime.date(yy, mm, dd)
            ok = True
        except ValueError:
            ok = False
        assert _eval(validt, {"y": yy, "m": mm, "d": dd}) is ok, (yy, mm, dd)
        n += 1
    exhaustive = False
    # python mirror of the same formula: exhaustive in thorough, strided in quick; injectivity follows from
    # ord(fromordinal(o)) == o for every o in 1..MAX_ORD
    stride = 1 if tier == "thorough" else 97
    for o in range(1, L.MAX_ORD + 1, stride):
        dt = datetime.date.fromordinal(o)
        assert py_ymd2ord(dt.year, dt.month, dt.day) == o
        n += 1
    exhaustive = stride == 1
    # monotonicity lemma: consecutive ordinals are lexicographically increasing (=> strictly monotone)
    prev = None
    for o in range(1, L.MAX_ORD + 1, 1 if tier == "thorough" else 1):
        if tier != "thorough" and o > 150000 and o % 13:
            continue
        dt = datetime.date.fromordinal(o)
        cur = (dt.year, dt.month, dt.day)
        if prev is not None and prev[0] == o - 1:
            assert prev[1] < cur, ("lex monotone", o)
        prev = (o, cur)
        n += 1
    for _ in range(200):
        dt = datetime.date.fromordinal(rng.randint(1, L.MAX_ORD))
        assert py_ymd2ord(dt.year, dt.month, dt.day) == _eval(ordt, {"y": dt.year, "m": dt.month, "d": dt.day})
    return {"contract": "datetime ordinal / calendar.monthrange", "cases": n, "exhaustive": exhaustive}


class _FakeCtx:
    def note_assumption(self, t):
        pass


class _FakeI:
    ctx = _FakeCtx()


def check_range(tier, seed):
    from .values import SV, SRange, LibObj
    lib = L.Lib()
    a, b, s = z3.Ints("a b s")
    lent = lib.range_len(_FakeI(), SRange(SV(a), SV(b), SV(s))).t
    n = 0
    R = range(-7, 8)
    for aa in R:
        for bb in R:
            for ss in (-4, -3, -2, -1, 1, 2, 3, 4):
                r = range(aa, bb, ss)
                assert _eval(lent, {"a": aa, "b": bb, "s": ss}) == len(r), (aa, bb, ss)
                for i, v in enumerate(r):
                    assert aa + i * ss == v
                n += 1
    # constant-step variant
    for ss in (-3, -1, 1, 2):
        lt = lib.range_len(_FakeI(), SRange(SV(a), SV(b), ss)).t
        for aa in R:
            for bb in R:
                assert _eval(lt, {"a": aa, "b": bb}) == len(range(aa, bb, ss))
                n += 1
    # slices
    ln = z3.Int("n")
    vals = [None] + list(range(-6, 7))
    for s0 in vals:
        for s1 in vals:
            for st in (None, 1, -1, 2, -2, 3, -3):
                sl = LibObj("slice", start=s0, stop=s1, step=st)
                st0, e0, stp = lib.slice_indices_sym(_FakeI(), sl, SV(ln), None)
                for length in range(0, 7):
                    want = slice(s0, s1, st).indices(length)
                    got = (_eval(st0, {"n": length}), _eval(e0, {"n": length}), stp)
                    assert list(range(*want)) == list(range(*got)), (s0, s1, st, length, want, got)
                    n += 1
    return {"contract": "builtin range length/items, slice.indices", "cases": n, "exhaustive": True,
            "bound": "a,b in -7..7, step in +-1..4; slice fields in {None,-6..6}, steps {None,+-1,+-2,+-3}, lengths 0..6"}


def check_format(tier, seed):
    n = 0
    for spec, lo, hi in (("04g", 0, 9999), ("02g", 0, 99), ("1g", 0, 9), ("02g", 0, 999), ("g", 0, 99999), ("", 0, 99999), ("d", 0, 9999)):
        for v in range(lo, hi + 1):
            s = format(v, spec)
            assert s.isdigit() and int(s) == v, (spec, v)
            width = int(spec[:-1] or 0) if spec and spec[:-1] else 0
            assert len(s) == max(width, len(str(v))), (spec, v)
            n += 1
    for v in list(range(-20000, 20001, 7)) + [10**6 - 1, -(10**6) + 1, 10**12, -10**12]:
        s = str(v)
        assert int(s) == v and (s[0] == "-") == (v < 0) and s.lstrip("-").isdigit()
        assert int(f"({v})".removeprefix("(").removesuffix(")")) == v
        n += 1
    assert format(10**6, "g") == "1e+06"      # the reason for the < 10**6 side condition
    return {"contract": "format(int, spec)/str(int)/int(str)", "cases": n, "exhaustive": True,
            "bound": "specs 04g,02g,1g,g,d,'' on their digit ranges; str/int on sampled signed ints"}


def check_regex(tier, seed):
    """python re -> z3 regular expressions: fullmatch / match (prefix) / search of the patterns the analysed code uses
    (SDMX formats and a few generic ones), on strings the library produces, their prefixes, extensions and mutations."""
    import re
    rng = random.Random(seed + 5)
    pats = [r"\d\d\d\d", r"\d\d\d\d-H\d", r"\d\d\d\d-Q\d", r"\d\d\d\d-\d\d", r"\d\d\d\d-\d\d-\d\d", r"\([\-\+]?\d+\)",
            r"[A-Za-z_]\w*", r"\s*\w+\s*", r"a|bc", r"(ab)+c?", r"x{2,3}", r"[^0-9]+\d"]
    try:
        import irispie.dates as D
        pats += [p.pattern for (_, p) in D.SDMX_REXP_FORMATS.values()]
    except Exception:
        pass
    seeds = ["2020", "2020-H1", "2020-Q4", "2020-05", "2020-05-17", "(12)", "(-3)", "abc_1", " ab ", "a", "bc", "ababc", "xx", "xxxx", "ab1", "", "0001-Q1x", "x2020"]
    n = 0
    anything = z3.Star(z3.AllChar(z3.ReSort(z3.StringSort())))
    for pat in dict.fromkeys(pats):
        try:
            rex = L.regex_to_z3(pat)
        except L.Unsupported:
            continue
        cp = re.compile(pat)
        strings = list(seeds)
        for _ in range(20 if tier == "quick" else 200):
            b = rng.choice(seeds)
            k = rng.randint(0, len(b))
            strings.append(b[:k] + rng.choice(["", "1", "-", "Q", " ", "a"]) + b[k:])
        for sx in strings:
            if "\n" in sx:
                continue
            zs = z3.StringVal(sx)
            for kind, zr in (("fullmatch", rex), ("match", z3.Concat(rex, anything)), ("search", z3.Concat(anything, rex, anything))):
                got = z3.simplify(z3.InRe(zs, zr))
                if not (z3.is_true(got) or z3.is_false(got)):
                    sol = z3.Solver()
                    sol.set("timeout", 2000)
                    sol.add(z3.InRe(zs, zr))
                    got = z3.BoolVal(sol.check() == z3.sat)
                assert z3.is_true(got) == (getattr(cp, kind)(sx) is not None), (pat, sx, kind)
                n += 1
    return {"contract": "regular expressions (libmodels.regex_to_z3): fullmatch, match, search", "cases": n, "exhaustive": False,
            "bound": "patterns used by irispie.dates plus 12 generic ones; strings the library produces with single-character insertions"}


def check_kernels(tier, seed):
    """The ASSUMED contracts of the numerical kernels (numpy.linalg.solve, scipy.linalg.solve_discrete_lyapunov,
    daqp.solve) against the real kernels on random well-posed instances: the returned values satisfy the assumed
    postconditions to floating-point accuracy.  Evidence for the assumptions only."""
    import numpy as np
    rng = np.random.default_rng(seed + 23)
    n = 0
    reps = 60 if tier == "quick" else 600
    for _ in range(reps):
        m = int(rng.integers(1, 5))
        k = int(rng.integers(1, 4))
        A = rng.normal(size=(m, m)) + 3 * np.eye(m)
        b = rng.normal(size=(m, k))
        X = np.linalg.solve(A, b)
        assert np.allclose(A @ X, b, atol=1e-8), "linalg.solve: A @ X == b"
        assert np.array_equal(np.linalg.solve(A, b), X), "linalg.solve: same arguments, same result"
        b2 = b.copy()
        b2[0, 0] = np.nan
        assert np.isnan(np.linalg.solve(A, b2)).any(), "linalg.solve: NaN in, NaN out (no exception)"
        n += 3
    try:
        import scipy.linalg as spl
        for _ in range(reps):
            m = int(rng.integers(1, 5))
            a = rng.normal(size=(m, m))
            a = 0.9 * a / max(1e-9, max(abs(np.linalg.eigvals(a)))) * rng.uniform(0.1, 1.0)
            q = rng.normal(size=(m, m))
            q = q @ q.T
            X = spl.solve_discrete_lyapunov(a, q)
            assert np.allclose(X, a @ X @ a.T + q, atol=1e-7 * max(1.0, np.abs(X).max())), "lyapunov: X == a X a' + q"
            assert np.allclose(X, X.T, atol=1e-8 * max(1.0, np.abs(X).max())), "lyapunov: symmetric for symmetric q"
            n += 2
        try:
            spl.solve_discrete_lyapunov(np.eye(2) * 0.5, np.eye(3))
            raise AssertionError("lyapunov: shape mismatch must raise")
        except ValueError:
            n += 1
    except ImportError:
        pass
    try:
        import scipy.signal as sig
        for _ in range(reps):
            p_ = int(rng.integers(1, 4))
            T = int(rng.integers(1, 6))
            ar = np.concatenate(([rng.choice([1.0, 2.0])], rng.normal(size=p_)))
            past = rng.normal(size=p_ + int(rng.integers(0, 2)))      # y[-1], y[-2], ... (possibly more than needed)
            x = rng.normal(size=T)
            y, _zf = sig.lfilter((1,), ar, x, zi=sig.lfiltic((1,), ar, past), axis=0)
            hist = list(past)
            for t in range(T):
                want = (x[t] - sum(ar[j] * hist[j - 1] for j in range(1, p_ + 1))) / ar[0]
                assert abs(y[t] - want) <= 1e-9 * max(1.0, abs(want)), "lfilter: a[0] y[t] + sum a[k] y[t-k] == x[t] from the initial conditions"
                hist.insert(0, y[t])
            n += 1
    except ImportError:
        pass
    try:
        import daqp
        import ctypes
        for _ in range(reps):
            m = int(rng.integers(2, 6))
            r = int(rng.integers(1, 4))
            L0 = rng.normal(size=(m, m))
            H = L0 @ L0.T + 0.5 * np.eye(m)
            f = rng.normal(size=m)
            A = rng.normal(size=(r, m))
            mid = A @ rng.normal(size=m)
            bu = mid + rng.uniform(0.0, 1.0, size=r)
            bl = mid - rng.uniform(0.0, 1.0, size=r)
            sense = np.zeros(r, dtype=ctypes.c_int)
            x, fval, exitflag, info = daqp.solve(H, f, A, bu, bl, sense)
            assert exitflag > 0, "daqp: success reported on a feasible strictly convex problem"
            ax = A @ x
            assert np.all(ax <= bu + 1e-7) and np.all(ax >= bl - 1e-7), "daqp: bounds"
            g = H @ x + f
            mu = np.asarray(info["lam"], dtype=float)           # the solver's own multipliers witness the existential in the contract
            assert np.allclose(A.T @ mu, -g, atol=1e-6 * max(1.0, np.abs(g).max())), "daqp: stationarity H x + f + A' mu == 0"
            for j in range(r):
                if mu[j] > 1e-6:
                    assert abs(ax[j] - bu[j]) <= 1e-6, "daqp: positive multiplier only at the upper bound"
                if mu[j] < -1e-6:
                    assert abs(ax[j] - bl[j]) <= 1e-6, "daqp: negative multiplier only at the lower bound"
            n += 1
    except ImportError:
        pass
    return {"contract": "assumed kernel contracts: numpy.linalg.solve (A X = b, functional, NaN propagates), scipy solve_discrete_lyapunov "
                        "(fixed point, symmetry, shape errors), scipy.signal.lfiltic/lfilter with b=(1,) (autoregressive recursion from initial conditions), daqp.solve (KKT point of the bounded QP)", "cases": n, "exhaustive": False,
            "bound": "random well-conditioned systems of dimension 1-5"}


def run_all(tier, seed):
    out = []
    for fn in (check_gregorian, check_range, check_format, check_numpy, check_regex, check_kernels):
        t0 = time.time()
        try:
            r = fn(tier, seed)
            r["status"] = "agrees"
        except AssertionError as ex:
            r = {"contract": fn.__name__, "status": "DISAGREES", "detail": repr(ex)}
        r["time_s"] = round(time.time() - t0, 2)
        out.append(r)
    return out


# ------------------------------------------------------------------------------------- numpy model
def _concrete_cells(arr):
    """Evaluate a model array of concrete shape to nested python lists (NaN as None)."""
    from .interp import nan_of
    from .values import SV
    import itertools

    def ev(e):
        if isinstance(e, SV):
            n = nan_of(e)
            if n is not None and z3.is_true(z3.simplify(n)):
                return None
            if n is not None and not z3.is_false(z3.simplify(n)):
                raise AssertionError(f"non-concrete nan flag {n}")
            t = z3.simplify(e.t)
            if z3.is_true(t):
                return True
            if z3.is_false(t):
                return False
            if z3.is_int_value(t):
                return t.as_long()
            if z3.is_rational_value(t):
                return t.numerator_as_long() / t.denominator_as_long()
            raise AssertionError(f"non-concrete element {t}")
        if isinstance(e, float) and e != e:
            return None
        return e
    shape = arr.shape
    assert all(isinstance(d, int) for d in shape), shape
    out = {}
    for idx in itertools.product(*[range(d) for d in shape]):
        out[idx] = ev(arr.get(*[z3.IntVal(i) for i in idx]))
    return shape, out


def _np_cells(a):
    import numpy as np, itertools
    out = {}
    for idx in itertools.product(*[range(d) for d in a.shape]):
        v = a[idx]
        if isinstance(v, (np.bool_, bool)):
            out[idx] = bool(v)
        elif isinstance(v, (np.integer,)):
            out[idx] = int(v)
        else:
            v = float(v)
            out[idx] = None if v != v else v
    return tuple(a.shape), out


def _same(m, n):
    (ms, mc), (ns, nc) = m, n
    if tuple(ms) != tuple(ns):
        return False
    for k in nc:
        a, b = mc[k], nc[k]
        if a is None or b is None:
            if not (a is None and b is None):
                return False
        elif isinstance(b, bool) or isinstance(a, bool):
            if bool(a) != bool(b):
                return False
        elif abs(float(a) - float(b)) > 1e-9 * max(1.0, abs(float(b))):
            return False
    return True


def check_numpy(tier, seed):
    import numpy as np
    from .ctx import Ctx
    from .interp import Interp
    from .values import LibObj, SV
    rng = random.Random(seed + 17)
    lib = L.Lib()
    N = lib.numpy
    n = 0

    def rand_arr(r, c):
        pool = [float("nan"), -1.0, 0.0, 2.0, 0.5, 3.0, 7.0]
        return np.array([[rng.choice(pool) for _ in range(c)] for _ in range(r)], dtype=float).reshape(r, c)

    def sl(a, b, c):
        return LibObj("slice", start=a, stop=b, step=c)
    reps = 40 if tier == "quick" else 400
    for _ in range(reps):
        I = Interp(Ctx(), lib)
        r, c = rng.randint(0, 4), rng.randint(1, 3)
        A = rand_arr(r, c)
        M = N.coerce(I, A)
        cases = []
        b4, af = rng.randint(0, 2), rng.randint(0, 2)
        cases.append(("pad", lambda: N.np_pad(I, [M, ((b4, af), (0, 0))], {"mode": "constant", "constant_values": float("nan")}, None),
                      lambda: np.pad(A, ((b4, af), (0, 0)), mode="constant", constant_values=np.nan)))
        s0, s1, st = rng.choice([None, -3, -1, 0, 1, 2, 5]), rng.choice([None, -2, -1, 0, 1, 3, 6]), rng.choice([None, 1, -1, 2, -2])
        cases.append(("slice", lambda: N.getitem(I, M, (sl(s0, s1, st), sl(None, None, None)), None), lambda: A[s0:s1:st, :]))
        cases.append(("T", lambda: I.getattr(M, "T"), lambda: A.T))
        cases.append(("isnan", lambda: N.np_isnan(I, [M], {}, None), lambda: np.isnan(A)))
        cases.append(("all_nan_rows", lambda: N.np_all(I, [N.np_isnan(I, [M], {}, None)], {"axis": 1}, None), lambda: np.all(np.isnan(A), axis=1)))
        cases.append(("hstack", lambda: N.np_hstack(I, [(M, M)], {}, None), lambda: np.hstack((A, A))))
        cases.append(("add_bcast", lambda: N.binop(I, "+", M, N.getitem(I, M, (sl(None, None, None), [0]), None), None), lambda: A + A[:, [0]]))
        cases.append(("mul_scalar", lambda: N.binop(I, "*", M, 2.5, None), lambda: A * 2.5))
        cases.append(("neg_rev", lambda: N.getitem(I, N.unary(I, __import__("ast").USub(), M, None), (sl(None, None, -1),), None), lambda: (-A)[::-1]))
        cases.append(("tile", lambda: N.np_tile(I, [N.getitem(I, M, (sl(None, None, None), (-1,)), None), (1, 2)], {}, None), lambda: np.tile(A[:, (-1,)], (1, 2))))
        cases.append(("repeat", lambda: N.np_repeat(I, [N.getitem(I, M, (sl(None, None, None), [0]), None), 3], {"axis": 1}, None), lambda: np.repeat(A[:, [0]], 3, axis=1)))
        if r > 0:
            pos = [rng.randint(-r, r - 1) for _ in range(rng.randint(1, 3))]
            cols = list(range(c))
            cases.append(("ix", lambda: N.getitem(I, M, N.np_ix_(I, [pos, cols], {}, None), None), lambda: A[np.ix_(pos, cols)]))
            cases.append(("fancy_rows", lambda: N.getitem(I, M, (pos, 0), None), lambda: A[pos, 0]))
            cc = rng.randint(0, c - 1)
            vals = [float(rng.randint(10, 20)) for _ in pos]

            def m_set():
                M2 = M.copy()
                N.setitem(I, M2, (pos, cc), vals, None)
                return M2

            def n_set():
                A2 = A.copy()
                A2[pos, cc] = vals
                return A2
            cases.append(("fancy_set", m_set, n_set))

            def m_view_write():
                M2 = M.copy()
                v = N.getitem(I, M2, (sl(None, None, -1), sl(None, None, None)), None)
                N.setitem(I, v, (0, 0), 99.0, None)      # through a reversed view
                return M2

            def n_view_write():
                A2 = A.copy()
                v = A2[::-1, :]
                v[0, 0] = 99.0
                return A2
            cases.append(("write_through_view", m_view_write, n_view_write))

            def m_eager():
                M2 = M.copy()
                derived = N.binop(I, "+", M2, 1.0, None)
                mask = N.np_isnan(I, [M2], {}, None)
                N.setitem(I, M2, (0, 0), 55.0, None)          # later write must not leak into derived arrays
                N.setitem(I, M2, mask, 7.0, None)
                return N.np_hstack(I, [(derived, M2)], {}, None)

            def n_eager():
                A2 = A.copy()
                derived = A2 + 1.0
                mask = np.isnan(A2)
                A2[0, 0] = 55.0
                A2[mask] = 7.0
                return np.hstack((derived, A2))
            cases.append(("eager_evaluation", m_eager, n_eager))
            cases.append(("reshape", lambda: N.reshape(I, N.getitem(I, M, (sl(None, None, None), 0), None), [-1, 1], None), lambda: A[:, 0].reshape(-1, 1)))
            bx = ~np.all(np.isnan(A), axis=1)
            cases.append(("argmax", lambda: NDArr0(I, N.np_argmax(I, [N.unary(I, __import__("ast").Invert(), N.np_all(I, [N.np_isnan(I, [M], {}, None)], {"axis": 1}, None), None)], {}, None)),
                          lambda: np.array(np.argmax(bx))))
        # models added for the dense linear algebra and window code
        cases.append(("flatten_F", lambda: N.flatten(I, M, [], {"order": "F"}, None), lambda: A.flatten(order="F")))
        cases.append(("flatten_C", lambda: N.flatten(I, M, [], {}, None), lambda: A.flatten()))
        cases.append(("stack_axis2", lambda: N.np_stack(I, [], {"arrays": (M, M.copy(), M), "axis": 2}, None), lambda: np.stack(arrays=(A, A.copy(), A), axis=2)))
        cases.append(("stack_axis0", lambda: N.np_stack(I, [(M, M)], {}, None), lambda: np.stack((A, A))))
        w = rng.randint(1, 3)
        cases.append(("sliding_window", lambda: N.np_sliding_window_view(I, [M], {"window_shape": w, "axis": 0}, None),
                      lambda: np.lib.stride_tricks.sliding_window_view(A, window_shape=w, axis=0)))
        cases.append(("window_sum", lambda: N.np_sum(I, [N.np_sliding_window_view(I, [M], {"window_shape": w, "axis": 0}, None)], {"axis": 2}, None),
                      lambda: np.sum(np.lib.stride_tricks.sliding_window_view(A, window_shape=w, axis=0), axis=2)))
        sq = rng.randint(1, 3)
        Q = np.array([[float(rng.randint(-3, 3)) for _ in range(sq)] for _ in range(sq)])
        QM = N.coerce(I, Q)
        pw = rng.randint(0, 3)
        cases.append(("matrix_power", lambda: N.np_matrix_power(I, [QM, pw], {}, None), lambda: np.linalg.matrix_power(Q, pw)))
        cases.append(("matmul", lambda: N.matmul(I, QM, N.getattr(I, QM, "T", None), None), lambda: Q @ Q.T))
        cases.append(("reshape_F", lambda: N.reshape_fortran(I, QM, [-1], {"order": "F"}, None), lambda: Q.reshape(-1, order="F")))
        cases.append(("eye_diag", lambda: N.binop(I, "+", N.np_eye(I, [sq], {}, None), N.np_diag(I, [N.np_diag(I, [QM], {}, None)], {}, None), None),
                      lambda: np.eye(sq) + np.diag(np.diag(Q))))
        if sq > 1:
            dj = rng.randint(0, sq - 1)
            cases.append(("delete_col", lambda: N.np_delete(I, [QM, dj], {"axis": 1}, None), lambda: np.delete(Q, dj, axis=1)))
        for name, mf, nf in cases:
            try:
                want = nf()
            except Exception as ex:
                want = ex
            try:
                got = mf()
            except Exception as ex:      # the model raises PyRaise where numpy raises
                got = ex
            if isinstance(want, Exception) or isinstance(got, Exception):
                assert isinstance(want, Exception) and isinstance(got, Exception), (name, repr(want)[:80], repr(got)[:80])
            else:
                assert _same(_concrete_cells(got), _np_cells(np.asarray(want))), (name, A.tolist(), locals().get("pos"), (s0, s1, st))
            n += 1
    return {"contract": "numpy model (pyvc/ndarray.py): pad, slicing/views, fancy get/set, ix_, hstack, isnan/all/argmax, broadcasting, tile/repeat/reshape, flatten order, stack, sliding windows, matrix_power, matmul, eye/diag/delete", "cases": n,
            "exhaustive": False, "bound": "random arrays up to 4x3 with NaNs, random slices / index lists"}


def NDArr0(I, v):
    """wrap a model scalar as a 0-d array for comparison"""
    from .ndarray import NDArr
    return NDArr.fresh(lambda: v, (), "int")
