"""Differential validation of the ASSUMED library contracts (libmodels.py, strings.py) against the real
library.  Evidence for the assumptions - never counted as proof.  quick: sampled; thorough: exhaustive where
the domain is finite."""
from __future__ import annotations
import datetime, calendar, random, time
import z3
from . import libmodels as L


def _eval(term, env):
    subs = [(z3.Int(k), z3.IntVal(v)) for k, v in env.items()]
    r = z3.simplify(z3.substitute(term, *subs))
    if z3.is_int_value(r):
        return r.as_long()
    if z3.is_true(r):
        return True
    if z3.is_false(r):
        return False
    raise AssertionError(f"not a value: {r}")


def py_ymd2ord(y, m, d):
    y1 = y - 1
    leap = (y % 4 == 0 and y % 100 != 0) or y % 400 == 0
    return y1 * 365 + y1 // 4 - y1 // 100 + y1 // 400 + L._DBM[m] + (1 if m > 2 and leap else 0) + d


def check_gregorian(tier, seed):
    rng = random.Random(seed)
    y, m, d = z3.Ints("y m d")
    ordt = L.z_ymd2ord(y, m, d)
    validt = L.z_valid_date(y, m, d)
    dimt = L.z_days_in_month(y, m)
    n = 0
    ords = [1, 2, 365, 366, 730119, 730120, L.MAX_ORD - 1, L.MAX_ORD] + [rng.randint(1, L.MAX_ORD) for _ in range(400 if tier == "quick" else 4000)]
    for o in ords:
        dt = datetime.date.fromordinal(o)
        env = {"y": dt.year, "m": dt.month, "d": dt.day}
        assert _eval(ordt, env) == o, ("ordinal formula", o)
        assert _eval(validt, env) is True
        assert _eval(dimt, env) == calendar.monthrange(dt.year, dt.month)[1]
        n += 1
    # invalid dates are recognised as invalid
    for (yy, mm, dd) in [(2021, 2, 29), (2020, 2, 30), (1900, 2, 29), (2000, 2, 29), (2020, 13, 1), (0, 1, 1), (10000, 1, 1), (2020, 4, 31), (2020, 0, 1), (2020, 1, 0)]:
        try:
            datetime.date(yy, mm, dd)
            ok = True
        except ValueError:
            ok = False
        assert _eval(validt, {"y": yy, "m": mm, "d": dd}) is ok, (yy, mm, dd)
        n += 1
    exhaustive = False
    # python mirror of the same formula: exhaustive in thorough, strided in quick; injectivity follows from
    # ord(fromordinal(o)) == o for every o in 1..MAX_ORD
    stride = 1 if tier == "thorough" else 97
    for o in range(1, L.MAX_ORD + 1, stride):
        dt = datetime.date.fromordinal(o)
        assert py_ymd2ord(dt.year, dt.month, dt.day) == o
        n += 1
    exhaustive = stride == 1
    # monotonicity lemma: consecutive ordinals are lexicographically increasing (=> strictly monotone)
    prev = None
    for o in range(1, L.MAX_ORD + 1, 1 if tier == "thorough" else 1):
        if tier != "thorough" and o > 150000 and o % 13:
            continue
        dt = datetime.date.fromordinal(o)
        cur = (dt.year, dt.month, dt.day)
        if prev is not None and prev[0] == o - 1:
            assert prev[1] < cur, ("lex monotone", o)
        prev = (o, cur)
        n += 1
    for _ in range(200):
        dt = datetime.date.fromordinal(rng.randint(1, L.MAX_ORD))
        assert py_ymd2ord(dt.year, dt.month, dt.day) == _eval(ordt, {"y": dt.year, "m": dt.month, "d": dt.day})
    return {"contract": "datetime ordinal / calendar.monthrange", "cases": n, "exhaustive": exhaustive}


class _FakeCtx:
    def note_assumption(self, t):
        pass


class _FakeI:
    ctx = _FakeCtx()


def check_range(tier, seed):
    from .values import SV, SRange, LibObj
    lib = L.Lib()
    a, b, s = z3.Ints("a b s")
    lent = lib.range_len(_FakeI(), SRange(SV(a), SV(b), SV(s))).t
    n = 0
    R = range(-7, 8)
    for aa in R:
        for bb in R:
            for ss in (-4, -3, -2, -1, 1, 2, 3, 4):
                r = range(aa, bb, ss)
                assert _eval(lent, {"a": aa, "b": bb, "s": ss}) == len(r), (aa, bb, ss)
                for i, v in enumerate(r):
                    assert aa + i * ss == v
                n += 1
    # constant-step variant
    for ss in (-3, -1, 1, 2):
        lt = lib.range_len(_FakeI(), SRange(SV(a), SV(b), ss)).t
        for aa in R:
            for bb in R:
                assert _eval(lt, {"a": aa, "b": bb}) == len(range(aa, bb, ss))
                n += 1
    # slices
    ln = z3.Int("n")
    vals = [None] + list(range(-6, 7))
    for s0 in vals:
        for s1 in vals:
            for st in (None, 1, -1, 2, -2, 3, -3):
                sl = LibObj("slice", start=s0, stop=s1, step=st)
                st0, e0, stp = lib.slice_indices_sym(_FakeI(), sl, SV(ln), None)
                for length in range(0, 7):
                    want = slice(s0, s1, st).indices(length)
                    got = (_eval(st0, {"n": length}), _eval(e0, {"n": length}), stp)
                    assert list(range(*want)) == list(range(*got)), (s0, s1, st, length, want, got)
                    n += 1
    return {"contract": "builtin range length/items, slice.indices", "cases": n, "exhaustive": True,
            "bound": "a,b in -7..7, step in +-1..4; slice fields in {None,-6..6}, steps {None,+-1,+-2,+-3}, lengths 0..6"}


def check_format(tier, seed):
    n = 0
    for spec, lo, hi in (("04g", 0, 9999), ("02g", 0, 99), ("1g", 0, 9), ("02g", 0, 999), ("g", 0, 99999), ("", 0, 99999), ("d", 0, 9999)):
        for v in range(lo, hi + 1):
            s = format(v, spec)
            assert s.isdigit() and int(s) == v, (spec, v)
            width = int(spec[:-1] or 0) if spec and spec[:-1] else 0
            assert len(s) == max(width, len(str(v))), (spec, v)
            n += 1
    for v in list(range(-20000, 20001, 7)) + [10**6 - 1, -(10**6) + 1, 10**12, -10**12]:
        s = str(v)
        assert int(s) == v and (s[0] == "-") == (v < 0) and s.lstrip("-").isdigit()
        assert int(f"({v})".removeprefix("(").removesuffix(")")) == v
        n += 1
    assert format(10**6, "g") == "1e+06"      # the reason for the < 10**6 side condition
    return {"contract": "format(int, spec)/str(int)/int(str)", "cases": n, "exhaustive": True,
            "bound": "specs 04g,02g,1g,g,d,'' on their digit ranges; str/int on sampled signed ints"}


def run_all(tier, seed):
    out = []
    for fn in (check_gregorian, check_range, check_format):
        t0 = time.time()
        try:
            r = fn(tier, seed)
            r["status"] = "agrees"
        except AssertionError as ex:
            r = {"contract": fn.__name__, "status": "DISAGREES", "detail": repr(ex)}
        r["time_s"] = round(time.time() - t0, 2)
        out.append(r)
    return out
