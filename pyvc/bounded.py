"""Bounded stand-ins: runtime-checked contracts on the real functions over an enumerated / sampled scope.

NEVER counted as proved: results are reported under coverage.bounded_standins with their stated bound.
A bounded check is a generator function yielding nothing; it receives a `B` helper and reports failures
through B.fail(what, witness)."""
from __future__ import annotations
import time, traceback, random

BOUNDED = []


class BoundedCheck:
    def __init__(self, fn, prop, name, bound, tiers):
        self.fn, self.prop, self.name, self.bound, self.tiers = fn, prop, name, bound, tiers


def bounded(prop, name=None, bound="", tiers=("quick", "thorough")):
    def deco(fn):
        BOUNDED.append(BoundedCheck(fn, prop, name or fn.__name__, bound, tiers))
        return fn
    return deco


class B:
    def __init__(self, tier, seed):
        self.tier = tier
        self.rng = random.Random(seed)
        self.cases = 0
        self.failures = []

    def case(self):
        self.cases += 1

    def fail(self, what, witness):
        self.failures.append((what, witness))

    @property
    def thorough(self):
        return self.tier == "thorough"


def run_bounded(prop, tier, seed, only=None):
    out = []
    for bc in BOUNDED:
        if bc.prop != prop or tier not in bc.tiers:
            continue
        if only and not any(o in bc.name for o in only.split(",")):
            continue
        t0 = time.time()
        b = B(tier, seed)
        rec = {"name": bc.name, "bound": bc.bound, "status": "held", "cases": 0, "exhaustive_within_bound": True}
        try:
            r = bc.fn(b)
            if isinstance(r, dict):
                rec.update(r)
            rec["cases"] = b.cases
            if b.failures:
                rec["status"] = "violation"
                rec["what"], rec["witness"] = b.failures[0]
                rec["failures"] = len(b.failures)
            elif b.cases == 0:
                rec["status"] = "error"
                rec["what"] = "bounded check explored zero cases"
        except Exception as e:
            rec["cases"] = b.cases
            if _raised_by_code_under_check(e):
                # the stand-ins feed only inputs inside the property's domain, where the property states a result:
                # an exception that escapes from the repository's own frames is a violation with the case as witness
                rec["status"] = "violation"
                rec["what"] = f"the code under check raised {type(e).__name__}: {str(e)[:200]}"
                rec["witness"] = {"case_number": b.cases, "traceback": traceback.format_exc(limit=-6)}
                rec["failures"] = 1
            else:
                rec["status"] = "error"
                rec["what"] = traceback.format_exc(limit=8)
        rec["time_s"] = round(time.time() - t0, 2)
        out.append(rec)
    return out


def _raised_by_code_under_check(exc):
    """True when the innermost frame that belongs to either the checker or the repository belongs to the repository."""
    import os
    here = os.path.dirname(os.path.dirname(os.path.abspath(__file__)))
    last = None
    tb = exc.__traceback__
    while tb is not None:
        fn = os.path.abspath(tb.tb_frame.f_code.co_filename)
        if fn.startswith(here + os.sep):
            last = "checker"
        elif os.sep + "irispie" + os.sep in fn:
            last = "repo"
        tb = tb.tb_next
    return last == "repo"


def replay(rp):
    for bc in BOUNDED:
        if bc.name == rp["bounded_check"]:
            b = B(rp.get("tier", "quick"), rp.get("seed", 0))       # same tier and seed as the run that reported the failure
            try:
                bc.fn(b)
            except Exception as e:
                if _raised_by_code_under_check(e):
                    print(f"bounded check {bc.name} fails: the code under check raised {type(e).__name__}: {e} (case {b.cases})")
                    return 1
                raise
            if b.failures:
                print(f"bounded check {bc.name} fails: {b.failures[0]}")
                return 1
            print(f"bounded check {bc.name} holds on {b.cases} cases")
            return 0
    print("bounded check not found")
    return 3
