"""Structural string theory.

A string built by the analysed code from literals and formatted symbolic integers is kept as a
concatenation of parts (values.SStr).  The facts used about CPython's `format`/`int`/`str.split` on such
strings are *assumed contracts* (listed by `ASSUMED`), validated exhaustively on their finite domains by
pyvc.libcheck:

  A1  for an int n with 0 <= n < 10**6 (non-scientific range of 'g'), format(n, '0Wg') / 'Wg'(W<=1) / 'g' / 'd' / ''
      is the decimal numeral of n left-padded with '0' to width W: only characters '0'..'9', length
      max(W, ndigits(n)), and int() of it is n.
  A2  for any int n, str(n)/format(n,'') is '-' + numeral(|n|) for n<0, numeral(n) otherwise; int(str(n)) == n.
  A3  str.split / strip / removeprefix / removesuffix / replace act on the concatenation; a separator
      without decimal digits cannot match inside a digits-only part.
"""
from __future__ import annotations
import re
import z3
from .values import *

ASSUMED = [
    "format(n,'0Wg'|'Wg'|'g'|'d'|'') of an int 0<=n<10**6 is its zero-padded decimal numeral; int() inverts it (validated exhaustively)",
    "str(n) of any int is its signed decimal numeral and int(str(n)) == n",
    "str.split/strip/removeprefix/removesuffix/replace on a concatenation of literals and digit-only parts act on the literal parts only when the separator contains no digit",
]

_SPEC = re.compile(r"^(?P<zero>0?)(?P<width>\d*)(?P<type>[gd]?)$")


def parse_int_spec(spec):
    m = _SPEC.match(spec)
    if not m:
        raise Unsupported(f"format spec {spec!r} for a symbolic integer")
    width = int(m.group("width")) if m.group("width") else 0
    zero = bool(m.group("zero"))
    return width, m.group("type"), zero


def concat(I, parts):
    flat = []
    for p in parts:
        if isinstance(p, SStr):
            flat.extend(p.parts)
        elif isinstance(p, str):
            flat.append(p)
        elif isinstance(p, tuple):
            flat.append(p)
        elif isinstance(p, SV) and p.is_str:
            flat.append(("z3", p.t))
        else:
            raise Unsupported(f"string part {type(p).__name__}")
    s = SStr(flat)
    if all(isinstance(p, str) for p in s.parts):
        return "".join(s.parts)
    return s


def atom(name, payload=None):
    return SStr([("atom", name, payload)])


def format_value(I, val, conversion, spec, node):
    from .interp import _MISSING
    if isinstance(val, SV):
        if val.is_int:
            parse_int_spec(spec)
            if conversion not in (-1, 115, 114):
                raise Unsupported("conversion on symbolic int")
            return SStr([("int", val, spec)])
        if val.is_bool:
            raise Unsupported("formatting a symbolic bool")
        if val.is_real:
            return SStr([("real", val, spec)])
        if val.is_str:
            if spec:
                raise Unsupported("format spec on symbolic str")
            return SStr([("z3", val.t)])
    if isinstance(val, SStr):
        if conversion == 114:
            raise Unsupported("repr of a structural string")
        if spec:
            raise Unsupported("format spec on structural string")
        return val
    if isinstance(val, tuple) and any(isinstance(x, (SV, SStr, Obj)) for x in val):
        if spec:
            raise Unsupported("format spec on tuple")
        return repr_value(I, val, node)
    if isinstance(val, Obj):
        if conversion == 114:
            return I.call(I.getattr(val, "__repr__", node), [], {}, node)
        fm = I.lookup_class_attr(val.cls, "__format__")
        if fm is not _MISSING and conversion == -1 and fm is not object.__format__:
            return I.call(I.getattr(val, "__format__", node), [spec], {}, node)
        r = I.call(I.getattr(val, "__str__", node), [], {}, node)
        if spec:
            raise Unsupported("format spec on object")
        return r
    if I.is_native_repo_instance(val):
        return format_value(I, I.lift_instance(val), conversion, spec, node)
    if isinstance(val, (Func, Bound, LibObj, SSeq, SRange)):
        raise Unsupported(f"formatting {type(val).__name__}")
    if conversion == 114:
        val = repr(val)
    elif conversion == 115:
        val = str(val)
    elif conversion == 97:
        val = ascii(val)
    try:
        return format(val, spec)
    except (ValueError, TypeError) as ex:
        I.fail(type(ex).__name__, str(ex), node)


def repr_value(I, val, node=None):
    if isinstance(val, tuple):
        parts = ["("]
        for i, x in enumerate(val):
            if i:
                parts.append(", ")
            parts.append(repr_value(I, x, node))
        if len(val) == 1:
            parts.append(",")
        parts.append(")")
        return concat(I, parts)
    if isinstance(val, SV) and val.is_int:
        return SStr([("int", val, "")])
    if isinstance(val, (SV, SStr)):
        raise Unsupported("repr of symbolic non-int")
    if isinstance(val, Obj):
        return I.call(I.getattr(val, "__repr__", node), [], {}, node)
    return repr(val)


def str_value(I, val, node=None):
    if isinstance(val, SV) and val.is_int:
        return SStr([("int", val, "")])
    if isinstance(val, (SStr, str)):
        return val
    if isinstance(val, tuple):
        return repr_value(I, val, node)
    if isinstance(val, Obj):
        return I.call(I.getattr(val, "__str__", node), [], {}, node)
    if isinstance(val, SV) and val.is_str:
        return val
    if isinstance(val, SV):
        raise Unsupported("str() of symbolic non-int")
    return str(val)


# ---------------------------------------------------------------------------- facts about int parts

def int_part_info(I, part):
    """(digits_only: bool, min_len, max_len|None) for an ('int', sv, spec) part under the current pc."""
    _, sv, spec = part
    width, typ, zero = parse_int_spec(spec)
    t = sv.t
    nonneg = I.ctx.entails(t >= 0)
    if width > 1 and not zero and not I.ctx.entails(t >= 10 ** (width - 1)):
        # right-aligned with spaces: not a digits-only string (int() still accepts the leading blanks)
        if typ == "g" and not I.ctx.entails(z3.And(t > -10**6, t < 10**6)):
            raise Unsupported("'g' format of an integer not proved to be below 10**6 (scientific notation)")
        I.ctx.note_assumption(ASSUMED[0])
        return "padded", width, None
    if typ == "g":
        # scientific notation from 10**6 (precision 6)
        if not I.ctx.entails(z3.And(t > -10**6, t < 10**6)):
            raise Unsupported("'g' format of an integer not proved to be below 10**6 (scientific notation)")
    I.ctx.note_assumption(ASSUMED[0] if typ or width else ASSUMED[1])
    if not nonneg:
        return "", 1, None          # falsy: signed numeral, no blanks
    lo = max(width, 1)
    hi = None
    for k in range(1, 19):
        if I.ctx.entails(t < 10**k):
            hi = max(width, k)
            break
    # tighten lower bound
    for k in range(18, 0, -1):
        if k > lo and I.ctx.entails(t >= 10**(k - 1)):
            lo = k
            break
    return True, lo, hi


def nonempty(I, s):
    for p in s.parts:
        if isinstance(p, str) and p:
            return True
        if isinstance(p, tuple) and p[0] in ("int", "real"):
            return True
    terms = [z3.Length(p[1]) > 0 for p in s.parts if isinstance(p, tuple) and p[0] == "z3"]
    if terms:
        return z3.Or(*terms)
    if any(isinstance(p, tuple) and p[0] == "atom" for p in s.parts):
        return True
    return False


def binop(I, sym, a, b, node):
    if sym == "+":
        if not isinstance(a, (str, SStr, SV)) or not isinstance(b, (str, SStr, SV)):
            I.fail("TypeError", "can only concatenate str to str", node)
        return concat(I, [a, b])
    if sym in ("==", "!="):
        r = eq(I, a, b, node)
        if sym == "==":
            return r
        return (not r) if isinstance(r, bool) else SV(z3.Not(r.t))
    if sym == "*":
        raise Unsupported("string repetition on structural string")
    raise Unsupported(f"string operator {sym}")


def eq(I, a, b, node):
    if isinstance(a, (str, SStr)) and isinstance(b, (str, SStr)):
        pa = SStr([a]).parts if isinstance(a, str) else a.parts
        pb = SStr([b]).parts if isinstance(b, str) else b.parts
        if len(pa) == len(pb) and all(
                (isinstance(x, str) and isinstance(y, str) and x == y) or
                (isinstance(x, tuple) and isinstance(y, tuple) and x[0] == y[0] == "atom" and x[1] == y[1])
                for x, y in zip(pa, pb)):
            return True
        # decide through the z3 string theory
        return SV(to_z3_string(I, a) == to_z3_string(I, b))
    if not isinstance(a, (str, SStr, SV)) or not isinstance(b, (str, SStr, SV)):
        return False
    return SV(to_z3_string(I, a) == to_z3_string(I, b))


_digit = None


def digit_re():
    return z3.Range("0", "9")


def to_z3_string(I, s):
    """z3 String term denoting a string value; digit parts become fresh variables constrained by the
    assumed facts (over-approximation: sound for proving membership / non-membership goals that hold for
    every digit string of that length)."""
    if isinstance(s, str):
        return z3.StringVal(s)
    if isinstance(s, SV):
        return s.t
    terms = []
    for p in s.parts:
        if isinstance(p, str):
            terms.append(z3.StringVal(p))
        elif p[0] == "z3":
            terms.append(p[1])
        elif p[0] == "int":
            digits, lo, hi = int_part_info(I, p)
            key = ("strof", p[1].t.get_id(), p[2])
            cache = I.ctx.ghost.setdefault("strvars", {})
            if key not in cache:
                v = z3.String(I.ctx.fresh_name("fmt"))
                cache[key] = v
                if digits is True:
                    rex = z3.Loop(digit_re(), lo, hi) if hi is not None else z3.Concat(z3.Loop(digit_re(), lo, lo), z3.Star(digit_re()))
                    I.ctx.assume(z3.InRe(v, rex))
                    I.ctx.assume(z3.Length(v) >= lo)
                    if hi is not None:
                        I.ctx.assume(z3.Length(v) <= hi)
                elif digits == "padded":
                    I.ctx.assume(z3.InRe(v, z3.Concat(z3.Star(z3.Re(" ")), z3.Option(z3.Re("-")), z3.Plus(digit_re()))))
                    I.ctx.assume(z3.Length(v) >= lo)
                else:
                    I.ctx.assume(z3.InRe(v, z3.Concat(z3.Option(z3.Re("-")), z3.Plus(digit_re()))))
            terms.append(cache[key])
        else:
            raise Unsupported(f"string part {p[0]} in a z3 string")
    if not terms:
        return z3.StringVal("")
    return z3.Concat(*terms) if len(terms) > 1 else terms[0]


def _parts(s):
    return SStr([s]).parts if isinstance(s, str) else s.parts


def _digits_only(I, part):
    return int_part_info(I, part)[0] is True


def _sep_safe(I, s, sep):
    """A separator can only match inside literal parts."""
    if not isinstance(sep, str) or sep == "":
        raise Unsupported("symbolic or empty separator")
    if any(ch.isdigit() for ch in sep):
        raise Unsupported("separator containing digits against a structural string")
    for p in _parts(s):
        if isinstance(p, tuple):
            if p[0] == "int":
                if not _digits_only(I, p):
                    if any(ch in "-+" for ch in sep):
                        raise Unsupported("separator may match the sign of a possibly negative formatted integer")
            elif p[0] == "atom":
                continue
            else:
                raise Unsupported(f"split/replace over part {p[0]}")
    I.ctx.note_assumption(ASSUMED[2])


def method(I, s, name, node):
    """Bound method `name` of structural string s (returns a python callable taking (args, kwargs))."""
    def split(args, kwargs):
        sep = args[0] if args else kwargs.get("sep")
        maxsplit = args[1] if len(args) > 1 else kwargs.get("maxsplit", -1)
        if sep is None:
            raise Unsupported("whitespace split on structural string")
        _sep_safe(I, s, sep)
        if any(isinstance(p, tuple) and p[0] == "atom" for p in s.parts):
            raise Unsupported("split over opaque atoms")
        out = [[]]
        count = 0
        for p in s.parts:
            if isinstance(p, str):
                pieces = p.split(sep) if maxsplit < 0 else p.split(sep, max(maxsplit - count, 0))
                out[-1].append(pieces[0])
                for piece in pieces[1:]:
                    out.append([piece])
                    count += 1
            else:
                out[-1].append(p)
        return [concat(I, x) for x in out]

    def strip(args, kwargs):
        chars = args[0] if args else None
        parts = list(s.parts)
        if chars is not None and any(c.isdigit() or c in "-+" for c in chars):
            raise Unsupported("strip of digit/sign characters")
        if parts and isinstance(parts[0], str) and name in ("strip", "lstrip"):
            parts[0] = parts[0].lstrip(chars)
        if parts and isinstance(parts[-1], str) and name in ("strip", "rstrip"):
            parts[-1] = parts[-1].rstrip(chars)
        for idx in (0, -1):
            p = parts[idx]
            if isinstance(p, tuple) and p[0] not in ("int",):
                raise Unsupported("strip with opaque end part")
            if isinstance(p, tuple) and int_part_info(I, p)[0] == "padded":
                if chars is not None or (idx == -1 and name == "lstrip") or (idx == 0 and name == "rstrip" and len(parts) > 1):
                    raise Unsupported("strip of a blank-padded number with explicit chars")
                if idx == 0 or len(parts) == 1:
                    parts[idx] = ("int", p[1], "")      # leading blanks removed
        return concat(I, parts)

    def removeprefix(args, kwargs):
        pre = args[0]
        parts = list(s.parts)
        if pre == "":
            return s
        if isinstance(parts[0], str):
            if len(parts[0]) >= len(pre):
                parts[0] = parts[0].removeprefix(pre)
                return concat(I, parts)
            if not pre.startswith(parts[0]):
                return s
            raise Unsupported("removeprefix straddling parts")
        if parts[0][0] == "int":
            if pre[0].isdigit() or (pre[0] in "-" and not _digits_only(I, parts[0])):
                raise Unsupported("removeprefix that may match a formatted integer")
            return s
        raise Unsupported("removeprefix on opaque part")

    def removesuffix(args, kwargs):
        suf = args[0]
        parts = list(s.parts)
        if suf == "":
            return s
        if isinstance(parts[-1], str):
            if len(parts[-1]) >= len(suf):
                parts[-1] = parts[-1].removesuffix(suf)
                return concat(I, parts)
            if not suf.endswith(parts[-1]):
                return s
            raise Unsupported("removesuffix straddling parts")
        if parts[-1][0] == "int":
            if suf[-1].isdigit():
                raise Unsupported("removesuffix that may match a formatted integer")
            return s
        raise Unsupported("removesuffix on opaque part")

    def replace(args, kwargs):
        old, new = args[0], args[1]
        if not isinstance(new, str):
            raise Unsupported("replace with symbolic replacement")
        _sep_safe(I, s, old)
        parts = []
        for p in s.parts:
            if isinstance(p, str):
                parts.append(p.replace(old, new))
            else:
                parts.append(p)
        # a match could straddle two adjacent literal parts only if they were not merged: SStr merges them
        return concat(I, parts)

    def startswith(args, kwargs):
        pre = args[0]
        p0 = s.parts[0]
        if isinstance(pre, str) and isinstance(p0, str) and len(p0) >= len(pre):
            return p0.startswith(pre)
        if isinstance(pre, str) and isinstance(p0, str) and not pre.startswith(p0):
            return False
        raise Unsupported("startswith on structural string")

    def endswith(args, kwargs):
        suf = args[0]
        p0 = s.parts[-1]
        if isinstance(suf, str) and isinstance(p0, str) and len(p0) >= len(suf):
            return p0.endswith(suf)
        if isinstance(suf, str) and isinstance(p0, str) and not suf.endswith(p0):
            return False
        raise Unsupported("endswith on structural string")

    def format_(args, kwargs):
        raise Unsupported("str.format on structural string")

    table = {"split": split, "strip": strip, "lstrip": strip, "rstrip": strip, "removeprefix": removeprefix,
             "removesuffix": removesuffix, "replace": replace, "startswith": startswith, "endswith": endswith,
             "format": format_}
    if name not in table:
        raise Unsupported(f"str.{name} on structural string")
    return table[name]


def to_int(I, s, node):
    parts = s.parts
    if len(parts) == 1 and isinstance(parts[0], tuple) and parts[0][0] == "int":
        int_part_info(I, parts[0])   # records the assumption, checks the 'g' range
        return parts[0][1]
    # literal whitespace around a single int part
    core = [p for p in parts if not (isinstance(p, str) and p.strip() == "")]
    if len(core) == 1 and isinstance(core[0], tuple) and core[0][0] == "int":
        int_part_info(I, core[0])
        return core[0][1]
    if any(isinstance(p, str) and p.strip() != "" and not p.strip().isdigit() for p in parts):
        # a non-digit literal inside: int() raises ValueError for every value
        if all(isinstance(p, str) or p[0] == "int" for p in parts):
            lits = "".join(p for p in parts if isinstance(p, str))
            if any(not (c.isdigit() or c in "+-_ ") for c in lits):
                I.raise_exc(ValueError, "invalid literal for int()")
    raise Unsupported(f"int() of structural string {s!r}")


def length(I, s):
    total = 0
    sym = []
    for p in s.parts:
        if isinstance(p, str):
            total += len(p)
        elif p[0] == "int":
            digits, lo, hi = int_part_info(I, p)
            if digits is True and hi is not None and lo == hi:
                total += lo
            else:
                sym.append(z3.Length(to_z3_string(I, SStr([p]))))
        elif p[0] == "z3":
            sym.append(z3.Length(p[1]))
        else:
            raise Unsupported("len of opaque string part")
    if not sym:
        return total
    return SV(z3.IntVal(total) + z3.Sum(*sym) if len(sym) > 1 else z3.IntVal(total) + sym[0])
