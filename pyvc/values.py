"""Symbolic value model of the pyvc symbolic executor.

Concrete Python values (int, float, str, bool, None, tuples, lists, dicts, enum members, native classes,
compiled regexes ...) are represented by themselves.  Symbolic scalars are `SV` wrappers around z3 terms.
Instances of repository classes whose fields may be symbolic are `Obj(cls, attrs)`.
"""
from __future__ import annotations
import z3


class Unsupported(Exception):
    """The analysed code left the supported subset (exit 3, never a violation)."""


class Infeasible(Exception):
    """The current path condition is unsatisfiable: stop exploring this path."""


class PathLimit(Unsupported):
    pass


class PyRaise(Exception):
    """A Python exception raised by the analysed code (modelled)."""
    def __init__(self, exc):
        super().__init__(repr(exc))
        self.exc = exc


class FailurePath(Exception):
    """An implicit failure (NameError, IndexError, ZeroDivisionError, TypeError ...) that is
    *definitely* reached on this path."""
    def __init__(self, kind, msg, node=None):
        super().__init__(f"{kind}: {msg}")
        self.kind = kind
        self.msg = msg
        self.node = node


class SV:
    """Symbolic scalar: wraps a z3 term of sort Int, Real, Bool or String."""
    __slots__ = ("t", "nan")

    def __init__(self, t, nan=None):
        assert isinstance(t, z3.ExprRef), t
        self.t = t
        # float NaN flag (z3 Bool) for reals that may be NaN; None = never NaN
        if nan is not None and not isinstance(nan, z3.ExprRef):
            nan = z3.BoolVal(True) if nan else None
        if nan is not None and z3.is_false(nan):
            nan = None
        self.nan = nan

    @property
    def is_int(self):
        return z3.is_int(self.t)

    @property
    def is_real(self):
        return z3.is_real(self.t)

    @property
    def is_bool(self):
        return z3.is_bool(self.t)

    @property
    def is_str(self):
        return z3.is_string(self.t)

    def __repr__(self):
        return f"SV({self.t})" if self.nan is None else f"SV({self.t} nan={self.nan})"

    def __bool__(self):
        raise Unsupported("python-level truth test on a symbolic value (engine bug): %r" % self)

    # identity semantics: values are never compared with == by the engine
    __hash__ = object.__hash__


class ExcVal:
    """An exception instance (class + args) created by analysed code."""
    def __init__(self, cls, args=()):
        self.cls = cls
        self.args = tuple(args)

    def __repr__(self):
        return f"ExcVal({self.cls.__name__})"


class Obj:
    """Instance of a (repository) class with possibly symbolic attributes."""
    _count = 0

    def __init__(self, cls, attrs=None, label=None):
        self.cls = cls
        self.attrs = dict(attrs or {})
        Obj._count += 1
        self.oid = Obj._count
        self.label = label
        # instances of dict subclasses (Databox) keep their mapping here
        self.store = {} if isinstance(cls, type) and issubclass(cls, dict) else None

    def __repr__(self):
        return f"Obj<{self.cls.__name__}#{self.oid} {self.attrs}>"


class Func:
    """A function interpreted from its AST."""
    def __init__(self, node, module_globals, closure, native=None, qualname=None, defcls=None,
                 filename=None):
        self.node = node              # ast.FunctionDef | ast.Lambda
        self.globals = module_globals  # dict (native module __dict__)
        self.closure = closure        # Frame | dict(name -> value) | None
        self.native = native
        self.qualname = qualname or getattr(node, "name", "<lambda>")
        self.defcls = defcls          # class for zero-arg super()
        self.filename = filename
        self.defaults = None          # evaluated defaults (list), kw_defaults (dict) for nested defs
        self.kw_defaults = None

    def __repr__(self):
        return f"Func<{self.qualname}>"


class Bound:
    def __init__(self, func, self_val):
        self.func = func
        self.self_val = self_val

    def __repr__(self):
        return f"Bound<{self.func!r} of {type(self.self_val).__name__}>"


class SRange:
    """range(start, stop, step) with possibly symbolic components (ints or SV ints)."""
    def __init__(self, start, stop, step):
        self.start, self.stop, self.step = start, stop, step

    def __repr__(self):
        return f"SRange({self.start},{self.stop},{self.step})"


class SSeq:
    """Immutable sequence of symbolic length: element i is getter(i) (i: python int or SV int)."""
    def __init__(self, length, getter, kind="tuple"):
        self.length = length
        self.getter = getter
        self.kind = kind

    def __repr__(self):
        return f"SSeq(len={self.length})"


class LibObj:
    """Instance of a modelled library class (datetime.date, slice ...)."""
    def __init__(self, kind, **fields):
        self.kind = kind
        self.fields = fields

    def __repr__(self):
        return f"LibObj<{self.kind} {self.fields}>"


class SStr:
    """Structural string: concatenation of parts.
    part := python str | ('int', SV|int, spec, width_lo, width_hi) | ('opaque', name, z3 String term)
    """
    def __init__(self, parts):
        out = []
        for p in parts:
            if isinstance(p, str):
                if p == "":
                    continue
                if out and isinstance(out[-1], str):
                    out[-1] = out[-1] + p
                    continue
            out.append(p)
        self.parts = tuple(out)

    def __repr__(self):
        return f"SStr{self.parts}"

    __hash__ = object.__hash__
