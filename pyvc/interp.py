"""Symbolic interpreter for the Python subset used by the functions under contract.

The interpreter executes the *AST of the real source* (located from the native function object, see
source.py).  Concrete values are native Python objects, symbolic scalars are SV(z3 term).  Branches on
symbolic conditions fork the exploration (decision-prefix replay, see ctx.py).
"""
from __future__ import annotations
import os
import ast, builtins, inspect, types, enum, operator, re, fractions
import z3
from .values import *
from . import source as S
from . import strings as STR

_MISSING = object()


class Frame:
    def __init__(self, func, parent=None, cls_cell=None):
        self.locals = {}
        self.func = func
        self.parent = parent        # enclosing Frame (closures / comprehensions)
        self.cls_cell = cls_cell
        self.yields = None


class _Return(Exception):
    def __init__(self, value):
        self.value = value


class _Break(Exception):
    pass


class _Continue(Exception):
    pass


BINOPS = {
    ast.Add: ("+", "__add__", "__radd__"), ast.Sub: ("-", "__sub__", "__rsub__"),
    ast.Mult: ("*", "__mul__", "__rmul__"), ast.Div: ("/", "__truediv__", "__rtruediv__"),
    ast.FloorDiv: ("//", "__floordiv__", "__rfloordiv__"), ast.Mod: ("%", "__mod__", "__rmod__"),
    ast.Pow: ("**", "__pow__", "__rpow__"), ast.LShift: ("<<", "__lshift__", "__rlshift__"),
    ast.RShift: (">>", "__rshift__", "__rrshift__"), ast.BitOr: ("|", "__or__", "__ror__"),
    ast.BitAnd: ("&", "__and__", "__rand__"), ast.BitXor: ("^", "__xor__", "__rxor__"),
    ast.MatMult: ("@", "__matmul__", "__rmatmul__"),
}
CMPOPS = {
    ast.Eq: ("==", "__eq__", "__eq__"), ast.NotEq: ("!=", "__ne__", "__ne__"),
    ast.Lt: ("<", "__lt__", "__gt__"), ast.LtE: ("<=", "__le__", "__ge__"),
    ast.Gt: (">", "__gt__", "__lt__"), ast.GtE: (">=", "__ge__", "__le__"),
}
PYOPS = {
    "+": operator.add, "-": operator.sub, "*": operator.mul, "/": operator.truediv,
    "//": operator.floordiv, "%": operator.mod, "**": operator.pow, "<<": operator.lshift,
    ">>": operator.rshift, "|": operator.or_, "&": operator.and_, "^": operator.xor, "@": operator.matmul,
    "==": operator.eq, "!=": operator.ne, "<": operator.lt, "<=": operator.le, ">": operator.gt,
    ">=": operator.ge,
}

_IMMUTABLE_NATIVE = (int, float, complex, str, bytes, bool, type(None), type(Ellipsis), enum.Enum,
                     re.Pattern, types.ModuleType, type, types.BuiltinFunctionType, types.FunctionType,
                     frozenset, range, slice, types.MethodType, property, classmethod, staticmethod,
                     types.MethodDescriptorType, types.WrapperDescriptorType, fractions.Fraction)


def is_num(v):
    return isinstance(v, (int, float, fractions.Fraction)) and not isinstance(v, bool) or isinstance(v, bool)


def nan_of(v):
    """NaN flag (z3 Bool) of a scalar, or None when it cannot be NaN."""
    if isinstance(v, SV):
        return v.nan
    if isinstance(v, float) and v != v:
        return z3.BoolVal(True)
    return None


def any_nan(*vs):
    flags = [f for f in (nan_of(v) for v in vs) if f is not None]
    if not flags:
        return None
    r = z3.simplify(z3.Or(*flags)) if len(flags) > 1 else flags[0]
    return None if z3.is_false(r) else r


def to_z3(v):
    """z3 term of a scalar value (the NaN flag, if any, is handled by the caller)."""
    if isinstance(v, SV):
        return v.t
    if isinstance(v, float) and v != v:
        return z3.RealVal(0)
    if isinstance(v, bool):
        return z3.BoolVal(v)
    if isinstance(v, enum.IntEnum):
        return z3.IntVal(int(v))
    if isinstance(v, int):
        return z3.IntVal(v)
    if isinstance(v, float):
        v = float(v)          # numpy.float64 -> python float (repr differs)
        if v != v or v in (float("inf"), float("-inf")):
            raise Unsupported("nan/inf literal in symbolic arithmetic")
        return z3.RealVal(repr(v)) if "e" not in repr(v) else z3.RealVal(str(fractions.Fraction(v)))
    if isinstance(v, fractions.Fraction):
        return z3.RealVal(str(v))
    if isinstance(v, str):
        return z3.StringVal(v)
    raise Unsupported(f"cannot convert {type(v).__name__} to a z3 term")


def num_pair(a, b):
    ta, tb = to_z3(a), to_z3(b)
    if z3.is_bool(ta):
        ta = z3.If(ta, z3.IntVal(1), z3.IntVal(0))
    if z3.is_bool(tb):
        tb = z3.If(tb, z3.IntVal(1), z3.IntVal(0))
    if z3.is_int(ta) and z3.is_real(tb):
        ta = z3.ToReal(ta)
    elif z3.is_real(ta) and z3.is_int(tb):
        tb = z3.ToReal(tb)
    return ta, tb


def py_floordiv(a, b):
    """Python floor division on z3 ints (b != 0 assumed by caller)."""
    if z3.is_int_value(b) and b.as_long() > 0:
        return a / b
    q = a / b      # z3 div: a = b*q + r, 0 <= r < |b|
    r = a % b
    return z3.If(b > 0, q, z3.If(r == 0, q, q - 1))


def py_mod(a, b):
    if z3.is_int_value(b) and b.as_long() > 0:
        return a % b
    r = a % b
    return z3.If(b > 0, r, z3.If(r == 0, r, r + b))


def mk_ite(c, a, b):
    """Value-level if-then-else for scalars / same-shape tuples."""
    if isinstance(c, bool):
        return a if c else b
    ct = c.t if isinstance(c, SV) else c
    if isinstance(a, tuple) and isinstance(b, tuple) and len(a) == len(b):
        return tuple(mk_ite(c, x, y) for x, y in zip(a, b))
    if a is b:
        return a
    if a is None or b is None:
        raise Unsupported("ite over None")
    ta, tb = num_pair(a, b) if not (isinstance(a, (str,)) or isinstance(b, (str,))) else (to_z3(a), to_z3(b))
    na, nb = nan_of(a), nan_of(b)
    nan = None
    if na is not None or nb is not None:
        nan = z3.simplify(z3.If(ct, na if na is not None else z3.BoolVal(False), nb if nb is not None else z3.BoolVal(False)))
    return SV(z3.If(ct, ta, tb), nan)


class Interp:
    def __init__(self, ctx, lib=None, summaries=None, opts=None):
        self.ctx = ctx
        self.lib = lib
        self.summaries = summaries or {}
        self.opts = opts or {}
        self.depth = 0
        self.lifted = {}
        self.module_shadows = {}
        self.call_hooks = []
        self.inline_log = set()
        self.live_gens = []
        self.class_attr_overrides = {}     # class -> {name: value}: class attributes assigned by analysed code / contracts

    # ------------------------------------------------------------------ helpers
    def fail(self, kind, msg, node=None):
        """An implicit exception (raised by CPython itself, not by a `raise` statement) on this path."""
        cls = self.IMPLICIT.get(kind)
        if cls is None:
            raise FailurePath(kind, msg, node)
        e = ExcVal(cls, (f"{msg} @ {self.loc(node)}",))
        e.implicit = True
        if os.environ.get("PYVC_DEBUG_FAIL"):        # development aid: where in the analysed program the implicit exception arises
            import traceback
            print("IMPLICIT", kind, msg, "call stack:", [getattr(f, "name", "?") for f in getattr(self, "stack", [])][-8:])
            traceback.print_stack(limit=14)
        raise PyRaise(e)

    def require(self, kind, cond, node=None):
        """`cond` must hold here, else CPython raises `kind`: the failing side is a raising path."""
        if isinstance(cond, SV):
            cond = cond.t
        if cond is True:
            return
        if cond is False:
            self.fail(kind, "always", node)
        if not self.ctx.branch(cond):
            self.fail(kind, "condition violated", node)

    def loc(self, node):
        if node is None:
            return "?"
        fn = getattr(self, "cur_file", "?")
        return f"{fn}:{getattr(node, 'lineno', '?')}"

    def raise_exc(self, cls, *args):
        raise PyRaise(ExcVal(cls, args))

    # ------------------------------------------------------------------ truthiness
    def truth(self, v, node=None):
        """Python truth value of v as python bool (forks on symbolic values)."""
        t = self.truth_sym(v, node)
        if isinstance(t, bool):
            return t
        return self.ctx.branch(t)

    def truth_sym(self, v, node=None):
        """Truth value as python bool or z3 Bool term (no forking)."""
        if isinstance(v, SV):
            if v.is_bool:
                c = z3.simplify(v.t)
                if z3.is_true(c):
                    return True
                if z3.is_false(c):
                    return False
                return c
            if v.is_int or v.is_real:
                return (v.t != 0) if v.nan is None else z3.Or(v.nan, v.t != 0)
            if v.is_str:
                return z3.Length(v.t) > 0
        if isinstance(v, Obj) and v.store is not None and not any(S.is_repo_function(self.lookup_class_attr(v.cls, d)) for d in ("__bool__", "__len__")):
            return len(v.store) > 0
        if isinstance(v, Obj):
            for dunder in ("__bool__", "__len__"):
                m = self.lookup_class_attr(v.cls, dunder)
                if m is not _MISSING and m is not None:
                    r = self.call(self.bind_class_attr(v, v.cls, m, dunder), [], {}, node)
                    if dunder == "__len__":
                        return self.truth_sym(self.compare("!=", r, 0, node))
                    return self.truth_sym(r)
            return True
        if isinstance(v, NDArr):
            if all(isinstance(d, int) for d in v.shape):
                size = 1
                for d in v.shape:
                    size *= d
                if size == 1:
                    return self.truth_sym(v.get(*[z3.IntVal(0)] * v.ndim), node)
                if size == 0:
                    return False
            self.raise_exc(ValueError, "The truth value of an array with more than one element is ambiguous")
        if isinstance(v, SSeq):
            return self.truth_sym(self.compare("!=", v.length, 0, node))
        if isinstance(v, SRange):
            return self.truth_sym(self.compare("!=", self.lib.range_len(self, v), 0, node))
        if isinstance(v, SStr):
            return STR.nonempty(self, v)
        if isinstance(v, (Func, Bound, ExcVal, LibObj)):
            return True
        return bool(v)

    def sym_bool(self, v):
        t = self.truth_sym(v)
        return z3.BoolVal(t) if isinstance(t, bool) else t

    # ------------------------------------------------------------------ attribute protocol
    def lookup_class_attr(self, cls, name):
        for k in cls.__mro__:
            ov = self.class_attr_overrides.get(k)
            if ov is not None and name in ov:
                return ov[name]
            d = k.__dict__
            if name in d:
                return d[name]
        return _MISSING

    def bind_class_attr(self, inst, cls, raw, name):
        """Apply the descriptor protocol for attribute `raw` found on class `cls` for instance `inst`."""
        if isinstance(raw, property):
            return self.call(raw.fget, [inst], {}, None)
        if isinstance(raw, classmethod):
            return Bound(raw.__func__, cls)
        if isinstance(raw, staticmethod):
            return raw.__func__
        if isinstance(raw, (types.FunctionType, Func)):
            return Bound(raw, inst)
        if isinstance(raw, (types.MethodDescriptorType, types.WrapperDescriptorType, types.BuiltinFunctionType)):
            return Bound(raw, inst)
        if isinstance(raw, types.MemberDescriptorType):
            return _MISSING
        return raw

    def getattr(self, obj, name, node=None, default=_MISSING):
        if isinstance(obj, Obj):
            raw = self.lookup_class_attr(obj.cls, name)
            if isinstance(raw, property):
                return self.call(raw.fget, [obj], {}, node)
            if name in obj.attrs:
                return obj.attrs[name]
            if name == "__class__":
                return obj.cls
            if name == "__dict__":
                return obj.attrs
            if raw is not _MISSING:
                r = self.bind_class_attr(obj, obj.cls, raw, name)
                if r is not _MISSING:
                    return self.lift(r)
            ga = self.lookup_class_attr(obj.cls, "__getattr__")
            if ga is not _MISSING:
                return self.call(Bound(ga, obj), [name], {}, node)
            if default is not _MISSING:
                return default
            self.fail("AttributeError", f"{obj.cls.__name__}.{name}", node)
        if isinstance(obj, type) and not isinstance(obj, enum.EnumMeta) and not S.is_repo_file(
                getattr(inspect.getmodule(obj), "__file__", "") or ""):
            try:
                return getattr(obj, name)
            except AttributeError:
                if default is not _MISSING:
                    return default
                self.fail("AttributeError", f"type {obj.__name__}.{name}", node)
        if isinstance(obj, type) and not isinstance(obj, enum.EnumMeta):
            raw = self.lookup_class_attr(obj, name)
            if raw is _MISSING:
                if hasattr(obj, name):      # metaclass attributes (__name__, __mro__ ...)
                    return getattr(obj, name)
                if default is not _MISSING:
                    return default
                self.fail("AttributeError", f"type {obj.__name__}.{name}", node)
            if isinstance(raw, classmethod):
                return Bound(raw.__func__, obj)
            if isinstance(raw, staticmethod):
                return raw.__func__
            return self.lift(raw)
        if isinstance(obj, tuple) and hasattr(type(obj), "_fields") and S.is_repo_file(
                getattr(inspect.getmodule(type(obj)), "__file__", "") or ""):
            raw = self.lookup_class_attr(type(obj), name)
            if isinstance(raw, types.FunctionType):
                return Bound(raw, obj)
            if isinstance(raw, property):
                return self.call(raw.fget, [obj], {}, node)
            if raw is not _MISSING:
                return getattr(obj, name)
        if isinstance(obj, bool) and name in ("all", "any", "item", "tolist"):
            r = self.lib.getattr(self, obj, name, node)
            if r is not _MISSING:
                return r
        if isinstance(obj, (SV, SStr, SSeq, SRange, LibObj, ExcVal, NDArr)) or (
                isinstance(obj, (tuple, list, dict, set)) and True):
            r = self.lib.getattr(self, obj, name, node)
            if r is _MISSING:
                if default is not _MISSING:
                    return default
                self.fail("AttributeError", f"{type(obj).__name__}.{name}", node)
            return r
        if isinstance(obj, Func):
            if name in ("__name__",):
                return obj.qualname.split(".")[-1]
            return getattr(obj.native, name) if obj.native is not None else self.fail("AttributeError", name, node)
        if isinstance(obj, Bound):
            raise Unsupported(f"attribute {name} of bound method")
        # native object
        r = self.lib.getattr(self, obj, name, node)
        if r is not _MISSING:
            return r
        try:
            raw = inspect.getattr_static(obj, name)
        except AttributeError:
            if default is not _MISSING:
                return default
            self.fail("AttributeError", f"{type(obj).__name__}.{name}", node)
        if S.is_repo_file(getattr(inspect.getmodule(type(obj)), "__file__", "") or "") and not isinstance(obj, (enum.Enum, type, types.ModuleType)):
            return self.getattr(self.lift_instance(obj), name, node, default)
        try:
            val = getattr(obj, name)
        except AttributeError:
            if default is not _MISSING:
                return default
            self.fail("AttributeError", f"{type(obj).__name__}.{name}", node)
        if isinstance(val, types.MethodType) and S.is_repo_function(val.__func__):
            return Bound(val.__func__, val.__self__)
        if isinstance(obj, types.ModuleType) and type(val) in (list, dict, set) and S.is_repo_file(getattr(obj, "__file__", "") or ""):
            return self.module_state(val)
        return self.lift(val)

    def lift(self, v):
        """Bring a native value into the interpreter's value model."""
        if isinstance(v, (SV, Obj, Func, Bound, SStr, SSeq, SRange, LibObj, ExcVal, NDArr)):
            return v
        if isinstance(v, _IMMUTABLE_NATIVE):
            return v
        if type(v).__module__ == "numpy" and type(v).__name__ != "ndarray" and hasattr(v, "item") and getattr(v, "shape", None) == ():
            return v.item()         # numpy scalar (int64, float64, bool_): its Python value
        if type(v).__module__ == "numpy" and type(v).__name__ == "ndarray":
            return self.lib.numpy.coerce(self, v)
        if isinstance(v, tuple):
            return tuple(self.lift(x) for x in v) if any(not isinstance(x, _IMMUTABLE_NATIVE) for x in v) else v
        if isinstance(v, (list, dict, set)):
            return v    # module-level tables: read-only use is checked at mutation sites
        mod = inspect.getmodule(type(v))
        if mod is not None and S.is_repo_file(getattr(mod, "__file__", "") or ""):
            return self.lift_instance(v)
        return v

    def default_value(self, v, native):
        """A default argument is evaluated ONCE, when the function is defined: a mutable default (list/dict/set) of a
        repository function is state that survives between calls.  Like module-level containers it is analysed on a
        per-path structural copy (writes are seen by later calls on the same path and never reach the real function)."""
        if native is not None and type(v) in (list, dict, set):
            return self.module_state(v)
        return self.lift(v)

    def module_state(self, container):
        """Module-level list/dict/set of the repository: every analysed path works on its OWN structural copy, taken at
        first use (state written by the analysed code is seen by later calls on the same path - histories - and never
        leaks into the imported module, another path or another contract)."""
        key = id(container)
        hit = self.module_shadows.get(key)
        if hit is None:
            def cp(x):
                if type(x) is list:
                    return [cp(e) for e in x]
                if type(x) is dict:
                    return {k: cp(e) for k, e in x.items()}
                if type(x) is set:
                    return set(x)
                return x
            hit = (container, cp(container))
            self.module_shadows[key] = hit
        return hit[1]

    def lift_instance(self, native):
        key = id(native)
        if key in self.lifted:
            return self.lifted[key]
        attrs = {}
        if hasattr(native, "__dict__"):
            for k, val in vars(native).items():
                attrs[k] = val
        for k in type(native).__mro__:
            for s in getattr(k, "__slots__", ()) if isinstance(getattr(k, "__slots__", ()), (tuple, list)) else ():
                if hasattr(native, s):
                    attrs[s] = getattr(native, s)
        o = Obj(type(native), attrs, label=f"native:{type(native).__name__}")
        if o.store is not None:
            for k, val in dict.items(native):
                o.store[k] = self.lift(val)
        self.lifted[key] = o
        for k in list(attrs):
            o.attrs[k] = self.lift(attrs[k])
        return o

    def setattr(self, obj, name, value, node=None):
        if isinstance(obj, Obj):
            raw = self.lookup_class_attr(obj.cls, name)
            if isinstance(raw, property):
                if raw.fset is None:
                    self.fail("AttributeError", f"can't set {name}", node)
                self.call(raw.fset, [obj, value], {}, node)
                return
            slots = self.all_slots(obj.cls)
            if slots is not None and name not in slots:
                self.fail("AttributeError", f"{obj.cls.__name__} has no slot {name}", node)
            obj.attrs[name] = value
            return
        if isinstance(obj, Func):
            return      # function attributes (documark) are irrelevant
        if isinstance(obj, type):
            self.class_attr_overrides.setdefault(obj, {})[name] = value    # never touches the native class
            return
        if isinstance(obj, NDArr) and name == "dtype":
            # reinterpreting the buffer: only the identity case (float64 <-> c_double ...) is modelled
            if self.lib.numpy.kind_of_dtype(value) == obj.kind and obj.kind == "float":
                return
            raise Unsupported("assignment to ndarray.dtype that reinterprets the buffer")
        mod = inspect.getmodule(type(obj))
        if mod is not None and S.is_repo_file(getattr(mod, "__file__", "") or ""):
            return self.setattr(self.lift_instance(obj), name, value, node)
        raise Unsupported(f"setattr on {type(obj).__name__}")

    def all_slots(self, cls):
        slots = set()
        for k in cls.__mro__:
            if k is object:
                continue
            if "__slots__" not in k.__dict__:
                return None
            s = k.__dict__["__slots__"]
            slots.update((s,) if isinstance(s, str) else s)
        return slots

    # ------------------------------------------------------------------ operators
    def binop(self, op, a, b, node=None):
        if isinstance(op, tuple):
            sym, dunder, rdunder = op
        else:
            sym, dunder, rdunder = next((v for v in list(BINOPS.values()) + list(CMPOPS.values()) if v[0] == op))
        if isinstance(a, NDArr) or isinstance(b, NDArr):
            if isinstance(a, Obj) or isinstance(b, Obj):
                if isinstance(a, Obj):
                    return self.obj_binop(sym, dunder, rdunder, a, b, node)
                raise Unsupported("ndarray (op) object")
            if sym == "@":
                return self.lib.numpy.matmul(self, a, b, node)
            return self.lib.numpy.binop(self, sym, a, b, node)
        # object dispatch
        if isinstance(a, Obj) or isinstance(b, Obj):
            return self.obj_binop(sym, dunder, rdunder, a, b, node)
        if self.is_native_repo_instance(a) or self.is_native_repo_instance(b):
            a = self.lift_instance(a) if self.is_native_repo_instance(a) else a
            b = self.lift_instance(b) if self.is_native_repo_instance(b) else b
            return self.obj_binop(sym, dunder, rdunder, a, b, node)
        if isinstance(a, (SStr,)) or isinstance(b, (SStr,)) or (
                isinstance(a, SV) and a.is_str) or (isinstance(b, SV) and b.is_str):
            return STR.binop(self, sym, a, b, node)
        if isinstance(a, SV) or isinstance(b, SV):
            if isinstance(a, LibObj) or isinstance(b, LibObj) or a is None or b is None:
                if sym not in ("==", "!="):
                    self.fail("TypeError", f"unsupported operand type(s) for {sym}: {self.tname(a)} and {self.tname(b)}", node)
            if isinstance(a, (tuple, list, str)) or isinstance(b, (tuple, list, str)):
                if sym == "*" and isinstance(a, (tuple, list)):
                    raise Unsupported("sequence repetition by symbolic count")
                if sym == "%" and isinstance(a, str):
                    raise Unsupported("printf formatting with symbolic args")
                self.fail("TypeError", f"{sym} between {type(a).__name__} and symbolic scalar", node)
            return self.sv_binop(sym, a, b, node)
        r = self.lib.binop(self, sym, a, b, node)
        if r is not _MISSING:
            return r
        if isinstance(a, (SSeq, SRange, LibObj)) or isinstance(b, (SSeq, SRange, LibObj)):
            raise Unsupported(f"binop {sym} on {type(a).__name__},{type(b).__name__}")
        if isinstance(a, (tuple, list)) and isinstance(b, (tuple, list)) and sym == "+":
            if type(a) is not type(b):
                self.fail("TypeError", "concatenate list and tuple", node)
            return a + b
        try:
            if sym == "/" and isinstance(a, int) and isinstance(b, int) and not isinstance(a, bool) and b != 0 \
                    and self.opts.get("exact_int_division", True):
                q = fractions.Fraction(a, b)      # floats are reals: keep 1/365 exact
                return int(q) if q.denominator == 1 else q
            return PYOPS[sym](a, b)
        except ZeroDivisionError:
            self.fail("ZeroDivisionError", "concrete", node)
        except TypeError as e:
            self.fail("TypeError", str(e), node)

    def is_native_repo_instance(self, v):
        if isinstance(v, (SV, Obj, Func, Bound, SStr, SSeq, SRange, LibObj, ExcVal, NDArr)) or isinstance(v, _IMMUTABLE_NATIVE):
            return False
        if isinstance(v, (tuple, list, dict, set)):
            return False
        mod = inspect.getmodule(type(v))
        return mod is not None and S.is_repo_file(getattr(mod, "__file__", "") or "")

    def obj_binop(self, sym, dunder, rdunder, a, b, node):
        NI = NotImplemented
        if self.is_native_repo_instance(a):
            a = self.lift_instance(a)          # native (concrete) repository object (op) interpreter object
        if self.is_native_repo_instance(b):
            b = self.lift_instance(b)
        if isinstance(a, Obj):
            m = self.lookup_class_attr(a.cls, dunder)
            if m is not _MISSING and m is not None and not isinstance(m, types.WrapperDescriptorType):
                r = self.call(self.bind_class_attr(a, a.cls, m, dunder), [b], {}, node)
                if r is not NI:
                    return r
        if isinstance(b, Obj) and rdunder:
            m = self.lookup_class_attr(b.cls, rdunder)
            if m is not _MISSING and m is not None and not isinstance(m, types.WrapperDescriptorType):
                r = self.call(self.bind_class_attr(b, b.cls, m, rdunder), [a], {}, node)
                if r is not NI:
                    return r
        if sym == "==":
            return a is b
        if sym == "!=":
            return a is not b
        if os.environ.get("PYVC_DEBUG_FAIL"):
            print("obj_binop operands:", repr(a)[:300], "|", repr(b)[:300])
        self.fail("TypeError", f"unsupported operand {sym} for {self.tname(a)} and {self.tname(b)}", node)

    def tname(self, v):
        return v.cls.__name__ if isinstance(v, Obj) else type(v).__name__

    def sv_binop(self, sym, a, b, node):
        if a is None or b is None:
            if sym == "==":
                return False
            if sym == "!=":
                return True
            self.fail("TypeError", f"{sym} with None", node)
        ta, tb = num_pair(a, b)
        if z3.is_string(ta) or z3.is_string(tb):
            return STR.binop(self, sym, a, b, node)
        nan = any_nan(a, b)
        if sym == "+":
            return SV(ta + tb, nan)
        if sym == "-":
            return SV(ta - tb, nan)
        if sym == "*":
            return SV(ta * tb, nan)
        if sym == "/":
            if z3.is_int(ta):
                ta, tb = z3.ToReal(ta), z3.ToReal(tb)
            if self.opts.get("check_div_zero", False):
                self.require("ZeroDivisionError", tb != 0, node)
            else:
                self.ctx.note_assumption("x/0 on floats is not an exception (numpy semantics); value unspecified")
            return SV(ta / tb, nan)
        if nan is not None and sym in ("==", "!=", "<", "<=", ">", ">="):
            c = PYOPS[sym](ta, tb)
            # IEEE: every comparison with NaN is False except !=
            return SV(z3.simplify(z3.Or(nan, c) if sym == "!=" else z3.And(z3.Not(nan), c)))
        if nan is not None:
            raise Unsupported(f"operator {sym} on a possibly-NaN value")
        if sym in ("//", "%"):
            if z3.is_real(ta):
                raise Unsupported("floor division / modulo on reals")
            self.require("ZeroDivisionError", tb != 0, node)
            return SV(py_floordiv(ta, tb) if sym == "//" else py_mod(ta, tb))
        if sym == "**":
            return self.lib.power(self, a, b, node)
        if sym in ("==", "!=", "<", "<=", ">", ">="):
            return SV(z3.simplify(PYOPS[sym](ta, tb)))
        raise Unsupported(f"symbolic operator {sym}")

    def compare(self, sym, a, b, node=None):
        if sym in ("==", "!="):
            r = self.eq(a, b, node)
            if sym == "==":
                return r
            return (not r) if isinstance(r, bool) else SV(z3.Not(r.t))
        op = next(v for v in CMPOPS.values() if v[0] == sym)
        return self.binop(op, a, b, node)

    def eq(self, a, b, node=None):
        if (isinstance(a, NDArr) or isinstance(b, NDArr)) and not (isinstance(a, Obj) or isinstance(b, Obj)):
            if a is None or b is None:
                return False
            return self.lib.numpy.binop(self, "==", a, b, node)
        if isinstance(a, Obj) or isinstance(b, Obj) or self.is_native_repo_instance(a) or self.is_native_repo_instance(b):
            a = self.lift_instance(a) if self.is_native_repo_instance(a) else a
            b = self.lift_instance(b) if self.is_native_repo_instance(b) else b
            r = self.obj_binop("==", "__eq__", "__eq__", a, b, node)
            return r
        if a is None or b is None:
            return a is b
        if isinstance(a, (tuple, list)) and isinstance(b, (tuple, list)):
            if type(a) is not type(b) and not (isinstance(a, (tuple,)) and isinstance(b, (tuple,))):
                return False
            if len(a) != len(b):
                return False
            acc = []
            for x, y in zip(a, b):
                r = self.eq(x, y, node)
                if r is False:
                    return False
                if r is not True:
                    acc.append(self.sym_bool(r))
            return True if not acc else SV(z3.And(*acc))
        if isinstance(a, (SStr,)) or isinstance(b, (SStr,)):
            return STR.eq(self, a, b, node)
        if isinstance(a, SV) or isinstance(b, SV):
            if isinstance(a, (tuple, list, dict, set, Func, Bound, type)) or isinstance(b, (tuple, list, dict, set, Func, Bound, type)):
                return False
            if isinstance(a, str) != isinstance(b, str) and not (
                    (isinstance(a, SV) and a.is_str) or (isinstance(b, SV) and b.is_str)):
                return False
            if (isinstance(a, str) and not b.is_str) or (isinstance(b, str) and not a.is_str):
                return False
            return self.sv_binop("==", a, b, node)
        r = self.lib.eq(self, a, b, node)
        if r is not _MISSING:
            return r
        return a == b

    def unary(self, op, v, node=None):
        if isinstance(op, ast.Not):
            t = self.truth_sym(v, node)
            return (not t) if isinstance(t, bool) else SV(z3.Not(t))
        if isinstance(v, NDArr):
            return self.lib.numpy.unary(self, op, v, node)
        if isinstance(v, Obj):
            dunder = {ast.USub: "__neg__", ast.UAdd: "__pos__", ast.Invert: "__invert__"}[type(op)]
            m = self.lookup_class_attr(v.cls, dunder)
            if m is _MISSING:
                self.fail("TypeError", f"bad operand for unary {dunder}", node)
            return self.call(self.bind_class_attr(v, v.cls, m, dunder), [], {}, node)
        if isinstance(v, SV):
            if isinstance(op, ast.USub):
                return SV(-v.t, v.nan)
            if isinstance(op, ast.UAdd):
                return v
            raise Unsupported("unary ~ on symbolic")
        r = self.lib.unary(self, op, v, node)
        if r is not _MISSING:
            return r
        if isinstance(op, ast.USub):
            return -v
        if isinstance(op, ast.UAdd):
            return +v
        return ~v

    # ------------------------------------------------------------------ calls
    def make_func(self, native):
        """Interpreted view of a native repository function."""
        if native.__code__.co_filename == "<string>" and native in S.REGISTERED_SOURCES:
            fi, node = S.REGISTERED_SOURCES[native]
        elif native.__code__.co_filename == "<string>":
            fi, node = S.find_generated(native)      # exec()-generated: matched by bytecode with the running function
        else:
            fi, node = S.find_node_for_code(native.__code__)
        closure = None
        if native.__closure__:
            closure = {name: cell for name, cell in zip(native.__code__.co_freevars, native.__closure__)}
        f = Func(node, native.__globals__, closure, native=native, qualname=native.__qualname__,
                 filename=fi.filename)
        S.record_use(fi, node, f"{native.__module__}:{native.__qualname__}")
        return f

    def call(self, fn, args, kwargs, node=None):
        args = list(args)
        kwargs = dict(kwargs)
        if isinstance(fn, Bound):
            return self.call(fn.func, [fn.self_val] + args, kwargs, node)
        if isinstance(fn, types.MethodType):
            return self.call(fn.__func__, [fn.__self__] + args, kwargs, node)
        if isinstance(fn, Func):
            return self.call_func(fn, args, kwargs, node)
        if S.is_repo_function(fn):
            for hook in self.call_hooks:
                r = hook(self, fn, args, kwargs, node)
                if r is not _MISSING:
                    return r
            sm = self.summaries.get(fn) if self.depth >= 1 else None
            if sm is not None:
                # modular step: the callee is represented by its (separately proved) contract
                getattr(self, "summaries_used", set()).add(sm.target)
                fi, fnode = S.find_node_for_code(fn.__code__) if fn.__code__.co_filename != "<string>" else S.find_generated(fn)
                S.record_use(fi, fnode, f"{fn.__module__}:{fn.__qualname__} (via contract)")
                return sm.handler(self, args, kwargs, node)
            return self.call_func(self.make_func(fn), args, kwargs, node)
        if self.call_hooks and callable(fn) and not isinstance(fn, Obj):
            # a stub declared by a contract on something outside the repository (builtins.open, a library kernel)
            for hook in self.call_hooks:
                r = hook(self, fn, args, kwargs, node)
                if r is not _MISSING:
                    return r
        if isinstance(fn, type):
            return self.instantiate(fn, args, kwargs, node)
        if isinstance(fn, Obj):
            m = self.lookup_class_attr(fn.cls, "__call__")
            if m is _MISSING:
                self.fail("TypeError", "object not callable", node)
            return self.call(Bound(m, fn), args, kwargs, node)
        if isinstance(fn, (types.MethodDescriptorType, types.WrapperDescriptorType, types.BuiltinFunctionType)) and args \
                and isinstance(args[0], Obj) and args[0].store is not None and getattr(fn, "__objclass__", None) is dict:
            return self.dict_method(args[0], fn.__name__, args[1:], kwargs, node)
        if isinstance(fn, types.BuiltinMethodType) and isinstance(getattr(fn, "__self__", None), dict) and fn.__name__ == "update" \
                and args and isinstance(args[0], Obj) and args[0].store is not None:
            # plain_dict.update(<instance of a dict subclass of the repository>): the mapping protocol of the instance
            fn.__self__.update(args[0].store)
            fn.__self__.update(kwargs)
            return None
        if isinstance(fn, operator.itemgetter):
            keys = fn.__reduce__()[1]
            if len(keys) == 1:
                return self.getitem(args[0], keys[0], node)
            return tuple(self.getitem(args[0], k, node) for k in keys)
        if isinstance(fn, operator.attrgetter):
            names = fn.__reduce__()[1]

            def get1(o, dotted):
                for part in dotted.split("."):
                    o = self.getattr(o, part, node)
                return o
            if len(names) == 1:
                return get1(args[0], names[0])
            return tuple(get1(args[0], nm) for nm in names)
        if isinstance(fn, property):
            raise Unsupported("calling a property object")
        if fn is None:
            self.fail("TypeError", "'NoneType' object is not callable", node)
        r = self.lib.call(self, fn, args, kwargs, node)
        if r is _MISSING:
            raise Unsupported(f"call of unmodelled callable {getattr(fn, '__qualname__', fn)!r} "
                              f"({getattr(fn, '__module__', '?')}) with symbolic arguments at {self.loc(node)}")
        return r

    def dict_method(self, obj, name, args, kwargs, node):
        """A method inherited from dict applied to the mapping of a dict-subclass instance."""
        st = obj.store
        if name == "__init__":
            st.clear()
            if args:
                src = args[0]
                if isinstance(src, Obj) and src.store is not None:
                    st.update(src.store)
                elif isinstance(src, dict):
                    st.update(src)
                else:
                    for kv in self.iterate(src, node):
                        k, v = self.iterate(kv, node)
                        st[k] = v
            st.update(kwargs)
            return None
        if name == "update":
            for src in args:
                if isinstance(src, Obj) and src.store is not None:
                    st.update(src.store)
                elif isinstance(src, dict):
                    st.update(src)
                else:
                    for kv in self.iterate(src, node):
                        k, v = self.iterate(kv, node)
                        st[k] = v
            st.update(kwargs)
            return None
        if name in ("keys", "values", "items"):
            return list(getattr(st, name)())
        if name == "copy":
            return dict(st)
        if any(isinstance(a, (SV, SStr)) for a in args[:1]):
            raise Unsupported(f"dict.{name} with a symbolic key")
        try:
            return getattr(st, name)(*args, **kwargs)
        except KeyError as ex:
            self.raise_exc(KeyError, str(ex))
        except TypeError as ex:
            self.fail("TypeError", str(ex), node)

    def instantiate(self, cls, args, kwargs, node):
        if issubclass(cls, BaseException):
            return ExcVal(cls, args)
        r = self.lib.construct(self, cls, args, kwargs, node)
        if r is not _MISSING:
            return r
        if issubclass(cls, tuple) and hasattr(cls, "_fields"):
            try:
                return cls(*args, **kwargs)       # NamedTuple: generated, pure constructor
            except TypeError as ex:
                self.fail("TypeError", str(ex), node)
        if isinstance(cls, type) and issubclass(cls, enum.Enum) and len(args) == 1 and not kwargs and not isinstance(args[0], (SV, Obj, SStr, NDArr)):
            # EnumClass(value): member lookup (evaluated by CPython on a concrete value)
            try:
                return cls(args[0])
            except ValueError as ex:
                self.raise_exc(ValueError, str(ex))
        mod = inspect.getmodule(cls)
        if mod is None or not S.is_repo_file(getattr(mod, "__file__", "") or ""):
            raise Unsupported(f"instantiation of unmodelled class {cls.__module__}.{cls.__name__}")
        new = self.lookup_class_attr(cls, "__new__")
        if new is not _MISSING and not isinstance(new, (types.BuiltinFunctionType, types.BuiltinMethodType)) \
                and new is not object.__new__:
            raw = new.__func__ if isinstance(new, staticmethod) else new
            if S.is_repo_function(raw):
                obj = self.call(raw, [cls] + args, kwargs, node)
            else:
                raise Unsupported(f"custom __new__ of {cls.__name__}")
        else:
            obj = Obj(cls)
        if isinstance(obj, Obj) and issubclass(obj.cls, cls):
            init = self.lookup_class_attr(cls, "__init__")
            if init is not _MISSING and init is not object.__init__:
                use_source = S.is_repo_function(init)
                if use_source and init.__code__.co_filename == "<string>" and init not in S.REGISTERED_SOURCES:
                    try:
                        S.find_generated(init)
                    except LookupError:
                        use_source = False      # e.g. the __init__ that @dataclass generates: modelled from the field list
                if use_source:
                    self.call(init, [obj] + args, kwargs, node)
                else:
                    r = self.lib.generated_init(self, cls, obj, args, kwargs, node)
                    if r is _MISSING:
                        raise Unsupported(f"__init__ of {cls.__name__} has no repository source")
            elif args or kwargs:
                self.fail("TypeError", f"{cls.__name__}() takes no arguments", node)
        return obj

    def bind_args(self, f, args, kwargs, node):
        a = f.node.args
        native = f.native
        loc = {}
        posonly = [x.arg for x in a.posonlyargs]
        pos = [x.arg for x in a.args]
        allpos = posonly + pos
        if f.defaults is not None:
            defaults = f.defaults
            kw_defaults = f.kw_defaults
        elif native is not None:
            defaults = list(native.__defaults__ or ())
            kw_defaults = dict(native.__kwdefaults__ or {})
        else:
            defaults, kw_defaults = [], {}
        n = len(allpos)
        if len(args) > n:
            if a.vararg is None:
                self.fail("TypeError", f"{f.qualname}() takes {n} positional arguments but {len(args)} were given", node)
            loc[a.vararg.arg] = tuple(args[n:])
            given = args[:n]
        else:
            if a.vararg is not None:
                loc[a.vararg.arg] = ()
            given = args
        for name, v in zip(allpos, given):
            loc[name] = v
        extra = {}
        kwonly = [x.arg for x in a.kwonlyargs]
        for k, v in kwargs.items():
            if k in pos or k in kwonly:
                if k in loc:
                    self.fail("TypeError", f"{f.qualname}() got multiple values for argument '{k}'", node)
                loc[k] = v
            elif a.kwarg is not None:
                extra[k] = v
            else:
                self.fail("TypeError", f"{f.qualname}() got an unexpected keyword argument '{k}'", node)
        if a.kwarg is not None:
            loc[a.kwarg.arg] = extra
        first_default = n - len(defaults)
        for i, name in enumerate(allpos):
            if name not in loc:
                if i >= first_default:
                    loc[name] = self.default_value(defaults[i - first_default], native)
                else:
                    self.fail("TypeError", f"{f.qualname}() missing required argument '{name}'", node)
        for name in kwonly:
            if name not in loc:
                if name in kw_defaults:
                    loc[name] = self.default_value(kw_defaults[name], native)
                else:
                    self.fail("TypeError", f"{f.qualname}() missing keyword-only argument '{name}'", node)
        return loc

    def call_func(self, f, args, kwargs, node):
        self.depth += 1
        if self.depth > 60:
            raise Unsupported("interpreter recursion depth exceeded")
        saved_file = getattr(self, "cur_file", None)
        try:
            frame = Frame(f, parent=f.closure if isinstance(f.closure, Frame) else None)
            frame.locals.update(self.bind_args(f, args, kwargs, node))
            if f.filename:
                self.cur_file = f.filename.rsplit("/src/", 1)[-1]
            if isinstance(f.node, ast.Lambda):
                return self.eval(f.node.body, frame)
            if self.is_generator(f.node):
                return self.make_lazy_gen(f, frame)
            try:
                self.exec_block(f.node.body, frame)
            except _Return as r:
                return r.value
            return None
        finally:
            self.depth -= 1
            self.cur_file = saved_file

    # ------------------------------------------------------------------ loop contracts (Hoare-style: init / step / exit)
    def top_level_loop(self, fnode, ordinal):
        loops = [st for st in fnode.body if isinstance(st, (ast.For, ast.While))]
        if ordinal >= len(loops):
            raise Unsupported(f"function has no top-level loop #{ordinal}")
        return loops[ordinal]

    def run_prefix(self, fn, args, kwargs, ordinal=0):
        """Execute the statements of `fn` that precede its top-level loop #ordinal; returns (frame, loop node)."""
        f = self.make_func(fn) if not isinstance(fn, Func) else fn
        loop = self.top_level_loop(f.node, ordinal)
        frame = Frame(f)
        frame.locals.update(self.bind_args(f, list(args), dict(kwargs), None))
        frame.yields = _YieldCollector()
        self.cur_file = (f.filename or "?").rsplit("/src/", 1)[-1]
        self.depth += 1
        try:
            for st in f.node.body:
                if st is loop:
                    break
                self.exec(st, frame)
        finally:
            self.depth -= 1
        return frame, loop

    def loop_frame(self, fn, ordinal, local_vars):
        """A frame of `fn` positioned at the head of loop #ordinal with the given local variables (havoc state)."""
        f = self.make_func(fn) if not isinstance(fn, Func) else fn
        loop = self.top_level_loop(f.node, ordinal)
        frame = Frame(f)
        frame.locals.update(local_vars)
        frame.yields = _YieldCollector()
        self.cur_file = (f.filename or "?").rsplit("/src/", 1)[-1]
        return frame, loop

    def loop_test(self, frame, loop):
        """Truth of the while condition in the frame's state (forks)."""
        return self.truth(self.eval(loop.test, frame), loop.test)

    def loop_body_once(self, frame, loop, element=_MISSING):
        """Execute the loop body once (for a `for` loop, `element` is bound to the target first).
        Returns 'normal' | 'break' | 'continue'."""
        self.depth += 1
        try:
            if isinstance(loop, ast.For):
                self.assign(loop.target, element, frame)
            try:
                self.exec_block(loop.body, frame)
            except _Break:
                return "break"
            except _Continue:
                return "continue"
            return "normal"
        finally:
            self.depth -= 1

    def run_suffix(self, frame, loop):
        """Execute the statements after the loop; returns the function's return value."""
        body = frame.func.node.body
        k = next(i for i, st in enumerate(body) if st is loop)
        self.depth += 1
        try:
            try:
                self.exec_block(list(loop.orelse) + body[k + 1:], frame)
            except _Return as r:
                return r.value
            return None
        finally:
            self.depth -= 1

    def make_lazy_gen(self, f, frame):
        interp = self
        fname = self.cur_file

        def run():
            interp.cur_file = fname
            try:
                interp.exec_block(f.node.body, frame)
            except _Return:
                pass
        g = LazyGen(self, run)
        frame.yields = g
        self.live_gens.append(g)
        return g

    def close_generators(self):
        for g in self.live_gens:
            g.close()
        self.live_gens = []

    _gen_cache = {}

    def is_generator(self, fnode):
        k = id(fnode)
        if k not in self._gen_cache:
            found = False
            stack = list(fnode.body)
            while stack:
                n = stack.pop()
                if isinstance(n, (ast.Yield, ast.YieldFrom)):
                    found = True
                    break
                if isinstance(n, (ast.FunctionDef, ast.Lambda, ast.ClassDef, ast.AsyncFunctionDef)):
                    continue
                stack.extend(ast.iter_child_nodes(n))
            self._gen_cache[k] = found
        return self._gen_cache[k]

    # ------------------------------------------------------------------ names
    def lookup(self, name, frame, node=None):
        fr = frame
        while fr is not None:
            if name in fr.locals:
                v = fr.locals[name]
                if v is _MISSING:
                    self.fail("UnboundLocalError", name, node)
                return v
            clo = fr.func.closure if fr.func is not None else None
            if isinstance(clo, dict) and name in clo:
                cell = clo[name]
                try:
                    return self.lift(cell.cell_contents) if isinstance(cell, types.CellType) else cell
                except ValueError:
                    self.fail("NameError", f"free variable {name} referenced before assignment", node)
            fr = fr.parent
        g = frame.func.globals if frame.func is not None else {}
        if name in g:
            v = g[name]
            if type(v) in (list, dict, set) and S.is_repo_file(g.get("__file__", "") or ""):
                return self.module_state(v)
            return self.lift(v)
        if hasattr(builtins, name):
            return getattr(builtins, name)
        if name == "__class__" and frame.func is not None and frame.func.defcls is not None:
            return frame.func.defcls
        self.fail("NameError", f"name '{name}' is not defined", node)

    # ------------------------------------------------------------------ statements
    def exec_block(self, stmts, frame):
        for s in stmts:
            self.exec(s, frame)

    def exec(self, s, frame):
        m = getattr(self, "exec_" + type(s).__name__, None)
        if m is None:
            raise Unsupported(f"statement {type(s).__name__} at {self.loc(s)}")
        return m(s, frame)

    def exec_Expr(self, s, frame):
        if isinstance(s.value, ast.Constant):
            return
        self.eval(s.value, frame)

    def exec_Pass(self, s, frame):
        pass

    def exec_Return(self, s, frame):
        raise _Return(self.eval(s.value, frame) if s.value is not None else None)

    def exec_Assign(self, s, frame):
        v = self.eval(s.value, frame)
        for t in s.targets:
            self.assign(t, v, frame)

    def exec_AnnAssign(self, s, frame):
        if s.value is not None:
            self.assign(s.target, self.eval(s.value, frame), frame)

    def exec_AugAssign(self, s, frame):
        t = s.target
        op = BINOPS[type(s.op)]
        if isinstance(t, ast.Name):
            cur = self.lookup(t.id, frame, t)
            self.assign(t, self.aug(op, cur, self.eval(s.value, frame), s), frame)
        elif isinstance(t, ast.Attribute):
            o = self.eval(t.value, frame)
            cur = self.getattr(o, t.attr, t)
            self.setattr(o, t.attr, self.aug(op, cur, self.eval(s.value, frame), s), t)
        elif isinstance(t, ast.Subscript):
            o = self.eval(t.value, frame)
            idx = self.eval_index(t.slice, frame)
            cur = self.getitem(o, idx, t)
            self.setitem(o, idx, self.aug(op, cur, self.eval(s.value, frame), s), t)
        else:
            raise Unsupported("augmented assignment target")

    def aug(self, op, cur, val, node):
        if isinstance(cur, list) and op[0] == "+":
            cur.extend(self.iterate(val, node))
            return cur
        if isinstance(cur, NDArr):
            # numpy's in-place operators write into the existing buffer (every alias sees the change)
            res = self.lib.numpy.matmul(self, cur, val, node) if op[0] == "@" else self.lib.numpy.binop(self, op[0], cur, val, node)
            if not isinstance(res, NDArr) or res.ndim != cur.ndim:
                raise Unsupported("in-place array operator changing the number of dimensions")
            if res.kind != cur.kind and not (cur.kind == "float" and res.kind in ("int", "bool")) and not (cur.kind == "int" and res.kind == "bool"):
                self.fail("TypeError", f"cannot cast the result of an in-place operator from {res.kind} to {cur.kind}", node)
            full = tuple(LibObj("slice", start=None, stop=None, step=None) for _ in range(cur.ndim))
            self.lib.numpy.setitem(self, cur, full if cur.ndim != 1 else full[0], res.frozen(), node)
            return cur
        if isinstance(cur, Obj):
            idunder = "__i" + op[1][2:]
            m = self.lookup_class_attr(cur.cls, idunder)
            if m is not _MISSING:
                return self.call(Bound(m, cur), [val], {}, node)
        return self.binop(op, cur, val, node)

    def assign(self, target, v, frame):
        if isinstance(target, ast.Name):
            fr = frame
            # comprehension frames write the loop var locally; nonlocal not supported
            fr.locals[target.id] = v
        elif isinstance(target, (ast.Tuple, ast.List)):
            items = self.iterate(v, target)
            star = [i for i, e in enumerate(target.elts) if isinstance(e, ast.Starred)]
            if star:
                k = star[0]
                after = len(target.elts) - k - 1
                if len(items) < len(target.elts) - 1:
                    self.fail("ValueError", "not enough values to unpack", target)
                for e, x in zip(target.elts[:k], items[:k]):
                    self.assign(e, x, frame)
                self.assign(target.elts[k].value, list(items[k:len(items) - after]), frame)
                for e, x in zip(target.elts[k + 1:], items[len(items) - after:]):
                    self.assign(e, x, frame)
            else:
                if len(items) != len(target.elts):
                    self.fail("ValueError", f"unpack: expected {len(target.elts)} values, got {len(items)}", target)
                for e, x in zip(target.elts, items):
                    self.assign(e, x, frame)
        elif isinstance(target, ast.Attribute):
            self.setattr(self.eval(target.value, frame), target.attr, v, target)
        elif isinstance(target, ast.Subscript):
            o = self.eval(target.value, frame)
            self.setitem(o, self.eval_index(target.slice, frame), v, target)
        else:
            raise Unsupported(f"assignment target {type(target).__name__}")

    def exec_If(self, s, frame):
        if self.truth(self.eval(s.test, frame), s.test):
            self.exec_block(s.body, frame)
        else:
            self.exec_block(s.orelse, frame)

    def exec_Raise(self, s, frame):
        if s.exc is None:
            cur = getattr(frame, "handling", None)
            fr = frame
            while cur is None and fr is not None:
                cur = getattr(fr, "handling", None)
                fr = fr.parent
            if cur is None:
                self.fail("RuntimeError", "no active exception to re-raise", s)
            raise cur
        v = self.eval(s.exc, frame)
        if isinstance(v, type) and issubclass(v, BaseException):
            v = ExcVal(v, ())
        if not isinstance(v, ExcVal):
            self.fail("TypeError", "exceptions must derive from BaseException", s)
        raise PyRaise(v)

    def exec_Assert(self, s, frame):
        if not self.truth(self.eval(s.test, frame), s.test):
            self.raise_exc(AssertionError)

    IMPLICIT = {"NameError": NameError, "UnboundLocalError": UnboundLocalError, "TypeError": TypeError,
                "AttributeError": AttributeError, "IndexError": IndexError, "KeyError": KeyError,
                "ZeroDivisionError": ZeroDivisionError, "ValueError": ValueError,
                "StopIteration": StopIteration, "RuntimeError": RuntimeError}

    def exec_Try(self, s, frame):
        try:
            self.exec_block(s.body, frame)
            self.exec_block(s.orelse, frame)
        except PyRaise as e:
            handled = False
            for h in s.handlers:
                if h.type is None:
                    match = True
                else:
                    t = self.eval(h.type, frame)
                    ts = t if isinstance(t, tuple) else (t,)
                    match = any(isinstance(k, type) and issubclass(e.exc.cls, k) for k in ts)
                if match:
                    handled = True
                    if h.name:
                        frame.locals[h.name] = e.exc
                    prev = getattr(frame, "handling", None)
                    frame.handling = e
                    try:
                        self.exec_block(h.body, frame)
                    finally:
                        frame.handling = prev
                    break
            if not handled:
                self.exec_block(s.finalbody, frame)
                raise
        self.exec_block(s.finalbody, frame)

    def exec_Match(self, s, frame):
        subj = self.eval(s.subject, frame)
        for case in s.cases:
            if self.match_pattern(case.pattern, subj, frame):
                if case.guard is not None and not self.truth(self.eval(case.guard, frame), case.guard):
                    continue
                self.exec_block(case.body, frame)
                return

    def match_pattern(self, p, subj, frame):
        if isinstance(p, ast.MatchValue):
            return self.truth(self.eq(subj, self.eval(p.value, frame), p), p)
        if isinstance(p, ast.MatchSingleton):
            return subj is p.value
        if isinstance(p, ast.MatchOr):
            return any(self.match_pattern(q, subj, frame) for q in p.patterns)
        if isinstance(p, ast.MatchAs):
            if p.pattern is not None and not self.match_pattern(p.pattern, subj, frame):
                return False
            if p.name:
                frame.locals[p.name] = subj
            return True
        raise Unsupported(f"match pattern {type(p).__name__}")

    def exec_For(self, s, frame):
        hook = self.opts.get("loop_hook")
        if hook is not None:
            r = hook(self, s, frame)
            if r is not _MISSING:
                return
        items = self.iterate(self.eval(s.iter, frame), s.iter)
        broke = False
        for x in items:
            self.assign(s.target, x, frame)
            try:
                self.exec_block(s.body, frame)
            except _Break:
                broke = True
                break
            except _Continue:
                continue
        if not broke:
            self.exec_block(s.orelse, frame)

    def exec_While(self, s, frame):
        hook = self.opts.get("loop_hook")
        if hook is not None:
            r = hook(self, s, frame)
            if r is not _MISSING:
                return
        n = 0
        limit = self.opts.get("while_unroll", 64)
        while self.truth(self.eval(s.test, frame), s.test):
            n += 1
            if n > limit:
                raise Unsupported(f"while loop at {self.loc(s)} needs an invariant (unrolled {limit} times)")
            try:
                self.exec_block(s.body, frame)
            except _Break:
                return
            except _Continue:
                continue
        self.exec_block(s.orelse, frame)

    def exec_Break(self, s, frame):
        raise _Break()

    def exec_Continue(self, s, frame):
        raise _Continue()

    def exec_FunctionDef(self, s, frame):
        f = Func(s, frame.func.globals if frame.func else {}, frame, qualname=s.name,
                 defcls=frame.func.defcls if frame.func else None,
                 filename=frame.func.filename if frame.func else None)
        f.defaults = [self.eval(d, frame) for d in s.args.defaults]
        f.kw_defaults = {a.arg: self.eval(d, frame) for a, d in zip(s.args.kwonlyargs, s.args.kw_defaults) if d is not None}
        val = f
        for d in reversed(s.decorator_list):
            dec = self.eval(d, frame)
            val = self.apply_decorator(dec, val, d)
        frame.locals[s.name] = val

    def apply_decorator(self, dec, val, node):
        r = self.lib.decorator(self, dec, val, node)
        if r is not _MISSING:
            return r
        return self.call(dec, [val], {}, node)

    def exec_Import(self, s, frame):
        import importlib
        for a in s.names:
            mod = importlib.import_module(a.name)
            frame.locals[a.asname or a.name.split(".")[0]] = mod if a.asname else importlib.import_module(a.name.split(".")[0])

    def exec_ImportFrom(self, s, frame):
        import importlib
        pkg = frame.func.globals.get("__package__") if frame.func else None
        mod = importlib.import_module("." * s.level + (s.module or ""), package=pkg)
        for a in s.names:
            try:
                frame.locals[a.asname or a.name] = getattr(mod, a.name)
            except AttributeError:
                frame.locals[a.asname or a.name] = importlib.import_module(mod.__name__ + "." + a.name)

    def exec_Delete(self, s, frame):
        for t in s.targets:
            if isinstance(t, ast.Name):
                frame.locals.pop(t.id, None)
            elif isinstance(t, ast.Subscript):
                o = self.eval(t.value, frame)
                self.delitem(o, self.eval_index(t.slice, frame), t)
            elif isinstance(t, ast.Attribute):
                o = self.eval(t.value, frame)
                if isinstance(o, Obj) and t.attr in o.attrs:
                    del o.attrs[t.attr]
                else:
                    raise Unsupported("del attribute")
            else:
                raise Unsupported("del target")

    def exec_With(self, s, frame):
        for item in s.items:
            cm = self.eval(item.context_expr, frame)
            enter = self.getattr(cm, "__enter__", s)
            v = self.call(enter, [], {}, s)
            if item.optional_vars is not None:
                self.assign(item.optional_vars, v, frame)
        self.exec_block(s.body, frame)
        for item in s.items:
            pass  # __exit__ of the (trivial) context managers in scope has no effect

    def exec_Global(self, s, frame):
        raise Unsupported("global statement")

    def exec_Nonlocal(self, s, frame):
        raise Unsupported("nonlocal statement")

    # ------------------------------------------------------------------ expressions
    def eval(self, e, frame):
        m = getattr(self, "eval_" + type(e).__name__, None)
        if m is None:
            raise Unsupported(f"expression {type(e).__name__} at {self.loc(e)}")
        return m(e, frame)

    def eval_Constant(self, e, frame):
        return e.value

    def eval_Name(self, e, frame):
        return self.lookup(e.id, frame, e)

    def eval_Attribute(self, e, frame):
        return self.getattr(self.eval(e.value, frame), e.attr, e)

    def eval_BinOp(self, e, frame):
        a = self.eval(e.left, frame)
        b = self.eval(e.right, frame)
        return self.binop(BINOPS[type(e.op)], a, b, e)

    def eval_UnaryOp(self, e, frame):
        return self.unary(e.op, self.eval(e.operand, frame), e)

    def eval_BoolOp(self, e, frame):
        is_and = isinstance(e.op, ast.And)
        v = None
        for i, sub in enumerate(e.values):
            v = self.eval(sub, frame)
            if i == len(e.values) - 1:
                return v
            # pure-boolean fast path: merge symbolic booleans when the remaining operands are side-effect free
            t = self.truth_sym(v, sub)
            if not isinstance(t, bool) and self.opts.get("merge_boolops", True) and \
                    all(self.is_pure_simple(x) for x in e.values[i + 1:]) and isinstance(v, SV) and v.is_bool:
                rest = []
                ok = True
                for x in e.values[i + 1:]:
                    # evaluate under the assumption that the prefix allows evaluation
                    try:
                        xv = self.eval(x, frame)
                    except (FailurePath, PyRaise):
                        ok = False
                        break
                    if not ((isinstance(xv, SV) and xv.is_bool) or isinstance(xv, bool)):
                        ok = False
                        break
                    rest.append(self.sym_bool(xv))
                if ok:
                    parts = [t] + rest
                    return SV(z3.And(*parts) if is_and else z3.Or(*parts))
            tv = t if isinstance(t, bool) else self.ctx.branch(t)
            if is_and and not tv:
                return v
            if not is_and and tv:
                return v
        return v

    def is_pure_simple(self, e):
        """Comparison/boolean expression over names, attributes of names, constants (no calls)."""
        for n in ast.walk(e):
            if isinstance(n, (ast.Call, ast.Subscript, ast.Await, ast.Yield, ast.NamedExpr, ast.BinOp)):
                return False
            if isinstance(n, ast.Attribute):
                return False
        return True

    def eval_Compare(self, e, frame):
        left = self.eval(e.left, frame)
        acc = []
        for op, right_e in zip(e.ops, e.comparators):
            right = self.eval(right_e, frame)
            r = self.compare_op(op, left, right, e)
            if len(e.ops) == 1:
                return r
            t = self.truth_sym(r, e)
            if t is False:
                return False
            if t is not True:
                acc.append(t)
            left = right
        if not acc:
            return True
        return SV(z3.And(*acc))

    def compare_op(self, op, a, b, node):
        if isinstance(op, ast.Is):
            return self.is_(a, b)
        if isinstance(op, ast.IsNot):
            return not self.is_(a, b)
        if isinstance(op, ast.In):
            return self.contains(b, a, node)
        if isinstance(op, ast.NotIn):
            r = self.contains(b, a, node)
            return (not r) if isinstance(r, bool) else SV(z3.Not(r.t))
        sym = CMPOPS[type(op)][0]
        return self.compare(sym, a, b, node)

    def is_(self, a, b):
        if isinstance(a, SV) or isinstance(b, SV):
            if a is None or b is None:
                return False
            if isinstance(a, bool) or isinstance(b, bool):
                # `x is True` on a symbolic bool: identity == equality for bools
                o = a if isinstance(a, SV) else b
                c = a if isinstance(a, bool) else b
                if o.is_bool:
                    return SV(o.t if c else z3.Not(o.t))
                return False
            return a is b
        return a is b

    def contains(self, container, item, node):
        if isinstance(container, (tuple, list, set, frozenset)) or isinstance(container, dict) or isinstance(container, range):
            if isinstance(container, dict):
                keys = list(container.keys())
            else:
                keys = list(container)
            if not any(isinstance(k, (SV, Obj, SStr)) for k in keys) and not isinstance(item, (SV, Obj, SStr)) \
                    and not self.is_native_repo_instance(item):
                try:
                    return item in container
                except TypeError as ex:
                    self.fail("TypeError", str(ex), node)
            acc = []
            for k in keys:
                r = self.eq(item, k, node) if not (isinstance(k, str) != isinstance(item, str) and not isinstance(item, (SV, SStr)) and not isinstance(k, (SV, SStr))) else False
                if r is True:
                    return True
                if r is not False:
                    acc.append(self.sym_bool(r))
            return SV(z3.Or(*acc)) if acc else False
        if isinstance(container, Obj) and container.store is not None and not S.is_repo_function(self.lookup_class_attr(container.cls, "__contains__")):
            return self.contains(container.store, item, node)
        if isinstance(container, Obj):
            m = self.lookup_class_attr(container.cls, "__contains__")
            if m is not _MISSING:
                return self.call(Bound(m, container), [item], {}, node)
            items = self.iterate(container, node)
            return self.contains(tuple(items), item, node)
        r = self.lib.contains(self, container, item, node)
        if r is _MISSING:
            if isinstance(container, enum.Flag) and isinstance(item, enum.Flag):
                return item in container           # concrete flag membership (evaluated by CPython)
            raise Unsupported(f"`in` on {type(container).__name__}")
        return r

    def eval_IfExp(self, e, frame):
        c = self.eval(e.test, frame)
        t = self.truth_sym(c, e.test)
        if isinstance(t, bool):
            return self.eval(e.body if t else e.orelse, frame)
        if self.opts.get("merge_ifexp", True) and self.is_pure_arith(e.body) and self.is_pure_arith(e.orelse):
            # evaluate both arms (side-effect free scalar expressions) and merge
            snap = len(self.ctx.obligs)
            try:
                a = self.eval(e.body, frame)
                b = self.eval(e.orelse, frame)
                if len(self.ctx.obligs) == snap and self.scalar_like(a) and self.scalar_like(b):
                    return mk_ite(SV(t), a, b)
            except (FailurePath, PyRaise, Unsupported):
                pass
            del self.ctx.obligs[snap:]
        if self.ctx.branch(t):
            return self.eval(e.body, frame)
        return self.eval(e.orelse, frame)

    def scalar_like(self, v):
        return isinstance(v, (SV, int, float)) and not (isinstance(v, SV) and v.is_str)

    def is_pure_arith(self, e):
        for n in ast.walk(e):
            if isinstance(n, (ast.Call, ast.Subscript, ast.Attribute, ast.Await, ast.Yield, ast.NamedExpr, ast.Lambda)):
                return False
            if isinstance(n, ast.BinOp) and isinstance(n.op, (ast.Div, ast.FloorDiv, ast.Mod, ast.Pow)):
                return False
        return True

    def eval_Tuple(self, e, frame):
        return tuple(self.eval_seq(e.elts, frame))

    def eval_List(self, e, frame):
        return list(self.eval_seq(e.elts, frame))

    def eval_Set(self, e, frame):
        items = self.eval_seq(e.elts, frame)
        if any(isinstance(x, (SV, Obj)) for x in items):
            raise Unsupported("set literal with symbolic members")
        return set(items)

    def eval_seq(self, elts, frame):
        out = []
        for x in elts:
            if isinstance(x, ast.Starred):
                out.extend(self.iterate(self.eval(x.value, frame), x))
            else:
                out.append(self.eval(x, frame))
        return out

    def eval_Dict(self, e, frame):
        d = {}
        for k, v in zip(e.keys, e.values):
            if k is None:
                other = self.eval(v, frame)
                if not isinstance(other, dict):
                    raise Unsupported("** of non-dict in dict literal")
                d.update(other)
            else:
                kv = self.eval(k, frame)
                if isinstance(kv, (SV, SStr)):
                    raise Unsupported("dict literal with symbolic key")
                d[self.hashable_key(kv)] = self.eval(v, frame)
        return d

    def hashable_key(self, k):
        return k

    def eval_Lambda(self, e, frame):
        f = Func(e, frame.func.globals if frame.func else {}, frame, qualname="<lambda>",
                 defcls=frame.func.defcls if frame.func else None,
                 filename=frame.func.filename if frame.func else None)
        f.defaults = [self.eval(d, frame) for d in e.args.defaults]
        f.kw_defaults = {a.arg: self.eval(d, frame) for a, d in zip(e.args.kwonlyargs, e.args.kw_defaults) if d is not None}
        return f

    def eval_Call(self, e, frame):
        # zero-argument super()
        if isinstance(e.func, ast.Name) and e.func.id == "super" and not e.args:
            return self.make_super(frame, e)
        fn = self.eval(e.func, frame)
        if fn is builtins.globals and not e.args:
            fr = frame
            while fr.func is None and fr.parent is not None:
                fr = fr.parent
            return fr.func.globals if fr.func is not None else {}
        if fn is builtins.locals and not e.args:
            return frame.locals
        args = []
        for a in e.args:
            if isinstance(a, ast.Starred):
                args.extend(self.iterate(self.eval(a.value, frame), a))
            else:
                args.append(self.eval(a, frame))
        kwargs = {}
        for k in e.keywords:
            if k.arg is None:
                d = self.eval(k.value, frame)
                if not isinstance(d, dict):
                    raise Unsupported("** of non-dict")
                kwargs.update(d)
            else:
                kwargs[k.arg] = self.eval(k.value, frame)
        return self.call(fn, args, kwargs, e)

    def make_super(self, frame, node):
        fr = frame
        while fr is not None and (fr.func is None or not isinstance(fr.func.node, ast.FunctionDef) or fr.parent is not None and fr.func is fr.parent.func):
            fr = fr.parent
        fr = frame
        while fr.parent is not None:
            fr = fr.parent
        f = fr.func
        cls = f.defcls
        if cls is None and f.native is not None:
            cls = self.defining_class(f.native)
        if cls is None:
            raise Unsupported("super() outside a method with known class")
        params = [a.arg for a in f.node.args.posonlyargs + f.node.args.args]
        selfv = fr.locals[params[0]]
        return LibObj("super", cls=cls, inst=selfv)

    def defining_class(self, native):
        mod = inspect.getmodule(native)
        q = native.__qualname__.split(".")
        if len(q) < 2 or "<locals>" in q:
            return None
        o = mod
        for part in q[:-1]:
            o = getattr(o, part, None)
            if o is None:
                return None
        return o if isinstance(o, type) else None

    def eval_Subscript(self, e, frame):
        o = self.eval(e.value, frame)
        idx = self.eval_index(e.slice, frame)
        return self.getitem(o, idx, e)

    def eval_index(self, sl, frame):
        if isinstance(sl, ast.Slice):
            return LibObj("slice", start=self.eval(sl.lower, frame) if sl.lower else None,
                          stop=self.eval(sl.upper, frame) if sl.upper else None,
                          step=self.eval(sl.step, frame) if sl.step else None)
        if isinstance(sl, ast.Tuple):
            return tuple(self.eval_index(x, frame) for x in sl.elts)
        return self.eval(sl, frame)

    def eval_Slice(self, e, frame):
        return self.eval_index(e, frame)

    def getitem(self, o, idx, node=None):
        if isinstance(o, NDArr):
            return self.lib.numpy.getitem(self, o, idx, node)
        if isinstance(o, Obj) and o.store is not None and not S.is_repo_function(self.lookup_class_attr(o.cls, "__getitem__")):
            return self.dict_method(o, "__getitem__", [idx], {}, node)
        if isinstance(o, Obj):
            m = self.lookup_class_attr(o.cls, "__getitem__")
            if m is _MISSING:
                self.fail("TypeError", f"{o.cls.__name__} is not subscriptable", node)
            if isinstance(idx, LibObj) and idx.kind == "slice" and all(not isinstance(idx.fields[k], SV) for k in ("start", "stop", "step")):
                pass
            return self.call(Bound(m, o), [idx], {}, node)
        if isinstance(o, type) and hasattr(o, "__class_getitem__"):
            return o
        if isinstance(o, (tuple, list, str)) and not isinstance(idx, (SV, LibObj, Obj)):
            if self.is_native_repo_instance(idx):
                idx = self.index_of(idx, node)
            try:
                return o[idx]
            except IndexError:
                self.fail("IndexError", f"index {idx} out of range({len(o)})", node)
            except TypeError as ex:
                self.fail("TypeError", str(ex), node)
        if isinstance(o, (tuple, list)) and isinstance(idx, LibObj) and idx.kind == "slice":
            f = idx.fields
            if all(not isinstance(f[k], (SV, Obj)) for k in ("start", "stop", "step")):
                return o[slice(f["start"], f["stop"], f["step"])]
            items = list(o)
            seq = SSeq(len(items), lambda i, items=items: self.select_by_index(items, i if isinstance(i, SV) else SV(z3.IntVal(i)), node)
                       if not isinstance(i, int) else items[i], "tuple" if isinstance(o, tuple) else "list")
            return self.lib.getitem(self, seq, idx, node)
        if isinstance(o, (tuple, list)) and isinstance(idx, Obj):
            return self.getitem(o, self.index_of(idx, node), node)
        if isinstance(o, (tuple, list)) and isinstance(idx, SV):
            n = len(o)
            if not idx.is_int:
                self.fail("TypeError", "sequence index must be int", node)
            self.require("IndexError", z3.And(idx.t >= -n, idx.t < n), node)
            return self.select_by_index(o, idx, node)
        if isinstance(o, dict):
            if isinstance(idx, (SV, SStr)):
                keys = list(o.keys())
                conds = []
                for k in keys:
                    r = self.eq(idx, k, node)
                    conds.append(self.sym_bool(r))
                self.require("KeyError", z3.Or(*conds) if conds else False, node)
                # fork over matching key (tables are small)
                for k, c in zip(keys, conds):
                    if self.ctx.branch(c):
                        return o[k]
                raise Infeasible()
            try:
                return o[idx]
            except KeyError:
                self.fail("KeyError", repr(idx), node)
            except TypeError as ex:
                self.fail("TypeError", str(ex), node)
        r = self.lib.getitem(self, o, idx, node)
        if r is _MISSING:
            if o is None:
                self.fail("TypeError", "'NoneType' object is not subscriptable", node)
            raise Unsupported(f"subscript of {type(o).__name__} by {type(idx).__name__} at {self.loc(node)}")
        return r

    def index_of(self, v, node):
        if isinstance(v, Obj):
            m = self.lookup_class_attr(v.cls, "__index__")
            if m is _MISSING:
                self.fail("TypeError", "indices must be integers", node)
            return self.call(Bound(m, v), [], {}, node)
        if self.is_native_repo_instance(v):
            return self.index_of(self.lift_instance(v), node)
        return v

    def select_by_index(self, seq, idx, node):
        n = len(seq)
        if n == 0:
            raise Infeasible()
        if all(self.scalar_like(x) for x in seq):
            i = z3.If(idx.t < 0, idx.t + n, idx.t)
            acc = seq[n - 1]
            for k in range(n - 2, -1, -1):
                acc = mk_ite(SV(i == k), seq[k], acc)
            return acc
        for k in range(n):
            if self.ctx.branch(z3.Or(idx.t == k, idx.t == k - n)):
                return seq[k]
        raise Infeasible()

    def setitem(self, o, idx, v, node=None):
        if isinstance(o, NDArr):
            self.lib.numpy.setitem(self, o, idx, v, node)
            return
        if isinstance(o, Obj) and o.store is not None and not S.is_repo_function(self.lookup_class_attr(o.cls, "__setitem__")):
            self.dict_method(o, "__setitem__", [idx, v], {}, node)
            return
        if isinstance(o, Obj):
            m = self.lookup_class_attr(o.cls, "__setitem__")
            if m is _MISSING:
                self.fail("TypeError", "object does not support item assignment", node)
            self.call(Bound(m, o), [idx, v], {}, node)
            return
        if isinstance(o, list) and isinstance(idx, int):
            try:
                o[idx] = v
            except IndexError:
                self.fail("IndexError", "list assignment index out of range", node)
            return
        if isinstance(o, dict) and not isinstance(idx, (SV, SStr)):
            o[idx] = v
            return
        if isinstance(o, list) and isinstance(idx, SV) and idx.is_int:
            # a symbolic position in a list of concrete length: one path per position (and one for an index out of range)
            n = len(o)
            for k in range(n):
                if self.ctx.branch(z3.Or(idx.t == k, idx.t == k - n)):
                    o[k] = v
                    return
            self.fail("IndexError", "list assignment index out of range", node)
        if isinstance(o, list) and isinstance(idx, LibObj) and idx.kind == "slice" \
                and all(idx.fields[k] is None or isinstance(idx.fields[k], int) for k in ("start", "stop", "step")):
            try:
                o[slice(idx.fields["start"], idx.fields["stop"], idx.fields["step"])] = list(self.iterate(v, node))
            except ValueError as ex:
                self.fail("ValueError", str(ex), node)
            return
        r = self.lib.setitem(self, o, idx, v, node)
        if r is _MISSING:
            raise Unsupported(f"item assignment on {type(o).__name__} at {self.loc(node)}")

    def delitem(self, o, idx, node):
        if isinstance(o, Obj) and o.store is not None:
            self.dict_method(o, "__delitem__", [idx], {}, node)
            return
        if isinstance(o, (dict, list)) and not isinstance(idx, (SV, SStr)):
            try:
                del o[idx]
            except (KeyError, IndexError):
                self.fail("KeyError", repr(idx), node)
            return
        raise Unsupported("del item")

    # iteration ---------------------------------------------------------
    def iterate(self, v, node=None):
        """Materialise an iterable as a python list of values (concrete length only)."""
        if isinstance(v, (tuple, list)):
            return list(v)
        if isinstance(v, tuple_iter):
            # a generator / iterator is consumed by iteration: a second pass over the same object yields nothing
            rest = list(v.items[v.pos:])
            v.pos = len(v.items)
            return rest
        if isinstance(v, NDArr):
            return self.lib.numpy.iterate(self, v, node)
        if isinstance(v, LazyGen):
            out = []
            while True:
                x = v.next()
                if x is LazyGen.DONE:
                    return out
                out.append(x)
                if len(out) > 5000:
                    raise Unsupported("materialising an (apparently) infinite generator")
        if isinstance(v, dict):
            return list(v.keys())
        if isinstance(v, (set, frozenset)):
            return list(v)
        if isinstance(v, (str, range)):
            return list(v)
        if isinstance(v, Obj) and v.store is not None and not S.is_repo_function(self.lookup_class_attr(v.cls, "__iter__")):
            return list(v.store.keys())
        if isinstance(v, Obj):
            m = self.lookup_class_attr(v.cls, "__iter__")
            if m is not _MISSING:
                return self.iterate(self.call(Bound(m, v), [], {}, node), node)
            self.fail("TypeError", f"{v.cls.__name__} object is not iterable", node)
        r = self.lib.iterate(self, v, node)
        if r is _MISSING:
            if v is None:
                self.fail("TypeError", "'NoneType' object is not iterable", node)
            if self.is_native_repo_instance(v):
                return self.iterate(self.lift_instance(v), node)
            try:
                if isinstance(v, (enum.EnumMeta,)) or hasattr(v, "__iter__") and not isinstance(v, (SV, SStr, SSeq, SRange, LibObj)):
                    return [self.lift(x) for x in v]
            except TypeError:
                pass
            raise Unsupported(f"iteration over {type(v).__name__} at {self.loc(node)}")
        return r

    def comp_generators(self, gens, frame, emit):
        def rec(i, fr):
            if i == len(gens):
                emit(fr)
                return
            g = gens[i]
            src = self.eval(g.iter, fr)
            if isinstance(src, Obj):
                m = self.lookup_class_attr(src.cls, "__iter__")
                if m is not _MISSING:
                    src = self.call(Bound(m, src), [], {}, g.iter)
            sym = self.lib.symbolic_comprehension_source(self, src)
            if sym is not None:
                raise _SymComp(i, src)
            if isinstance(src, LazyGen):
                # a generator of the analysed code: pulled one item at a time, so that what the comprehension does with
                # item j (e.g. modify it in place) happens BEFORE the generator computes item j+1 - as in CPython
                while True:
                    x = src.next()
                    if x is LazyGen.DONE:
                        break
                    self.assign(g.target, x, fr)
                    if all(self.truth(self.eval(c, fr), c) for c in g.ifs):
                        rec(i + 1, fr)
                return
            for x in self.iterate(src, g.iter):
                self.assign(g.target, x, fr)
                if all(self.truth(self.eval(c, fr), c) for c in g.ifs):
                    rec(i + 1, fr)
        rec(0, frame)

    def comprehension(self, e, frame, kind):
        fr = Frame(frame.func, parent=frame)
        out = []
        try:
            if kind == "dict":
                self.comp_generators(e.generators, fr, lambda f: out.append((self.eval(e.key, f), self.eval(e.value, f))))
            else:
                self.comp_generators(e.generators, fr, lambda f: out.append(self.eval(e.elt, f)))
        except _SymComp as sc:
            if len(e.generators) != 1 or kind == "dict":
                raise Unsupported("comprehension over a symbolic sequence with several generators / dict")
            return self.lib.symbolic_comprehension(self, e, fr, sc.src, kind)
        if kind == "dict":
            d = {}
            for k, v in out:
                if isinstance(k, (SV, SStr)):
                    raise Unsupported("dict comprehension with symbolic key")
                d[k] = v
            return d
        if kind == "set":
            if any(isinstance(x, (SV, Obj)) for x in out):
                raise Unsupported("set comprehension with symbolic members")
            return set(out)
        if kind == "gen":
            return tuple_iter(out)
        return out

    def eval_ListComp(self, e, frame):
        return self.comprehension(e, frame, "list")

    def eval_GeneratorExp(self, e, frame):
        return self.comprehension(e, frame, "gen")

    def eval_SetComp(self, e, frame):
        return self.comprehension(e, frame, "set")

    def eval_DictComp(self, e, frame):
        return self.comprehension(e, frame, "dict")

    def eval_Yield(self, e, frame):
        fr = frame
        while fr is not None and fr.yields is None:
            fr = fr.parent
        if fr is None:
            raise Unsupported("yield outside generator frame")
        fr.yields.emit(self.eval(e.value, frame) if e.value is not None else None)
        return None

    def eval_YieldFrom(self, e, frame):
        fr = frame
        while fr is not None and fr.yields is None:
            fr = fr.parent
        src = self.eval(e.value, frame)
        if isinstance(src, LazyGen):
            while True:
                v = src.next()
                if v is LazyGen.DONE:
                    break
                fr.yields.emit(v)
            return None
        for v in self.iterate(src, e):
            fr.yields.emit(v)
        return None

    def eval_NamedExpr(self, e, frame):
        v = self.eval(e.value, frame)
        fr = frame
        while fr.parent is not None and fr.func is fr.parent.func and getattr(fr, "is_comp", False):
            fr = fr.parent
        fr.locals[e.target.id] = v
        return v

    def eval_Starred(self, e, frame):
        raise Unsupported("starred expression in this position")

    def eval_JoinedStr(self, e, frame):
        parts = []
        for v in e.values:
            if isinstance(v, ast.Constant):
                parts.append(v.value)
            else:
                val = self.eval(v.value, frame)
                spec = ""
                if v.format_spec is not None:
                    sp = self.eval(v.format_spec, frame)
                    if not isinstance(sp, str):
                        raise Unsupported("symbolic format spec")
                    spec = sp
                parts.append(STR.format_value(self, val, v.conversion, spec, v))
        return STR.concat(self, parts)

    def eval_FormattedValue(self, e, frame):
        val = self.eval(e.value, frame)
        return STR.format_value(self, val, e.conversion, "", e)


class _YieldCollector:
    """frame.yields for code executed piecewise by loop contracts: yields are simply collected."""
    def __init__(self):
        self.items = []

    def emit(self, v):
        self.items.append(v)


class _SymComp(Exception):
    def __init__(self, idx, src):
        self.idx = idx
        self.src = src


class tuple_iter:
    """A generator / iterator over concrete items; `pos` is how far it has been consumed (single pass)."""
    def __init__(self, items):
        self.items = list(items)
        self.pos = 0


import threading
threading.stack_size(256 * 1024 * 1024)
import sys as _sys
_sys.setrecursionlimit(20000)


class _GenAbort(BaseException):
    pass


class LazyGen:
    """A generator of the analysed code, executed lazily in its own (strictly alternating) thread."""
    DONE = object()

    def __init__(self, interp, run):
        self.interp = interp
        self.run = run
        self.req = threading.Semaphore(0)
        self.resp = threading.Semaphore(0)
        self.state = "new"
        self.value = None
        self.exc = None
        self.abort = False
        self.thread = None

    def _body(self):
        self.req.acquire()
        try:
            if self.abort:
                raise _GenAbort()
            self.run()
        except _GenAbort:
            pass
        except BaseException as e:     # noqa: propagate to the consumer
            self.exc = e
        self.state = "done"
        self.resp.release()

    def next(self):
        if self.state == "done":
            return LazyGen.DONE
        I = self.interp
        saved = (I.depth, getattr(I, "cur_file", None))
        if self.state == "new":
            self.thread = threading.Thread(target=self._body, daemon=True)
            self.thread.start()
            self.state = "running"
        self.req.release()
        self.resp.acquire()
        I.depth, I.cur_file = saved
        if self.exc is not None:
            e, self.exc = self.exc, None
            raise e
        if self.state == "done":
            return LazyGen.DONE
        return self.value

    def emit(self, v):
        self.value = v
        self.state = "suspended"
        self.resp.release()
        self.req.acquire()
        if self.abort:
            raise _GenAbort()
        self.state = "running"

    def close(self):
        if self.state in ("suspended", "running") and self.thread is not None and self.thread.is_alive():
            self.abort = True
            self.req.release()
            self.thread.join(timeout=5)
        self.state = "done"


from .ndarray import NDArr  # noqa: E402  (ndarray imports helpers defined above)
