"""Contract registry, obligation generation, discharge, counterexample replay."""
from __future__ import annotations
import os, time, json, random, traceback, subprocess, tempfile, fractions, hashlib
import z3
from .values import *
from .ctx import Ctx, Obligation, explore
from .kit import SymKit, ConcKit, Skip, resolve_target
from .libmodels import Lib
from . import axioms as AX
from . import source as S

REGISTRY = []
SUMMARIES = {}      # native function -> Summary


class Summary:
    def __init__(self, target, handler, proved_by, assumes, prop):
        self.target, self.handler, self.proved_by, self.assumes, self.prop = target, handler, proved_by, assumes, prop


def summary(target, proved_by, assumes, prop=None):
    """Register a callee contract in the form used at call sites: `handler(I, args, kwargs, node)` replaces the
    body of `target` when it is called from another function under contract (modular verification).  Every
    fact it assumes must be the name of an obligation discharged for the contract `proved_by` in the same
    run (checked by the CLI)."""
    def deco(fn):
        SUMMARIES[resolve_target(target)] = Summary(target, fn, proved_by, list(assumes), prop)
        return fn
    return deco


class Contract:
    def __init__(self, fn, prop, name, targets, instances, canary, opts, bounded_only, note, cross, thorough=()):
        self.thorough = [tuple(i) if isinstance(i, (tuple, list)) else (i,) for i in thorough]
        self._init(fn, prop, name, targets, instances, canary, opts, bounded_only, note, cross)

    def _init(self, fn, prop, name, targets, instances, canary, opts, bounded_only, note, cross):
        self.fn = fn
        self.prop = prop
        self.name = name
        self.targets = targets
        self.instances = instances
        self.canary = canary
        self.opts = opts or {}
        self.bounded_only = bounded_only
        self.note = note
        self.cross = cross


def contract(prop, name=None, targets=(), instances=((),), canary=False, opts=None, bounded_only=False,
             note="", cross=12, thorough=()):
    """Register a contract.  `targets`: functions of the repository put under contract by it.
    `instances`: list of parameter tuples (finite dispatch enumeration: classes, table keys ...)."""
    def deco(fn):
        for pr in ((prop,) if isinstance(prop, str) else tuple(prop)):
            REGISTRY.append(Contract(fn, pr, name or fn.__name__, tuple(targets), [tuple(i) if isinstance(i, (tuple, list)) else (i,) for i in instances],
                                     canary, opts, bounded_only, note, cross, thorough))
        return fn
    return deco


def inst_label(inst):
    def one(x):
        if isinstance(x, type):
            return x.__name__
        if hasattr(x, "__qualname__"):
            return x.__qualname__
        return str(x)
    return ",".join(one(x) for x in inst)


# ------------------------------------------------------------------------------------- solving
def _solve_z3(formulas, timeout_ms, seed):
    """Portfolio inside z3: (1) the default solver for a short slice, (2) the SMT core behind a sum-of-monomials
    normalisation (polynomial identities that the default nonlinear engine sits on for ~14 s are immediate there),
    (3) the default solver with the full budget.  All three are z3's own decision procedures (sound); the first
    verdict that is not 'unknown' is taken."""
    t0 = time.time()
    s = None
    stages = [("default", min(timeout_ms, 4000)), ("som", min(timeout_ms, 10000)), ("default", timeout_ms)]
    if timeout_ms <= 4000:
        stages = [("default", timeout_ms)]
    for kind, tmo in stages:
        s = z3.Solver() if kind == "default" else z3.Then(z3.With("simplify", som=True), "smt").solver()
        s.set("timeout", int(tmo))
        if kind == "default":
            s.set("random_seed", seed % 1000)
        for f in formulas:
            s.add(f)
        r = s.check()
        if r == z3.unsat:
            return "unsat", None, time.time() - t0, s
        if r == z3.sat:
            return "sat", s.model(), time.time() - t0, s
    return "unknown:" + s.reason_unknown(), None, time.time() - t0, s


def _solve_cli(smt2, cmd, timeout_s):
    with tempfile.NamedTemporaryFile("w", suffix=".smt2", delete=False, dir=os.environ.get("PYVC_TMP", None)) as fh:
        fh.write(smt2)
        path = fh.name
    t0 = time.time()
    try:
        out = subprocess.run(cmd + [path], capture_output=True, text=True, timeout=timeout_s)
        txt = out.stdout.strip().splitlines()
        res = txt[0].strip() if txt else "unknown"
    except subprocess.TimeoutExpired:
        res = "unknown:timeout"
    finally:
        os.unlink(path)
    return res, time.time() - t0


def discharge(ob, timeout_ms=20000, seed=0, alt=True):
    """Decide `pc => goal`.  status: proved | refuted | unknown"""
    formulas = list(ob.pc) + [z3.Not(ob.goal)]
    if AX.uses_real_functions(formulas):
        formulas = formulas + AX.ground_axioms(formulas)
    res, model, dt, solver = _solve_z3(formulas, timeout_ms, seed)
    ob.time = dt
    ob.backend = "z3-" + z3.get_version_string()
    if res == "unsat":
        ob.status = "proved"
        return ob
    if res == "sat":
        ob.status = "refuted"
        ob.model = model
        return ob
    ob.detail = res
    if alt:
        smt2 = "(set-logic ALL)\n" + solver.to_smt2()
        for label, cmd in (("cvc5-1.0.3", ["/usr/bin/cvc5", "--strings-exp", f"--tlimit={timeout_ms}"]),
                           ("z3-4.8.12", ["/usr/bin/z3", f"-T:{max(1, timeout_ms // 1000)}"])):
            if not os.path.exists(cmd[0]):
                continue
            r, dt2 = _solve_cli(smt2, cmd, timeout_ms / 1000 + 5)
            ob.time += dt2
            if r == "unsat":
                ob.status = "proved"
                ob.backend = label
                return ob
            if r == "sat":
                ob.status = "refuted"
                ob.backend = label
                ob.detail = "sat (model not extracted from CLI back end)"
                return ob
    ob.status = "unknown"
    return ob


def model_values(model, inputs):
    vals = {}
    if model is None:
        return vals
    for name, desc in inputs.items():
        kind = desc[0]
        if kind == "int":
            v = model.eval(z3.Int(name), model_completion=True).as_long()
            lo, hi = desc[1], desc[2]
            # inputs declared after the failed obligation are unconstrained in the model: keep them in range
            if lo is not None and v < lo:
                v = lo
            if hi is not None and v > hi:
                v = hi
            vals[name] = v
        elif kind == "real":
            v = model.eval(z3.Real(name), model_completion=True)
            if z3.is_algebraic_value(v):
                v = v.approx(20)
            f = fractions.Fraction(v.numerator_as_long(), v.denominator_as_long())
            lo, hi, nonzero, positive = (list(desc[1:]) + [None, None, False, False])[:4]
            if positive and f <= 0:
                f = fractions.Fraction(1)
            if nonzero and f == 0:
                f = fractions.Fraction(1)
            if lo is not None and f < lo:
                f = fractions.Fraction(lo)
            if hi is not None and f > hi:
                f = fractions.Fraction(hi)
            vals[name] = f
        elif kind == "bool":
            v = model.eval(z3.Bool(name), model_completion=True)
            vals[name] = z3.is_true(v)
        elif kind == "array":
            import itertools
            dims = []
            for d in desc[1]:
                dv = model.eval(d, model_completion=True)
                dims.append(max(0, dv.as_long()) if z3.is_int_value(dv) else 0)
            if any(d > 40 for d in dims):
                continue
            sorts = [z3.IntSort()] * len(dims)

            def build(prefix, k):
                if k == len(dims):
                    args = [z3.IntVal(i) for i in prefix]
                    if desc[3] == "bool":
                        return z3.is_true(model.eval(z3.Function(name + "_b", *sorts, z3.BoolSort())(*args), model_completion=True))
                    if desc[2] and z3.is_true(model.eval(z3.Function(name + "_n", *sorts, z3.BoolSort())(*args), model_completion=True)):
                        return float("nan")
                    v = model.eval(z3.Function(name + "_v", *sorts, z3.RealSort())(*args), model_completion=True)
                    if z3.is_algebraic_value(v):
                        v = v.approx(20)
                    return float(fractions.Fraction(v.numerator_as_long(), v.denominator_as_long()))
                return [build(prefix + [i], k + 1) for i in range(dims[k])]
            vals[name] = build([], 0)
    return vals


# ------------------------------------------------------------------------------------- running one contract instance
class InstanceResult:
    def __init__(self, c, inst):
        self.prop = c.prop
        self.contract = c.name
        self.instance = inst_label(inst)
        self.canary = c.canary
        self.paths = 0
        self.covered_paths = 0
        self.obligations = []      # dicts
        self.status = "ok"         # ok | violation | undecided | unsupported | crash | vacuous
        self.error = None
        self.functions = []
        self.assumptions = []
        self.time = 0.0
        self.cross_checked = 0
        self.cross_skipped = 0
        self.feas_unknown = 0
        self.summaries_used = []

    def to_dict(self):
        return self.__dict__


def run_concrete(c, inst, values=None, rng=None):
    """Native execution of the contract. Returns (status, detail, used_inputs)."""
    K = ConcKit(values, rng)
    try:
        c.fn(K, *inst)
    except Skip:
        return "skip", None, K.used
    except (OverflowError, FloatingPointError):
        # float range exceeded on this concrete input: outside the real-number abstraction, not a contract violation
        return "skip", None, K.used
    except Exception as ex:   # native exception = the real code raised where the contract expects a result
        if type(ex).__name__ == "LinAlgError" and "ingular" in str(ex):
            # the assumed contract of numpy.linalg.solve covers non-singular systems only (paths without a solution are
            # dropped by the assumption; the real code raises): a draw that makes the system singular is outside it
            return "skip", None, K.used
        tb = traceback.format_exc(limit=6)
        return "exception", f"{type(ex).__name__}: {ex}\n{tb}", K.used
    if K.violations:
        return "violated", "|".join(K.violations), K.used
    if K.ensured == 0:
        return "skip", None, K.used
    return "held", None, K.used


def prove_instance(c, inst, tier="quick", seed=0, lib_factory=Lib):
    res = InstanceResult(c, inst)
    t0 = time.time()
    timeout_ms = int(os.environ.get("PYVC_TIMEOUT_MS", 30000 if tier == "quick" else 180000))
    S.reset_used()
    try:
        for t in c.targets:
            obj = resolve_target(t)
            if not S.is_repo_function(obj) and not isinstance(obj, type) and not isinstance(obj, (dict, tuple, str)):
                raise Unsupported(f"contract target {t} is not a repository function/class/table")
        kits = []
        used_summaries = set()

        def run(ctx):
            K = SymKit(ctx, lib_factory(), opts=dict(c.opts))
            K.I.summaries = {f: sm for f, sm in SUMMARIES.items() if sm.target not in c.opts.get("inline", ())}
            K.I.summaries_used = used_summaries
            kits.append(K)
            try:
                c.fn(K, *inst)
            finally:
                K.I.close_generators()
            return K
        results = explore(run, max_paths=c.opts.get("max_paths", 600), label=f"{c.name}[{res.instance}]")
        res.paths = len(results)
        inputs = {}
        obligs = []
        for ctx, outcome in results:
            K = None
            res.feas_unknown += ctx.feas_unknown
            res.assumptions.extend(ctx.assumptions_used)
            kind, val = outcome
            if kind == "return":
                K = val
                inputs.update(K.inputs)
                if K.ensured:
                    res.covered_paths += 1
            elif kind == "infeasible":
                if any(o.kind == "post" for o in ctx.obligs):
                    res.covered_paths += 1
            elif kind == "raise":
                msg = str(val.args[0]) if getattr(val, "implicit", False) and val.args else ""
                ctx.obligs.append(Obligation(f"no_unexpected_raise:{val.cls.__name__}{(':' + msg) if msg else ''}", ctx.pc, z3.BoolVal(False), None, "safety"))
            else:
                ctx.obligs.append(Obligation(f"no_failure:{val.kind}:{val.msg}@{getattr(val.node, 'lineno', '?')}", ctx.pc, z3.BoolVal(False), None, "safety"))
            obligs.extend(ctx.obligs)
        for K in kits:
            inputs.update(K.inputs)
        res.summaries_used = sorted(used_summaries)
        res.assumptions = sorted(set(res.assumptions))
        res.functions = S.used_functions()
        # discharge
        seen = set()
        for ob in obligs:
            key = (ob.name, tuple(x.get_id() for x in ob.pc), ob.goal.get_id())
            if key in seen:
                continue
            seen.add(key)
            if z3.is_true(z3.simplify(ob.goal)):
                ob.status, ob.backend, ob.time = "proved", "trivial", 0.0
            else:
                discharge(ob, timeout_ms, seed)
            rec = {"name": ob.name, "kind": ob.kind, "status": ob.status, "backend": ob.backend,
                   "time": round(ob.time, 4), "detail": ob.detail,
                   "size": len(ob.goal.sexpr()) + sum(len(p.sexpr()) for p in ob.pc)}
            if ob.status == "refuted":
                vals = model_values(ob.model, inputs)
                rec["model"] = {k: str(v) for k, v in vals.items()}
                st, detail, used = run_concrete(c, inst, vals)
                def own(st, detail):
                    if st == "violated" and ob.kind == "post" and ob.name not in (detail or "").split("|"):
                        # another postcondition fails natively on this input, but not the one the solver refuted
                        return "held", f"(other postconditions failing on this input: {detail})"
                    return st, detail
                st, detail = own(st, detail)
                if st in ("held", "skip"):
                    # degenerate model (0, 1, equal values ...): ask for a less special counterexample
                    for attempt in range(3):
                        extra = []
                        reals = [z3.Real(n) for n, d in inputs.items() if d[0] == "real"]
                        ints = [z3.Int(n) for n, d in inputs.items() if d[0] == "int"]
                        for x in reals:
                            extra += [x != 0, x != 1, x != -1] + ([x > 1] if attempt == 1 else []) + ([x < -1] if attempt == 2 else [])
                        extra += [z3.Distinct(*reals)] if len(reals) > 1 else []
                        for x in ints:
                            extra += [x != 0] if attempt else []
                        fs = list(ob.pc) + [z3.Not(ob.goal)] + extra
                        if AX.uses_real_functions(fs):
                            fs = fs + AX.ground_axioms(fs)
                        r2, m2, _, _ = _solve_z3(fs, 5000, seed + attempt)
                        if r2 != "sat":
                            continue
                        vals2 = model_values(m2, inputs)
                        st2, detail2, used2 = run_concrete(c, inst, vals2)
                        st2, detail2 = own(st2, detail2)
                        if st2 in ("violated", "exception"):
                            st, detail, used, vals = st2, detail2, used2, vals2
                            rec["model"] = {k: str(v) for k, v in vals.items()}
                            break
                rec["replay"] = st
                rec["replay_detail"] = detail
                rec["replay_inputs"] = {k: str(v) for k, v in used.items()}
            res.obligations.append(rec)
        # verdict
        if c.canary:
            bad = [o for o in res.obligations if o["status"] == "refuted" and o.get("replay") in ("violated", "exception")]
            res.status = "ok" if bad else "vacuous"
            if not bad:
                res.error = "canary (deliberately wrong postcondition) was not refuted with a replayable counterexample"
        else:
            if any(o["status"] == "refuted" for o in res.obligations):
                res.status = "violation"
            elif any(o["status"] == "unknown" for o in res.obligations):
                res.status = "undecided"
            elif not res.obligations or res.covered_paths == 0:
                res.status = "vacuous"
                res.error = "no obligation / no feasible path reaches a postcondition"
            else:
                # engine cross-check: the contract must also hold natively on random concrete inputs
                rng = random.Random(seed * 7919 + int(hashlib.md5((c.name + res.instance).encode()).hexdigest()[:6], 16))
                n = c.cross if tier == "quick" else c.cross * 5
                for _ in range(n):
                    st, detail, used = run_concrete(c, inst, None, rng)
                    if st == "skip":
                        res.cross_skipped += 1
                    elif st == "held":
                        res.cross_checked += 1
                    else:
                        res.status = "crash"
                        res.error = (f"ENGINE CROSS-CHECK FAILED: contract proved symbolically but native run {st} "
                                     f"on {used}: {detail}")
                        break
    except Unsupported as ex:
        res.status = "unsupported"
        res.error = f"{type(ex).__name__}: {ex}"
    except Exception as ex:
        res.status = "crash"
        res.error = traceback.format_exc(limit=12)
    res.time = round(time.time() - t0, 3)
    return res


class _Budget(Exception):
    pass


def _worker(args):
    idx, inst_idx, tier, seed = args
    c = REGISTRY[idx]
    import resource, signal
    try:
        lim = int(os.environ.get("PYVC_MEM_GB", "6")) * 1024 ** 3
        resource.setrlimit(resource.RLIMIT_AS, (lim, lim))
    except (ValueError, OSError):
        pass
    budget = int(os.environ.get("PYVC_INSTANCE_BUDGET_S", 300 if tier == "quick" else 1800))

    def on_alarm(signum, frame):
        raise _Budget()
    try:
        signal.signal(signal.SIGALRM, on_alarm)
        signal.alarm(budget)
    except ValueError:
        pass
    try:
        r = prove_instance(c, c.instances[inst_idx], tier, seed)
        signal.alarm(0)
    except (_Budget, MemoryError) as ex:
        signal.alarm(0)
        r = InstanceResult(c, c.instances[inst_idx])
        r.status = "crash"
        r.error = f"instance budget exceeded ({type(ex).__name__}: wall {budget}s / memory limit): engine limit, not a verdict"
        return r.to_dict()
    except BaseException as ex:   # noqa
        r = InstanceResult(c, c.instances[inst_idx])
        r.status = "crash"
        r.error = traceback.format_exc(limit=12)
    return r.to_dict()


def run_property(prop, tier="quick", seed=0, jobs=None, only=None):
    import multiprocessing as mp
    tasks = []
    for i, c in enumerate(REGISTRY):
        if c.prop != prop or c.bounded_only:
            continue
        if only and not any(o in c.name for o in only.split(",")):
            continue
        if tier == "thorough" and c.thorough:
            c.instances = list(c.instances) + [t for t in c.thorough if t not in c.instances]
        for j in range(len(c.instances)):
            tasks.append((i, j, tier, seed))
    # callee contracts behind the summaries are re-proved in every property that may use them
    if not only:
        needed = {sm.proved_by for sm in SUMMARIES.values()}
        have = {REGISTRY[t[0]].name for t in tasks}
        for i, c in enumerate(REGISTRY):
            if c.name in needed and c.name not in have and not c.canary:
                have.add(c.name)
                for j in range(len(c.instances)):
                    tasks.append((i, j, tier, seed))
    jobs = jobs or int(os.environ.get("PYVC_JOBS", min(16, os.cpu_count() or 4)))
    if jobs <= 1:
        return [_worker(t) for t in tasks]
    return _run_scheduled(tasks, jobs, tier)


def _child(conn, task):
    try:
        conn.send(_worker(task))
    except BaseException:      # noqa
        try:
            c = REGISTRY[task[0]]
            r = InstanceResult(c, c.instances[task[1]])
            r.status = "crash"
            r.error = traceback.format_exc(limit=8)
            conn.send(r.to_dict())
        except BaseException:  # noqa
            pass
    finally:
        conn.close()


def _run_scheduled(tasks, jobs, tier):
    """One process per contract instance, at most `jobs` at a time, each killed by the parent when it exceeds its
    wall-clock budget (a solver call inside C code cannot be interrupted from within)."""
    import multiprocessing as mp
    ctx = mp.get_context("fork")
    budget = int(os.environ.get("PYVC_INSTANCE_BUDGET_S", 300 if tier == "quick" else 1800)) + 15
    results = [None] * len(tasks)
    pending = list(enumerate(tasks))
    running = {}
    while pending or running:
        while pending and len(running) < jobs:
            k, task = pending.pop(0)
            parent, child = ctx.Pipe(duplex=False)
            p = ctx.Process(target=_child, args=(child, task), daemon=True)
            p.start()
            child.close()
            running[k] = (p, parent, time.time(), task)
        done = []
        for k, (p, conn, t0, task) in running.items():
            if conn.poll(0):
                try:
                    results[k] = conn.recv()
                except EOFError:
                    pass
                done.append(k)
            elif not p.is_alive():
                done.append(k)
            elif time.time() - t0 > budget:
                p.kill()
                done.append(k)
        for k in done:
            p, conn, t0, task = running.pop(k)
            p.join(timeout=5)
            if results[k] is None:
                c = REGISTRY[task[0]]
                r = InstanceResult(c, c.instances[task[1]])
                r.status = "crash"
                r.error = (f"instance killed after {int(time.time() - t0)}s (wall/memory budget): engine limit, not a verdict"
                           if time.time() - t0 > budget - 1 else "worker process died (memory limit or crash): engine limit, not a verdict")
                results[k] = r.to_dict()
            conn.close()
        if not done:
            time.sleep(0.02)
    return results
