"""The contract kit: one contract text, two executions.

A contract is a python function `c(K, *instance_params)`.  It declares inputs (`K.int`, `K.real`, `K.obj` ...),
states preconditions (`K.assume`), calls the REAL function (`K.call`, `K.method`, `K.getattr` ...) and states
postconditions (`K.ensure`).  Under `SymKit` the real function is executed symbolically from its AST for all
paths and every `ensure` becomes a proof obligation `path-condition => formula`.  Under `ConcKit` the very
same text runs natively on concrete inputs (replay of solver counterexamples, bounded/randomised checking,
engine cross-check).
"""
from __future__ import annotations
import fractions, random, types, inspect
import z3
from .values import *
from .interp import Interp, to_z3, _MISSING, tuple_iter
from .libmodels import Lib, LibFn
from . import source as S


class Skip(Exception):
    """Concrete input outside the precondition."""


class ConcreteViolation(Exception):
    def __init__(self, name, detail):
        super().__init__(f"{name}: {detail}")
        self.name = name
        self.detail = detail


def unwrap(v):
    """Interpreter value -> contract-level value (z3 terms for scalars)."""
    if isinstance(v, SV):
        return v.t if v.nan is None else v      # possibly-NaN reals stay cells
    if isinstance(v, tuple):
        u = tuple(unwrap(x) for x in v)
        if all(a is b for a, b in zip(u, v)):
            return v
        return type(v)(*u) if hasattr(type(v), "_fields") else u       # a NamedTuple keeps its class (attribute access)
    return v


def wrap(v):
    if isinstance(v, z3.ExprRef):
        return SV(v)
    if isinstance(v, tuple):
        w = tuple(wrap(x) for x in v)
        if all(a is b for a, b in zip(w, v)):
            return v
        return type(v)(*w) if hasattr(type(v), "_fields") else w
    if isinstance(v, list):
        w = [wrap(x) for x in v]
        return v if all(a is b for a, b in zip(w, v)) else w       # identity of plain containers is preserved
    if isinstance(v, dict):
        w = {k: wrap(x) for k, x in v.items()}
        return v if all(w[k] is v[k] for k in v) else w
    return v


DECLINE = object()      # returned by a stub to let the real function run for this call


class KitBase:
    symbolic = False
    DECLINE = DECLINE

    # logical connectives usable in both modes
    def And(self, *xs):
        if any(isinstance(x, z3.ExprRef) for x in xs):
            return z3.And(*[x if isinstance(x, z3.ExprRef) else z3.BoolVal(bool(x)) for x in xs])
        return all(xs)

    def Or(self, *xs):
        if any(isinstance(x, z3.ExprRef) for x in xs):
            return z3.Or(*[x if isinstance(x, z3.ExprRef) else z3.BoolVal(bool(x)) for x in xs])
        return any(xs)

    def Not(self, x):
        return z3.Not(x) if isinstance(x, z3.ExprRef) else (not x)

    def Implies(self, a, b):
        return self.Or(self.Not(a), b)

    def ite(self, c, a, b):
        if isinstance(c, z3.ExprRef):
            a = a if isinstance(a, z3.ExprRef) else to_z3(a)
            b = b if isinstance(b, z3.ExprRef) else to_z3(b)
            if z3.is_int(a) and z3.is_real(b):
                a = z3.ToReal(a)
            if z3.is_real(a) and z3.is_int(b):
                b = z3.ToReal(b)
            return z3.If(c, a, b)
        return a if c else b

    def fdiv(self, a, b):
        """Floor division for a positive constant divisor (same in both modes)."""
        assert isinstance(b, int) and b > 0
        return a / b if isinstance(a, z3.ExprRef) else a // b

    def mod(self, a, b):
        assert isinstance(b, int) and b > 0
        return a % b

    def frac(self, c):
        """an exact rational constant of the specification (z3 rational / float)"""
        return z3.RealVal(str(fractions.Fraction(c))) if self.symbolic else float(c)


class SymKit(KitBase):
    symbolic = True

    def __init__(self, ctx, lib=None, summaries=None, opts=None):
        self.ctx = ctx
        self.lib = lib or Lib()
        self.I = Interp(ctx, self.lib, summaries, opts or {})
        self.inputs = {}        # name -> description for replay
        self.ensured = 0
        self.expect = None

    # ---- inputs
    def int(self, name, lo=None, hi=None, sample=None):
        t = z3.Int(name)
        self.inputs[name] = ("int", lo, hi)
        if lo is not None:
            self.ctx.assume(t >= lo)
        if hi is not None:
            self.ctx.assume(t <= hi)
        return t

    def real(self, name, lo=None, hi=None, nonzero=False, positive=False, sample=None):
        t = z3.Real(name)
        self.inputs[name] = ("real", lo, hi, nonzero, positive)
        if lo is not None:
            self.ctx.assume(t >= lo)
        if hi is not None:
            self.ctx.assume(t <= hi)
        if nonzero:
            self.ctx.assume(t != 0)
        if positive:
            self.ctx.assume(t > 0)
        return t

    def bool(self, name):
        self.inputs[name] = ("bool",)
        return z3.Bool(name)

    def choice(self, name, options):
        """A concrete choice enumerated by the instance list (not symbolic)."""
        raise NotImplementedError

    def obj(self, cls, **attrs):
        return Obj(cls, {k: wrap(v) for k, v in attrs.items()})

    def atom(self, name):
        from . import strings as STR
        return STR.atom(name)

    # ---- logic
    def assume(self, cond):
        self.ctx.assume(cond if isinstance(cond, z3.ExprRef) else bool(cond))

    def ensure(self, name, cond):
        self.ensured += 1
        if not isinstance(cond, z3.ExprRef):
            cond = z3.BoolVal(bool(cond))
        from .ctx import Obligation
        self.ctx.obligs.append(Obligation(name, self.ctx.pc, cond, None, kind="post"))

    def fail_unless(self, name, cond):
        self.ensure(name, cond)

    # ---- calling real code
    def resolve(self, target):
        return resolve_target(target)

    def call(self, fn, *args, **kwargs):
        if isinstance(fn, str):
            fn = self.resolve(fn)
        r = self.I.call(fn, [wrap(a) for a in args], {k: wrap(v) for k, v in kwargs.items()})
        return unwrap(r)

    def method(self, obj, name, *args, **kwargs):
        m = self.I.getattr(wrap(obj), name)
        return unwrap(self.I.call(m, [wrap(a) for a in args], {k: wrap(v) for k, v in kwargs.items()}))

    def getattr(self, obj, name):
        return unwrap(self.I.getattr(wrap(obj), name))

    def attr(self, obj, name):
        """Raw instance attribute (no descriptor call)."""
        if isinstance(obj, Obj):
            return unwrap(obj.attrs[name])
        return getattr(obj, name)

    def binop(self, sym, a, b):
        return unwrap(self.I.binop(sym, wrap(a), wrap(b)))

    def compare(self, sym, a, b):
        return unwrap(self.I.compare(sym, wrap(a), wrap(b)))

    def truth(self, v):
        t = self.I.truth_sym(wrap(v))
        return t

    def builtin(self, name, *args, **kwargs):
        import builtins
        return unwrap(self.I.call(getattr(builtins, name), [wrap(a) for a in args], {k: wrap(v) for k, v in kwargs.items()}))

    def raises(self, exc_cls, thunk, name="must_raise"):
        """The call must raise exc_cls on every feasible path."""
        try:
            thunk()
        except PyRaise as e:
            if issubclass(e.exc.cls, exc_cls):
                self.ensured += 1
                from .ctx import Obligation
                self.ctx.obligs.append(Obligation(name + ":raised", self.ctx.pc, z3.BoolVal(True), None, kind="post"))
                return e.exc
            raise
        self.ensure(name, False)
        return None

    def is_instance(self, v, cls):
        if isinstance(v, Obj):
            return issubclass(v.cls, cls)
        return isinstance(v, cls)

    def cls_of(self, v):
        return v.cls if isinstance(v, Obj) else type(v)

    def is_none(self, v):
        return v is None

    def items(self, v):
        """Materialise an iterable result."""
        return [unwrap(x) for x in self.I.iterate(wrap(v))]

    def length(self, v):
        import builtins
        return unwrap(self.I.call(builtins.len, [wrap(v)], {}))

    def index(self, v, i):
        return unwrap(self.I.getitem(wrap(v), wrap(i)))

    def fresh_int(self, name):
        return z3.Int(self.ctx.fresh_name(name))

    def setitem(self, v, i, value):
        self.I.setitem(wrap(v), wrap(i), wrap(value))

    # ---- loop contracts: the three Hoare obligations (init / step / exit) are driven by the contract text
    def run_prefix(self, fn, *args, ordinal=0, **kwargs):
        fr, loop = self.I.run_prefix(fn, [wrap(a) for a in args], {k: wrap(v) for k, v in kwargs.items()}, ordinal)
        return (fr, loop)

    def loop_frame(self, fn, local_vars, ordinal=0):
        return self.I.loop_frame(fn, ordinal, {k: wrap(v) for k, v in local_vars.items()})

    def loop_test(self, h):
        return self.I.loop_test(*h)

    def loop_body(self, h, element=None):
        from .interp import _MISSING
        return self.I.loop_body_once(h[0], h[1], wrap(element) if element is not None else _MISSING)

    def run_suffix(self, h):
        return unwrap(self.I.run_suffix(*h))

    def local(self, h, name):
        return unwrap(h[0].locals[name])

    def yielded(self, h):
        return [unwrap(v) for v in h[0].yields.items]

    def seq(self, name, length, kind="int"):
        """Symbolic tuple of symbolic length: element i is the uninterpreted name(i)."""
        f = z3.Function(name, z3.IntSort(), z3.IntSort())
        self.inputs[name] = ("seq", length)
        return SSeq(wrap(length), lambda i: SV(f(i.t if isinstance(i, SV) else z3.IntVal(i))), "tuple")

    def seq_slice(self, s, start):
        """s[start:] for a symbolic sequence (contract-level helper)."""
        from .ndarray import as_dim
        st = wrap(start)
        stt = st.t if isinstance(st, SV) else z3.IntVal(st)
        ln = (s.length.t if isinstance(s.length, SV) else z3.IntVal(s.length)) - stt
        return SSeq(as_dim(ln), lambda i: s.getter(SV(z3.simplify(stt + (i.t if isinstance(i, SV) else z3.IntVal(i))))), s.kind)

    def seq_at(self, s, i):
        i = wrap(i)
        return unwrap(s.getter(i if isinstance(i, SV) else SV(z3.IntVal(i))))

    def seq_len(self, s):
        return unwrap(s.length)

    def array_view(self, arr, row0, col0):
        """arr[row0:, col0:] as a view (contract-level helper)."""
        from .values import LibObj
        return self.lib.numpy.basic_index_keep(self.I, arr, [LibObj("slice", start=wrap(row0), stop=None, step=None),
                                                             LibObj("slice", start=wrap(col0), stop=None, step=None)], None)

    def bool_cell(self, arr, *idx):
        e = arr.get(*[(wrap(i).t if isinstance(wrap(i), SV) else z3.IntVal(i)) for i in idx])
        return self.I.sym_bool(e)

    def derived_array(self, shape, cell_fn):
        """An array defined cell by cell from other symbolic values (contract-level construction of a state that
        satisfies an invariant)."""
        from .ndarray import NDArr
        return NDArr.fresh(lambda *idx: wrap(cell_fn(*idx)), tuple(wrap(d) for d in shape), "float")

    def concrete_array(self, arr):
        """nested lists of floats of an array all of whose cells are concrete (e.g. a native array carried through the analysed code)"""
        import numpy as np
        if isinstance(arr, np.ndarray):
            return arr.tolist()
        _, lst = self.lib.numpy.dense(self.I, arr, "concrete_array")

        def conv(x):
            if isinstance(x, list):
                return [conv(y) for y in x]
            if isinstance(x, SV):
                t = z3.simplify(x.t)
                if not (z3.is_rational_value(t) or z3.is_int_value(t)):
                    raise Unsupported("concrete_array: symbolic cell")
                return float(t.as_fraction())
            return float(x)
        return conv(lst)

    def setattr(self, obj, name, value):
        """Assign an attribute of a (lifted) repository object from the contract (construction of a symbolic state)."""
        self.I.setattr(wrap(obj), name, self.I.lift(wrap(value)), None)

    def array_cells(self, nested):
        """An array given cell by cell as nested lists (concrete shape; cells: nan_cell() / reals / numbers)."""
        def shp(x):
            return (len(x),) + shp(x[0]) if isinstance(x, (list, tuple)) else ()
        return self.lib.numpy.from_nested(self.I, [[wrap(c) for c in row] if isinstance(row, (list, tuple)) else wrap(row) for row in nested], "float", shp(nested))

    def solve_unique(self, what, cand):
        """Use of the ASSUMED uniqueness clause of numpy.linalg.solve for the LAST system the analysed code solved:
        first the obligation that the candidate (rows x columns of reals) satisfies that very system A @ cand == b
        (this is a statement about the matrices the code built), then - by uniqueness - the returned solution IS the
        candidate.  Natively a no-op (the float solution is simply compared by the ensures that follow)."""
        from .interp import num_pair
        solves = getattr(self.ctx, "solves", None)
        if not solves:
            raise Unsupported("solve_unique: the analysed code has not called numpy.linalg.solve on this path")
        Al, X, Bl = solves[-1]
        m = len(Al)
        assert len(cand) == m, (len(cand), m)
        eqs = []
        for i in range(m):
            for c in range(len(Bl[i])):
                acc = 0
                for j in range(m):
                    acc = self.I.binop("+", acc, self.I.binop("*", Al[i][j], wrap(cand[j][c]), None), None)
                ta, tb = num_pair(acc, Bl[i][c])
                eqs.append(ta == tb)
        self.ensure(f"{what}: the candidate satisfies the linear system the code hands to the solver", z3.And(*eqs))
        for j in range(m):
            for c in range(len(X[j])):
                ta, tb = num_pair(X[j][c], wrap(cand[j][c]))
                self.ctx.assume(ta == tb)

    def callable(self, fn):
        """A contract-level function passed into the analysed code as a callback."""
        return LibFn(lambda I2, a, k, n: wrap(fn(*[unwrap(x) for x in a], **{kk: unwrap(v) for kk, v in k.items()})), "contract callback")

    def scalar(self, v):
        """Value of a scalar that may be delivered as a 0-d / 1x1 array."""
        from .ndarray import NDArr
        if isinstance(v, NDArr):
            e = self.lib.numpy.item(self.I, v, None)
            return unwrap(e)
        return v

    def expit(self, x):
        return unwrap(self.lib.m_expit(self.I, wrap(x), None))

    def with_class_attrs(self, cls, attrs, thunk):
        """Run thunk with class attributes temporarily set (e.g. Atom._data_context)."""
        ov = self.I.class_attr_overrides.setdefault(cls, {})
        saved = dict(ov)
        ov.update({k: wrap(v) for k, v in attrs.items()})
        try:
            return thunk()
        finally:
            ov.clear()
            ov.update(saved)

    def set_variant_data(self, lifted_ds, native_ds, X):
        """Replace the data array of a (lifted) single-variant dataslate by X."""
        v = self.I.getattr(lifted_ds, "_variants")[0]
        v = self.I.lift(v)
        self.I.getattr(lifted_ds, "_variants")[0] = v
        self.I.setattr(v, "data", X)

    def native_attr(self, obj, name):
        """Attribute of a lifted object as python values suitable for comparisons in contracts: lifted repository
        objects are represented by lightweight records exposing their attributes."""
        v = self.I.getattr(wrap(obj), name)

        class Rec:
            def __init__(s2, o):
                s2.__dict__.update({k: (x if not isinstance(x, SV) else x.t) for k, x in o.attrs.items()})

        def conv(x):
            if isinstance(x, Obj):
                return Rec(x)
            if isinstance(x, (list, tuple)):
                return type(x)(conv(y) for y in x)
            if self.I.is_native_repo_instance(x):
                return x
            return x
        return conv(v)

    def shared_cells(self, a, b):
        """Mutable heap cells reachable from both values (empty list = the two object graphs are independent)."""
        fa, fb = sym_footprint(wrap(a)), sym_footprint(wrap(b))
        return sorted(f"{fa[k][0]} at {fa[k][1]}" for k in set(fa) & set(fb))

    def stubbed(self, target, replacement, reason, thunk):
        """Run thunk with the real function `target` replaced by `replacement` (a contract-level function).  Every
        use is an ASSUMPTION recorded in the evidence with its reason."""
        from .interp import _MISSING
        self.ctx.note_assumption(f"STUB {getattr(target, '__qualname__', target)}: {reason}")

        def hook(I, fn, args, kwargs, node):
            if fn is target:
                r = replacement(*[unwrap(a) for a in args], **{k: unwrap(v) for k, v in kwargs.items()})
                if r is DECLINE:
                    return _MISSING              # this call is executed for real (e.g. the outermost call of a recursive function)
                return I.lift(wrap(r))
            return _MISSING
        self.I.call_hooks.append(hook)
        try:
            return thunk()
        finally:
            self.I.call_hooks.remove(hook)

    def register_source(self, fn, src, label="generated"):
        """Tell the engine the source text of a function created by exec() at run time (checked by bytecode)."""
        S.register_generated(fn, src, label)

    def lift(self, native):
        """Interpreter view of a native repository object (attributes become analysable values)."""
        return self.I.lift(native)

    def eval_expr(self, src, env, globals_=None):
        """Evaluate a python expression given as text (code that the repository generates) on symbolic values."""
        import ast as _ast
        from .interp import Frame
        from .values import Func
        tree = _ast.parse(src, mode="eval")
        f = Func(_ast.Lambda(args=_ast.arguments(posonlyargs=[], args=[], kwonlyargs=[], kw_defaults=[], defaults=[]), body=tree.body),
                 dict(globals_ or {}), None, qualname="<generated expression>")
        fr = Frame(f)
        fr.locals.update({k: wrap(v) for k, v in env.items()})
        return unwrap(self.I.eval(tree.body, fr))

    def instantiate(self, key):
        """Instantiate every universally quantified fact assumed from callee contracts at `key` (sound: an
        instance of a proved forall)."""
        for u in list(self.ctx.universals):
            self.ctx.assume(u(key))

    def branch(self, cond):
        """Case split inside a contract (explores both sides)."""
        return self.ctx.branch(cond) if isinstance(cond, z3.ExprRef) else bool(cond)

    def capture(self, owner, name, thunk):
        """Run thunk(); calls of the real function owner.name are intercepted and recorded (not executed)."""
        from .interp import _MISSING
        target = resolve_attr(owner, name)
        calls = []

        def hook(I, fn, args, kwargs, node):
            if fn is target:
                calls.append(([unwrap(a) for a in args], {k: unwrap(v) for k, v in kwargs.items()}))
                return None
            return _MISSING
        self.I.call_hooks.append(hook)
        try:
            thunk()
        finally:
            self.I.call_hooks.remove(hook)
        return calls

    # real functions (same symbols as the library models)
    def log(self, x):
        return unwrap(self.lib.m_log(self.I, wrap(x), None))

    def exp(self, x):
        return unwrap(self.lib.m_exp(self.I, wrap(x), None))

    def sqrt(self, x):
        return unwrap(self.lib.m_sqrt(self.I, wrap(x), None))

    def pow(self, x, y):
        return unwrap(self.lib.power(self.I, wrap(x), wrap(y), None))

    def scalar_array(self, x):
        """A numpy array whose generic element is x (element-wise code is analysed on the generic element)."""
        self.ctx.note_assumption("numpy element-wise arithmetic acts on each element independently (a scalar stands for the generic array element)")
        return x

    def elem(self, a):
        return a

    def real_eq(self, a, b):
        a, b = unwrap(a), unwrap(b)
        a = a.t if isinstance(a, SV) else a
        b = b.t if isinstance(b, SV) else b
        if isinstance(a, float):
            a = to_z3(a)
        if isinstance(b, float):
            b = to_z3(b)
        return a == b

    # ---- arrays (numpy model, see ndarray.py); cells are SV reals carrying a NaN flag
    def array(self, name, shape, nan=True, kind="float"):
        """Symbolic input array: element (i,j..) is the uninterpreted name_v(i,j..) with NaN flag name_n(i,j..)."""
        from .ndarray import NDArr, zint
        shape = tuple(wrap(d) for d in shape)
        sorts = [z3.IntSort()] * len(shape)
        self.inputs[name] = ("array", tuple(zint(d) for d in shape), nan, kind)
        if kind == "bool":
            fb = z3.Function(name + "_b", *sorts, z3.BoolSort())
            return NDArr.fresh(lambda *idx: SV(fb(*[zint(i) for i in idx])), shape, "bool")
        fv = z3.Function(name + "_v", *sorts, z3.RealSort())
        fn = z3.Function(name + "_n", *sorts, z3.BoolSort())
        if nan:
            return NDArr.fresh(lambda *idx: SV(fv(*[zint(i) for i in idx]), fn(*[zint(i) for i in idx])), shape, "float")
        return NDArr.fresh(lambda *idx: SV(fv(*[zint(i) for i in idx])), shape, "float")

    def array_pattern(self, name, pattern):
        """1-D float array with a FIXED missing-value pattern: NaN where pattern[j], a symbolic real elsewhere."""
        from .ndarray import NDArr
        cells = []
        for j, isnan in enumerate(pattern):
            if isnan:
                cells.append(SV(z3.RealVal(0), True))
            else:
                nm = f"{name}_{j}"
                self.inputs[nm] = ("real", None, None, False, False)
                cells.append(SV(z3.Real(nm)))
        return self.lib.numpy.from_nested(self.I, cells, "float", (len(cells),))

    def snapshot(self, arr):
        return arr.copy()

    def shape(self, arr):
        return tuple(unwrap(d) for d in arr.shape)

    def cell(self, arr, *idx):
        return arr.get(*[wrap(i).t if isinstance(wrap(i), SV) else z3.IntVal(i) for i in idx])

    def nan_cell(self):
        return SV(z3.RealVal(0), True)

    def is_cell(self, v):
        return isinstance(v, SV)

    def real_cell(self, x):
        from .ndarray import norm_elem
        return norm_elem(wrap(x), "float")

    def cell_is_nan(self, c):
        from .interp import nan_of
        n = nan_of(c)
        return n if n is not None else False

    def cell_val(self, c):
        return c.t if isinstance(c, SV) else c

    def cell_eq(self, a, b):
        """Same cell content: both NaN, or neither and equal values."""
        from .interp import nan_of
        from .ndarray import norm_elem
        a, b = norm_elem(a, "float"), norm_elem(b, "float")
        na = nan_of(a) if nan_of(a) is not None else z3.BoolVal(False)
        nb = nan_of(b) if nan_of(b) is not None else z3.BoolVal(False)
        return z3.simplify(z3.And(na == nb, z3.Or(na, a.t == b.t)))

    def cell_ite(self, cond, then, other):
        from .ndarray import elem_ite, norm_elem
        if not isinstance(cond, z3.ExprRef):
            return norm_elem(then() if cond else other(), "float")
        return elem_ite(cond, norm_elem(then(), "float"), norm_elem(other(), "float"))

    def same_buffer(self, a, b):
        """Do two arrays share memory?"""
        import numpy as np
        na, nb = isinstance(a, np.ndarray), isinstance(b, np.ndarray)
        if na and nb:
            return bool(np.shares_memory(a, b))        # native arrays carried through the analysed code unchanged
        if na or nb:
            return False
        return a.buf is b.buf

    def is_array(self, v):
        from .ndarray import NDArr
        return isinstance(v, NDArr)

    def str_eq(self, a, b):
        from . import strings as STR
        r = STR.eq(self.I, wrap(a), wrap(b), None) if not (isinstance(a, str) and isinstance(b, str)) else a == b
        return r.t if isinstance(r, SV) else r

    def parse_ints(self, s, template):
        """Match a string against a template with {} holes for integers; returns the integers or None."""
        lits = template.split("{}")
        s = wrap(s)
        if isinstance(s, str):
            import re as _re
            m = _re.fullmatch("(-?\\d+)".join(_re.escape(x) for x in lits), s)
            return [int(g) for g in m.groups()] if m else None
        parts = list(s.parts)
        out = []
        i = 0
        for k, lit in enumerate(lits):
            if lit:
                if i >= len(parts) or parts[i] != lit:
                    return None
                i += 1
            if k < len(lits) - 1:
                if i >= len(parts) or not (isinstance(parts[i], tuple) and parts[i][0] == "int" and parts[i][2] == ""):
                    return None
                out.append(parts[i][1].t)
                i += 1
        return out if i == len(parts) else None

    def string_z3(self, s):
        from . import strings as STR
        return STR.to_z3_string(self.I, wrap(s))


class ConcKit(KitBase):
    """Concrete (native) execution of a contract."""

    def __init__(self, values=None, rng=None):
        self.values = values or {}
        self.rng = rng
        self.inputs = {}
        self.used = {}
        self.ensured = 0
        self.violations = []

    def _draw_int(self, lo, hi):
        lo = -50 if lo is None else lo
        hi = (lo + 100) if hi is None else hi
        return self.rng.randint(lo, hi)

    def int(self, name, lo=None, hi=None, sample=None):
        """`sample` narrows only the random draws of the native cross-check; it is not a precondition."""
        self.inputs[name] = ("int", lo, hi)
        if name in self.values:
            v = int(self.values[name])
        elif self.rng is not None and sample is not None:
            v = self.rng.randint(sample[0], sample[1])
        elif self.rng is not None:
            v = self._draw_int(lo, hi)
        else:
            v = lo if lo is not None else (hi if hi is not None and hi < 0 else 0)
        if (lo is not None and v < lo) or (hi is not None and v > hi):
            raise Skip()
        self.used[name] = v
        return v

    def real(self, name, lo=None, hi=None, nonzero=False, positive=False, sample=None):
        """`sample` only narrows the random draws of the native cross-check (float conditioning); it is not a precondition."""
        self.inputs[name] = ("real",)
        if name in self.values:
            v = self.values[name]
        elif self.rng is not None and sample is not None:
            v = fractions.Fraction(self.rng.randint(int(sample[0] * 1000), int(sample[1] * 1000)), 1000)
        elif self.rng is not None:
            v = fractions.Fraction(self.rng.randint(-40, 40), self.rng.choice([1, 2, 4, 5, 8]))
            if positive:
                v = abs(v) + fractions.Fraction(1, 8)
        else:
            v = fractions.Fraction(1)
        if (lo is not None and v < lo) or (hi is not None and v > hi) or (nonzero and v == 0) or (positive and v <= 0):
            raise Skip()
        self.used[name] = v
        return float(v)

    def bool(self, name):
        self.inputs[name] = ("bool",)
        if name in self.values:
            v = bool(self.values[name])
        elif self.rng is not None:
            v = self.rng.random() < 0.5
        else:
            v = False
        self.used[name] = v
        return v

    def obj(self, cls, **attrs):
        o = cls.__new__(cls)
        for k, v in attrs.items():
            object.__setattr__(o, k, v) if not hasattr(o, "__dict__") else setattr(o, k, v)
        return o

    def atom(self, name):
        return name

    def assume(self, cond):
        if not cond:
            raise Skip()

    def ensure(self, name, cond):
        self.ensured += 1
        if not cond:
            self.violations.append(name)

    def resolve(self, target):
        return resolve_target(target)

    def call(self, fn, *args, **kwargs):
        if isinstance(fn, str):
            fn = self.resolve(fn)
        return fn(*args, **kwargs)

    def method(self, obj, name, *args, **kwargs):
        return getattr(obj, name)(*args, **kwargs)

    def getattr(self, obj, name):
        return getattr(obj, name)

    def attr(self, obj, name):
        return getattr(obj, name)

    def binop(self, sym, a, b):
        from .interp import PYOPS
        return PYOPS[sym](a, b)

    def compare(self, sym, a, b):
        from .interp import PYOPS
        return PYOPS[sym](a, b)

    def truth(self, v):
        return bool(v)

    def builtin(self, name, *args, **kwargs):
        import builtins
        return getattr(builtins, name)(*args, **kwargs)

    def raises(self, exc_cls, thunk, name="must_raise"):
        self.ensured += 1
        try:
            thunk()
        except exc_cls as e:
            return e
        self.violations.append(name)
        return None

    def is_instance(self, v, cls):
        return isinstance(v, cls)

    def cls_of(self, v):
        return type(v)

    def is_none(self, v):
        return v is None

    def items(self, v):
        return list(v)

    def length(self, v):
        return len(v)

    def index(self, v, i):
        return v[i]

    def setitem(self, v, i, value):
        v[i] = value

    def register_source(self, fn, src, label="generated"):
        pass

    def stubbed(self, target, replacement, reason, thunk):
        """Native counterpart: the module-level function (or class attribute) is replaced for the duration of thunk()."""
        import sys
        mod = sys.modules.get(getattr(target, "__module__", None))
        qual = getattr(target, "__qualname__", "")
        owner = mod
        parts = qual.split(".") if qual and "<locals>" not in qual else []
        for pth in parts[:-1]:
            owner = getattr(owner, pth, None)
        name = parts[-1] if parts else None
        import builtins as _bi
        if getattr(_bi, getattr(target, "__name__", ""), None) is target:
            owner, name = _bi, target.__name__          # a builtin (open, ...): module globals fall back to builtins
        if owner is None or name is None or owner.__dict__.get(name) is None:
            return thunk()              # cannot be replaced natively (e.g. a property getter): the real function runs
        orig = owner.__dict__[name]
        if orig is not target and getattr(orig, "__func__", None) is not target:
            return thunk()

        def repl(*a, **k):
            r = replacement(*a, **k)
            return target(*a, **k) if r is DECLINE else r
        # names bound by `from module import target` in other repository modules refer to the same object
        aliases = []
        if owner is mod and mod is not None:
            for m in list(sys.modules.values()):
                if m is None or m is mod or not getattr(m, "__name__", "").startswith(mod.__name__.split(".")[0] + "."):
                    continue
                for n, v in list(getattr(m, "__dict__", {}).items()):
                    if v is target:
                        aliases.append((m, n))
        setattr(owner, name, repl)
        for m, n in aliases:
            setattr(m, n, repl)
        try:
            return thunk()
        finally:
            setattr(owner, name, orig)
            for m, n in aliases:
                setattr(m, n, orig)

    def native_attr(self, obj, name):
        return getattr(obj, name)

    def shared_cells(self, a, b):
        fa, fb = native_footprint(a), native_footprint(b)
        return sorted(f"{fa[k][0]} at {fa[k][1]}" for k in set(fa) & set(fb))

    def callable(self, fn):
        return fn

    def run_prefix(self, *a, **k):
        raise Skip()       # loop contracts are piecewise executions: no native counterpart (whole function is replayed by bounded checks)

    loop_frame = loop_test = loop_body = run_suffix = local = yielded = seq = seq_slice = seq_at = seq_len = array_view = run_prefix

    def bool_cell(self, arr, *idx):
        return bool(arr[tuple(int(i) for i in idx)])

    def scalar(self, v):
        import numpy as np
        return float(np.asarray(v).reshape(-1)[0]) if isinstance(v, np.ndarray) else v

    def expit(self, x):
        import math
        return 1 / (1 + math.exp(-x))

    def with_class_attrs(self, cls, attrs, thunk):
        saved = {k: cls.__dict__.get(k) for k in attrs}
        for k, v in attrs.items():
            setattr(cls, k, v)
        try:
            return thunk()
        finally:
            for k, v in saved.items():
                setattr(cls, k, v)

    def set_variant_data(self, lifted_ds, native_ds, X):
        native_ds._variants[0].data = X

    def lift(self, native):
        return native

    def eval_expr(self, src, env, globals_=None):
        g = dict(globals_ or {})
        g.update(env)
        return eval(src, g)

    def capture(self, owner, name, thunk):
        calls = []
        orig = owner.__dict__[name]

        def recorder(*args, **kwargs):
            calls.append((list(args), kwargs))
            return None
        setattr(owner, name, recorder)
        try:
            thunk()
        finally:
            setattr(owner, name, orig)
        return calls

    def log(self, x):
        import math
        return math.log(x)

    def exp(self, x):
        import math
        return math.exp(x)

    def sqrt(self, x):
        import math
        return math.sqrt(x)

    def pow(self, x, y):
        return x ** y

    def scalar_array(self, x):
        import numpy as np
        return np.array([[x]], dtype=float)

    def elem(self, a):
        return float(a[0, 0]) if hasattr(a, "shape") and a.shape == (1, 1) else float(a)

    def array(self, name, shape, nan=True, kind="float"):
        import numpy as np
        shape = tuple(int(d) for d in shape)
        self.inputs[name] = ("array", shape, nan, kind)
        if name in self.values:
            return np.array(self.values[name], dtype=bool if kind == "bool" else float).reshape(shape)
        n = 1
        for d in shape:
            n *= d
        if kind == "bool":
            vals = [self.rng.random() < 0.5 if self.rng else False for _ in range(n)]
            return np.array(vals, dtype=bool).reshape(shape)
        pool = [float("nan"), -1.0, 0.0, 2.0, 0.5, 3.0] if nan else [-1.0, 1.0, 2.0, 0.5, 3.0]
        vals = [self.rng.choice(pool) if self.rng else 1.0 for _ in range(n)]
        arr = np.array(vals, dtype=float).reshape(shape)
        self.used[name] = arr.tolist()
        return arr

    def derived_array(self, shape, cell_fn):
        import numpy as np, itertools as it
        shape = tuple(int(d) for d in shape)
        out = np.full(shape, np.nan, dtype=float)
        for idx in it.product(*[range(d) for d in shape]):
            out[idx] = cell_fn(*idx)
        return out

    def solve_unique(self, what, cand):
        pass

    def array_cells(self, nested):
        import numpy as np
        return np.array(nested, dtype=float)

    def setattr(self, obj, name, value):
        setattr(obj, name, value)

    def concrete_array(self, arr):
        import numpy as np
        return np.asarray(arr).tolist()

    def array_pattern(self, name, pattern):
        import numpy as np
        vals = []
        for j, isnan in enumerate(pattern):
            if isnan:
                vals.append(float("nan"))
            else:
                vals.append(self.real(f"{name}_{j}"))
        return np.array(vals, dtype=float)

    def snapshot(self, arr):
        return arr.copy()

    def shape(self, arr):
        return tuple(arr.shape)

    def cell(self, arr, *idx):
        return float(arr[tuple(int(i) for i in idx)])

    def nan_cell(self):
        return float("nan")

    def is_cell(self, v):
        return True

    def real_cell(self, x):
        return float(x)

    def cell_is_nan(self, c):
        return c != c

    def cell_val(self, c):
        return c

    def cell_eq(self, a, b):
        a, b = float(a), float(b)
        if a != a or b != b:
            return a != a and b != b
        return self.real_eq(a, b)

    def cell_ite(self, cond, then, other):
        return then() if cond else other()

    def same_buffer(self, a, b):
        import numpy as np
        return np.shares_memory(a, b)

    def is_array(self, v):
        import numpy as np
        return isinstance(v, np.ndarray)

    def real_eq(self, a, b):
        """Floating point: equality up to relative 1e-7 (rounding is outside the real-arithmetic abstraction)."""
        import math
        a, b = float(a), float(b)
        if not (math.isfinite(a) and math.isfinite(b)):
            return a == b               # an infinity equals only the same infinity; NaN equals nothing
        return abs(a - b) <= 1e-7 * max(1.0, abs(a), abs(b))

    def branch(self, cond):
        return bool(cond)

    def instantiate(self, key):
        pass

    def str_eq(self, a, b):
        return a == b

    def parse_ints(self, s, template):
        import re as _re
        lits = template.split("{}")
        m = _re.fullmatch("(-?\\d+)".join(_re.escape(x) for x in lits), s)
        return [int(g) for g in m.groups()] if m else None


def sym_footprint(v, acc=None, seen=None, path=""):
    """Mutable heap cells reachable from an interpreter value: {cell id: (type name, access path)}."""
    import enum as _enum, re as _re, types as _types
    from .ndarray import NDArr
    acc = {} if acc is None else acc
    seen = set() if seen is None else seen
    if id(v) in seen:
        return acc
    if isinstance(v, (SV, SStr, int, float, complex, str, bytes, bool, type(None), type(Ellipsis), _enum.Enum, _re.Pattern, _types.ModuleType, type,
                      _types.BuiltinFunctionType, _types.FunctionType, frozenset, range, slice, _types.MethodType, property, Func, Bound, LibFn)):
        return acc
    seen.add(id(v))
    if isinstance(v, NDArr):
        acc[("buf", id(v.buf))] = ("ndarray", path)
        return acc
    if isinstance(v, tuple):
        for i, x in enumerate(v):
            sym_footprint(x, acc, seen, f"{path}[{i}]")
        return acc
    if isinstance(v, Obj):
        acc[("obj", id(v))] = (v.cls.__name__, path)
        for k, x in v.attrs.items():
            sym_footprint(x, acc, seen, f"{path}.{k}")
        if v.store is not None:
            for k, x in v.store.items():
                sym_footprint(x, acc, seen, f"{path}[{k!r}]")
        return acc
    if isinstance(v, (list, set)):
        acc[("cell", id(v))] = (type(v).__name__, path)
        for i, x in enumerate(v):
            sym_footprint(x, acc, seen, f"{path}[{i}]")
        return acc
    if isinstance(v, dict):
        acc[("cell", id(v))] = ("dict", path)
        for k, x in v.items():
            sym_footprint(x, acc, seen, f"{path}[{k!r}]")
        return acc
    # an un-lifted native object (e.g. a native repository instance that was never touched): identity is its id
    acc[("native", id(v))] = (type(v).__name__, path)
    return acc


def native_footprint(v, acc=None, seen=None, path=""):
    import enum as _enum, re as _re, types as _types
    import numpy as np
    acc = {} if acc is None else acc
    seen = set() if seen is None else seen
    if id(v) in seen or isinstance(v, (int, float, complex, str, bytes, bool, type(None), type(Ellipsis), _enum.Enum, _re.Pattern, _types.ModuleType, type,
                                       _types.BuiltinFunctionType, _types.FunctionType, frozenset, range, slice, _types.MethodType, property, np.generic)):
        return acc
    seen.add(id(v))
    if isinstance(v, np.ndarray):
        acc[("buf", id(v.base if v.base is not None else v))] = ("ndarray", path)
        return acc
    if isinstance(v, tuple):
        for i, x in enumerate(v):
            native_footprint(x, acc, seen, f"{path}[{i}]")
        return acc
    acc[("cell", id(v))] = (type(v).__name__, path)
    if isinstance(v, (list, set)):
        for i, x in enumerate(v):
            native_footprint(x, acc, seen, f"{path}[{i}]")
    elif isinstance(v, dict):
        for k, x in v.items():
            native_footprint(x, acc, seen, f"{path}[{k!r}]")
        if hasattr(v, "__dict__"):
            for k, x in vars(v).items():
                native_footprint(x, acc, seen, f"{path}.{k}")
    else:
        for k in type(v).__mro__:
            sl = getattr(k, "__slots__", ())
            for s_ in (sl if isinstance(sl, (tuple, list)) else ()):
                if hasattr(v, s_):
                    native_footprint(getattr(v, s_), acc, seen, f"{path}.{s_}")
        if hasattr(v, "__dict__"):
            for k, x in vars(v).items():
                native_footprint(x, acc, seen, f"{path}.{k}")
    return acc


def resolve_attr(owner, name):
    raw = owner.__dict__[name]
    if isinstance(raw, (staticmethod, classmethod)):
        return raw.__func__
    return raw


def resolve_target(target):
    """'pkg.module:Qual.name' -> native object (functions are returned raw, unbound)."""
    import importlib
    modname, _, qual = target.partition(":")
    obj = importlib.import_module(modname)
    parts = qual.split(".") if qual else []
    for i, p in enumerate(parts):
        if isinstance(obj, type):
            raw = None
            for k in obj.__mro__:
                if p in k.__dict__:
                    raw = k.__dict__[p]
                    break
            if raw is None:
                raise AttributeError(f"{target}: no attribute {p}")
            if i == len(parts) - 1:
                if isinstance(raw, (staticmethod, classmethod)):
                    return raw.__func__
                if isinstance(raw, property):
                    return raw.fget
                return raw
            obj = raw
        else:
            obj = getattr(obj, p)
    return obj
