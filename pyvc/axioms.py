"""Ground instantiation of the axioms of the uninterpreted real functions (exp, log, sqrt, pow).

z3 diverges on the quantified forms, so the axioms are instantiated over the applications that occur in
the query (one saturation round adds the product/sum terms that the instances themselves introduce).
These axioms are mathematical facts about the real functions; that numpy's float implementations follow
them up to rounding is the 'floats are reals' assumption.
"""
from __future__ import annotations
import z3
from .libmodels import F_LOG, F_EXP, F_SQRT, F_POW


def _apps(fs, decl):
    out = {}
    seen = set()
    stack = list(fs)
    while stack:
        e = stack.pop()
        if e.get_id() in seen:
            continue
        seen.add(e.get_id())
        if z3.is_app(e):
            if e.decl().eq(decl):
                out[e.get_id()] = e
            stack.extend(e.children())
        elif z3.is_quantifier(e):
            stack.append(e.body())
    return list(out.values())


def ground_axioms(formulas, rounds=1):
    axioms = []
    fs = list(formulas)
    for _ in range(rounds + 1):
        new = []
        exps = _apps(fs + axioms, F_EXP)
        logs = _apps(fs + axioms, F_LOG)
        sqrts = _apps(fs + axioms, F_SQRT)
        pows = _apps(fs + axioms, F_POW)
        for e in exps:
            a = e.arg(0)
            new += [e > 0, F_LOG(e) == a]
        for l in logs:
            a = l.arg(0)
            new += [z3.Implies(a > 0, F_EXP(l) == a), z3.Implies(a == 1, l == 0)]
        for i, e1 in enumerate(exps):
            for e2 in exps[i + 1:]:
                a, b = e1.arg(0), e2.arg(0)
                new += [z3.Implies(a == b, e1 == e2), (a < b) == (e1 < e2)]
        for i, l1 in enumerate(logs):
            for l2 in logs[i:]:
                a, b = l1.arg(0), l2.arg(0)
                new += [z3.Implies(z3.And(a > 0, b > 0), F_LOG(a * b) == l1 + l2)]
                if l1 is not l2:
                    new += [z3.Implies(z3.And(a > 0, b > 0), F_LOG(a / b) == l1 - l2),
                            z3.Implies(z3.And(a > 0, b > 0), F_LOG(b / a) == l2 - l1),
                            z3.Implies(z3.And(a > 0, b > 0), (a < b) == (l1 < l2))]
        for s in sqrts:
            a = s.arg(0)
            new += [z3.Implies(a >= 0, z3.And(s >= 0, s * s == a))]
        for p in pows:
            a, b = p.arg(0), p.arg(1)
            new += [z3.Implies(b == 1, p == a), z3.Implies(b == 0, p == 1), z3.Implies(b == 2, p == a * a),
                    z3.Implies(a > 0, z3.And(p > 0, F_LOG(p) == b * F_LOG(a))),
                    z3.Implies(b == -1, p * a == 1)]
        # dedupe
        have = {x.get_id() for x in axioms}
        added = False
        for x in new:
            if x.get_id() not in have:
                axioms.append(x)
                have.add(x.get_id())
                added = True
        if not added:
            break
    return axioms


def uses_real_functions(formulas):
    for d in (F_EXP, F_LOG, F_SQRT, F_POW):
        if _apps(formulas, d):
            return True
    return False
