"""Ground instantiation of the axioms of the uninterpreted real functions (exp, log, sqrt, pow).

z3 diverges on the quantified forms, so the axioms are instantiated over the applications that occur in
the query (one saturation round adds the product/sum terms that the instances themselves introduce).
These axioms are mathematical facts about the real functions; that numpy's float implementations follow
them up to rounding is the 'floats are reals' assumption.
"""
from __future__ import annotations
import z3
from .libmodels import F_LOG, F_EXP, F_SQRT, F_POW


def _apps(fs, decl):
    out = {}
    seen = set()
    stack = list(fs)
    while stack:
        e = stack.pop()
        if e.get_id() in seen:
            continue
        seen.add(e.get_id())
        if z3.is_app(e):
            if e.decl().eq(decl):
                out[e.get_id()] = e
            stack.extend(e.children())
        elif z3.is_quantifier(e):
            stack.append(e.body())
    return list(out.values())


def _is(e, kind):
    return z3.is_app(e) and e.decl().kind() == kind


def _neg_arg(e):
    """u if e is syntactically -u / (-1)*u, else None."""
    if _is(e, z3.Z3_OP_UMINUS):
        return e.arg(0)
    if _is(e, z3.Z3_OP_MUL) and e.num_args() == 2:
        a, b = e.arg(0), e.arg(1)
        if z3.is_rational_value(a) and a.numerator_as_long() == -1 and a.denominator_as_long() == 1:
            return b
        if z3.is_rational_value(b) and b.numerator_as_long() == -1 and b.denominator_as_long() == 1:
            return a
    return None


def ground_axioms(formulas, rounds=3, pairwise=False):
    """Instances driven by the syntactic shape of the arguments (sums inside exp, products inside log)."""
    axioms = []
    fs = list(formulas)
    have = set()
    for _ in range(rounds + 1):
        new = []
        exps = _apps(fs + axioms, F_EXP)
        logs = _apps(fs + axioms, F_LOG)
        sqrts = _apps(fs + axioms, F_SQRT)
        pows = _apps(fs + axioms, F_POW)
        for f_, apps in ((F_EXP, exps), (F_LOG, logs)):
            for e in apps:
                a = e.arg(0)
                if _is(a, z3.Z3_OP_ITE):      # lift the function through a conditional argument
                    new.append(e == z3.If(a.arg(0), f_(a.arg(1)), f_(a.arg(2))))
        for e in exps:
            a = e.arg(0)
            new += [e > 0, F_LOG(e) == a]
            if _is(a, z3.Z3_OP_ADD):
                prod = None
                for k in range(a.num_args()):
                    term = a.arg(k)
                    neg = _neg_arg(term)
                    factor = (1 / F_EXP(neg)) if neg is not None else F_EXP(term)
                    prod = factor if prod is None else prod * factor
                new.append(e == prod)
            elif _is(a, z3.Z3_OP_SUB) and a.num_args() == 2:
                new.append(e == F_EXP(a.arg(0)) / F_EXP(a.arg(1)))
            else:
                neg = _neg_arg(a)
                if neg is not None:
                    new.append(e * F_EXP(neg) == 1)
        for l in logs:
            a = l.arg(0)
            new += [z3.Implies(a > 0, F_EXP(l) == a), z3.Implies(a == 1, l == 0)]
            if _is(a, z3.Z3_OP_MUL) and a.num_args() == 2:
                u, v = a.arg(0), a.arg(1)
                new += [z3.Implies(z3.And(u > 0, v > 0), l == F_LOG(u) + F_LOG(v))]
            if _is(a, z3.Z3_OP_DIV) and a.num_args() == 2:
                u, v = a.arg(0), a.arg(1)
                new += [z3.Implies(z3.And(u > 0, v > 0), l == F_LOG(u) - F_LOG(v))]
        if pairwise:
            for i, e1 in enumerate(exps):
                for e2 in exps[i + 1:]:
                    a, b = e1.arg(0), e2.arg(0)
                    new += [(a < b) == (e1 < e2)]
            for i, l1 in enumerate(logs):
                for l2 in logs[i + 1:]:
                    a, b = l1.arg(0), l2.arg(0)
                    new += [z3.Implies(z3.And(a > 0, b > 0), (a < b) == (l1 < l2))]
        for s in sqrts:
            a = s.arg(0)
            new += [z3.Implies(a >= 0, z3.And(s >= 0, s * s == a))]
        for p in pows:
            a, b = p.arg(0), p.arg(1)
            new += [z3.Implies(b == 1, p == a), z3.Implies(b == 0, p == 1), z3.Implies(b == 2, p == a * a),
                    z3.Implies(a > 0, z3.And(p > 0, F_LOG(p) == b * F_LOG(a))),
                    z3.Implies(b == -1, p * a == 1), z3.Implies(b == 3, p == a * a * a)]
        added = False
        for x in new:
            if x.get_id() not in have:
                axioms.append(x)
                have.add(x.get_id())
                added = True
        if not added:
            break
    return axioms


def uses_real_functions(formulas):
    for d in (F_EXP, F_LOG, F_SQRT, F_POW):
        if _apps(formulas, d):
            return True
    return False
