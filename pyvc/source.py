"""Locate the AST of a native function of the repository (the code that runs).

A native function object `f` imported from /repo/src is mapped to the `ast.FunctionDef`/`ast.Lambda`
whose position equals `f.__code__.co_firstlineno` in `f.__code__.co_filename`.  The file is re-read and
re-parsed on every run; the text that is verified is therefore the text CPython compiled (the module
was imported from the same file in the same process).  A staleness guard compares the sha256 of the file
at parse time with the bytes the import system would load now.
"""
from __future__ import annotations
import ast, hashlib, os, types, inspect, linecache

REPO_SRC = os.path.realpath(os.environ.get("PYVC_REPO_SRC", "/repo/src"))

_file_cache = {}
_used = {}     # (filename, lineno) -> record for evidence


class FileInfo:
    def __init__(self, filename):
        self.filename = filename
        with open(filename, "rb") as fh:
            raw = fh.read()
        self.sha256 = hashlib.sha256(raw).hexdigest()
        self.text = raw.decode("utf-8")
        self.lines = self.text.splitlines()
        self.tree = ast.parse(self.text, filename=filename)
        self.by_line = {}
        self.parents = {}
        for parent in ast.walk(self.tree):
            for child in ast.iter_child_nodes(parent):
                self.parents[child] = parent
        for node in ast.walk(self.tree):
            if isinstance(node, (ast.FunctionDef, ast.AsyncFunctionDef, ast.Lambda, ast.ClassDef,
                                 ast.GeneratorExp, ast.ListComp, ast.DictComp, ast.SetComp)):
                self.by_line.setdefault(node.lineno, []).append(node)
                for d in getattr(node, "decorator_list", []):
                    self.by_line.setdefault(d.lineno, []).append(node)


HARNESS_ROOT = os.path.join(os.path.dirname(os.path.dirname(os.path.abspath(__file__))), "contracts")


def is_repo_file(filename):
    """Source files whose code the engine interprets: the repository sources, and helper classes/functions defined
    in the contract files themselves (test doubles such as a minimal has-variants holder)."""
    try:
        rp = os.path.realpath(filename)
        return rp.startswith(REPO_SRC + os.sep) or rp.startswith(HARNESS_ROOT + os.sep)
    except Exception:
        return False


def file_info(filename):
    filename = os.path.realpath(filename)
    fi = _file_cache.get(filename)
    if fi is None:
        fi = _file_cache[filename] = FileInfo(filename)
    return fi


def is_repo_function(f):
    code = getattr(f, "__code__", None)
    if not isinstance(f, types.FunctionType) or code is None:
        return False
    return is_repo_file(code.co_filename) or is_generated_repo_function(f) or f in REGISTERED_SOURCES


def _code_key(node):
    return ast.dump(node)


def find_node_for_code(code):
    """AST node (FunctionDef or Lambda) compiled into `code`."""
    fi = file_info(code.co_filename)
    cands = fi.by_line.get(code.co_firstlineno, [])
    want_lambda = code.co_name == "<lambda>"
    sel = []
    for n in cands:
        if want_lambda and isinstance(n, ast.Lambda):
            sel.append(n)
        elif not want_lambda and isinstance(n, (ast.FunctionDef, ast.AsyncFunctionDef)) and n.name == code.co_name:
            sel.append(n)
    uniq = []
    for n in sel:
        if not any(n is u for u in uniq):
            uniq.append(n)
    if len(uniq) == 1:
        return fi, uniq[0]
    if len(uniq) > 1:
        # several lambdas on one line: disambiguate by argument names + compiled bytecode
        for n in uniq:
            try:
                expr = ast.Expression(body=n)
                ast.fix_missing_locations(expr)
                c = compile(expr, code.co_filename, "eval")
                inner = [k for k in c.co_consts if isinstance(k, types.CodeType)]
                if inner and inner[0].co_code == code.co_code and inner[0].co_consts == code.co_consts \
                        and inner[0].co_names == code.co_names and inner[0].co_varnames == code.co_varnames:
                    return fi, n
            except Exception:
                continue
    raise LookupError(f"cannot locate AST for {code.co_name} at {code.co_filename}:{code.co_firstlineno}")


def segment(fi, node):
    lo = min([node.lineno] + [d.lineno for d in getattr(node, "decorator_list", [])])
    hi = node.end_lineno
    return lo, hi, "\n".join(fi.lines[lo - 1:hi])


def record_use(fi, node, qualname):
    key = (fi.filename, node.lineno, getattr(node, "col_offset", 0))
    if key in _used:
        return
    lo, hi, text = segment(fi, node)
    _used[key] = {
        "qualname": qualname,
        "file": os.path.relpath(fi.filename, os.path.dirname(REPO_SRC)) if fi.filename.startswith(REPO_SRC) else "verif:" + os.path.basename(fi.filename),
        "lines": [lo, hi],
        "sha256": hashlib.sha256(text.encode()).hexdigest()[:16],
    }


def used_functions():
    return sorted(_used.values(), key=lambda r: (r["file"], r["lines"][0]))


def reset_used():
    _used.clear()


def enclosing_class_name(fi, node):
    p = fi.parents.get(node)
    while p is not None:
        if isinstance(p, ast.ClassDef):
            return p.name
        if isinstance(p, (ast.FunctionDef, ast.Lambda)):
            return None
        p = fi.parents.get(p)
    return None


# ------------------------------------------------------------------------------------- exec-generated functions
_generated_cache = {}


class GeneratedInfo:
    """FileInfo look-alike for a function whose source text was produced at import time by exec()."""
    def __init__(self, filename, text):
        self.filename = filename
        self.text = text
        self.lines = text.splitlines()
        self.sha256 = hashlib.sha256(text.encode()).hexdigest()
        self.tree = ast.parse(text)
        self.parents = {}
        for parent in ast.walk(self.tree):
            for child in ast.iter_child_nodes(parent):
                self.parents[child] = parent


def _code_signature(code):
    consts = tuple(c for c in code.co_consts if not isinstance(c, types.CodeType))
    return (code.co_name, code.co_code, consts, code.co_names, code.co_varnames, code.co_argcount, code.co_kwonlyargcount)


def generated_sources(module):
    """Source strings that the module passes to exec() at import: obtained by re-running the module's own
    source in a scratch namespace with exec() wrapped by a recorder (nothing is copied by hand)."""
    name = module.__name__
    if name in _generated_cache:
        return _generated_cache[name]
    import builtins
    recorded = []
    real_exec = builtins.exec

    def recording_exec(src, *args):
        if isinstance(src, str):
            recorded.append(src)
        import sys
        if not args:
            frame = sys._getframe(1)
            return real_exec(src, frame.f_globals, frame.f_locals)
        return real_exec(src, *args)
    bdict = dict(vars(builtins))
    bdict["exec"] = recording_exec
    ns = {"__name__": name, "__package__": module.__package__, "__file__": module.__file__, "__builtins__": bdict,
          "__spec__": getattr(module, "__spec__", None)}
    with open(module.__file__) as fh:
        text = fh.read()
    import warnings
    with warnings.catch_warnings():
        warnings.simplefilter("ignore")
        real_exec(compile(text, module.__file__, "exec"), ns)
    _generated_cache[name] = recorded
    return recorded


def find_generated(fn):
    """(GeneratedInfo, FunctionDef) for a function compiled from an exec()-ed string in a repository module.
    The match is by bytecode equality with the function object that actually runs."""
    import sys, textwrap
    mod = sys.modules.get(fn.__module__)
    if mod is None or not is_repo_file(getattr(mod, "__file__", "") or ""):
        raise LookupError(f"generated function {fn.__qualname__} does not belong to a repository module")
    want = _code_signature(fn.__code__)
    for k, src in enumerate(generated_sources(mod)):
        try:
            tree_src = textwrap.dedent(src)
            tree = ast.parse(tree_src)
            top = compile(tree_src, "<string>", "exec")
        except SyntaxError:
            continue
        codes = {}
        stack = [top]
        while stack:
            c = stack.pop()
            for const in c.co_consts:
                if isinstance(const, types.CodeType):
                    codes.setdefault(const.co_name, []).append(const)
                    stack.append(const)
        for cand in codes.get(fn.__code__.co_name, []):
            if _code_signature(cand) == want:
                gi = GeneratedInfo(f"{mod.__file__}#exec[{k}]:{fn.__code__.co_name}", tree_src)
                for node in ast.walk(gi.tree):
                    if isinstance(node, ast.FunctionDef) and node.name == fn.__code__.co_name and node.lineno == cand.co_firstlineno:
                        return gi, node
                lambdas = [node for node in ast.walk(gi.tree) if isinstance(node, ast.Lambda)]
                if fn.__code__.co_name == "<lambda>" and len(lambdas) == 1:
                    return gi, lambdas[0]
    raise LookupError(f"no exec()-ed source in {mod.__name__} compiles to the running code of {fn.__qualname__}")


def is_generated_repo_function(f):
    import sys
    if not isinstance(f, types.FunctionType) or f.__code__.co_filename != "<string>":
        return False
    mod = sys.modules.get(getattr(f, "__module__", None) or "")
    return mod is not None and is_repo_file(getattr(mod, "__file__", "") or "")


REGISTERED_SOURCES = {}


def register_generated(fn, src, label):
    """Associate a function produced by exec(src) at run time (e.g. makers.make_function) with its source text;
    accepted only if compiling src yields exactly the bytecode of fn."""
    import textwrap
    text = textwrap.dedent(src)
    top = compile(text, "<string>", "exec")
    want = _code_signature(fn.__code__)
    stack = [top]
    while stack:
        c = stack.pop()
        for const in c.co_consts:
            if isinstance(const, types.CodeType):
                if _code_signature(const) == want:
                    gi = GeneratedInfo(f"{label}:{fn.__code__.co_name}", text)
                    for node in ast.walk(gi.tree):
                        if isinstance(node, ast.FunctionDef) and node.name == fn.__code__.co_name:
                            REGISTERED_SOURCES[fn] = (gi, node)
                            return
                stack.append(const)
    raise LookupError(f"source text does not compile to the running code of {fn}")


def is_registered(f):
    return f in REGISTERED_SOURCES
