"""Locate the AST of a native function of the repository (the code that runs).

A native function object `f` imported from /repo/src is mapped to the `ast.FunctionDef`/`ast.Lambda`
whose position equals `f.__code__.co_firstlineno` in `f.__code__.co_filename`.  The file is re-read and
re-parsed on every run; the text that is verified is therefore the text CPython compiled (the module
was imported from the same file in the same process).  A staleness guard compares the sha256 of the file
at parse time with the bytes the import system would load now.
"""
from __future__ import annotations
import ast, hashlib, os, types, inspect, linecache

REPO_SRC = os.path.realpath(os.environ.get("PYVC_REPO_SRC", "/repo/src"))

_file_cache = {}
_used = {}     # (filename, lineno) -> record for evidence


class FileInfo:
    def __init__(self, filename):
        self.filename = filename
        with open(filename, "rb") as fh:
            raw = fh.read()
        self.sha256 = hashlib.sha256(raw).hexdigest()
        self.text = raw.decode("utf-8")
        self.lines = self.text.splitlines()
        self.tree = ast.parse(self.text, filename=filename)
        self.by_line = {}
        self.parents = {}
        for parent in ast.walk(self.tree):
            for child in ast.iter_child_nodes(parent):
                self.parents[child] = parent
        for node in ast.walk(self.tree):
            if isinstance(node, (ast.FunctionDef, ast.AsyncFunctionDef, ast.Lambda, ast.ClassDef,
                                 ast.GeneratorExp, ast.ListComp, ast.DictComp, ast.SetComp)):
                self.by_line.setdefault(node.lineno, []).append(node)
                for d in getattr(node, "decorator_list", []):
                    self.by_line.setdefault(d.lineno, []).append(node)


def is_repo_file(filename):
    try:
        return os.path.realpath(filename).startswith(REPO_SRC + os.sep)
    except Exception:
        return False


def file_info(filename):
    filename = os.path.realpath(filename)
    fi = _file_cache.get(filename)
    if fi is None:
        fi = _file_cache[filename] = FileInfo(filename)
    return fi


def is_repo_function(f):
    code = getattr(f, "__code__", None)
    return isinstance(f, types.FunctionType) and code is not None and is_repo_file(code.co_filename)


def _code_key(node):
    return ast.dump(node)


def find_node_for_code(code):
    """AST node (FunctionDef or Lambda) compiled into `code`."""
    fi = file_info(code.co_filename)
    cands = fi.by_line.get(code.co_firstlineno, [])
    want_lambda = code.co_name == "<lambda>"
    sel = []
    for n in cands:
        if want_lambda and isinstance(n, ast.Lambda):
            sel.append(n)
        elif not want_lambda and isinstance(n, (ast.FunctionDef, ast.AsyncFunctionDef)) and n.name == code.co_name:
            sel.append(n)
    uniq = []
    for n in sel:
        if not any(n is u for u in uniq):
            uniq.append(n)
    if len(uniq) == 1:
        return fi, uniq[0]
    if len(uniq) > 1:
        # several lambdas on one line: disambiguate by argument names + compiled bytecode
        for n in uniq:
            try:
                expr = ast.Expression(body=n)
                ast.fix_missing_locations(expr)
                c = compile(expr, code.co_filename, "eval")
                inner = [k for k in c.co_consts if isinstance(k, types.CodeType)]
                if inner and inner[0].co_code == code.co_code and inner[0].co_consts == code.co_consts \
                        and inner[0].co_names == code.co_names and inner[0].co_varnames == code.co_varnames:
                    return fi, n
            except Exception:
                continue
    raise LookupError(f"cannot locate AST for {code.co_name} at {code.co_filename}:{code.co_firstlineno}")


def segment(fi, node):
    lo = min([node.lineno] + [d.lineno for d in getattr(node, "decorator_list", [])])
    hi = node.end_lineno
    return lo, hi, "\n".join(fi.lines[lo - 1:hi])


def record_use(fi, node, qualname):
    key = (fi.filename, node.lineno, getattr(node, "col_offset", 0))
    if key in _used:
        return
    lo, hi, text = segment(fi, node)
    _used[key] = {
        "qualname": qualname,
        "file": os.path.relpath(fi.filename, os.path.dirname(REPO_SRC)),
        "lines": [lo, hi],
        "sha256": hashlib.sha256(text.encode()).hexdigest()[:16],
    }


def used_functions():
    return sorted(_used.values(), key=lambda r: (r["file"], r["lines"][0]))


def reset_used():
    _used.clear()


def enclosing_class_name(fi, node):
    p = fi.parents.get(node)
    while p is not None:
        if isinstance(p, ast.ClassDef):
            return p.name
        if isinstance(p, (ast.FunctionDef, ast.Lambda)):
            return None
        p = fi.parents.get(p)
    return None
