"""Models (assumed contracts) of builtins and library functions used by the analysed code.

Everything in this file is TRUSTED: it states what CPython / the standard library / numpy do.  Each model
that is not a plain re-use of the native function records an assumption text in the context; the
differential validation of these models against the real library lives in pyvc/libcheck.py.
"""
from __future__ import annotations
import builtins, datetime, calendar, fractions, copy, enum, functools, itertools, math, numbers, operator, re, types, inspect
import z3
from .values import *
from .interp import _MISSING, to_z3, num_pair, mk_ite, tuple_iter, Frame, nan_of, any_nan
from . import strings as STR
from . import source as S

# ----------------------------------------------------------------------------- Gregorian calendar theory
_DBM = [0, 0, 31, 59, 90, 120, 151, 181, 212, 243, 273, 304, 334]
_DIM = [0, 31, 28, 31, 30, 31, 30, 31, 31, 30, 31, 30, 31]
MAX_ORD = 3652059


def z_is_leap(y):
    return z3.Or(z3.And(y % 4 == 0, y % 100 != 0), y % 400 == 0)


def z_days_before_year(y):
    y1 = y - 1
    return y1 * 365 + y1 / 4 - y1 / 100 + y1 / 400


def z_days_in_month(y, m):
    acc = z3.IntVal(31)
    for k in range(11, 0, -1):
        val = z3.If(z_is_leap(y), z3.IntVal(29), z3.IntVal(28)) if k == 2 else z3.IntVal(_DIM[k])
        acc = z3.If(m == k, val, acc)
    return acc


def z_days_before_month(y, m):
    acc = z3.IntVal(_DBM[12])
    for k in range(11, 0, -1):
        acc = z3.If(m == k, z3.IntVal(_DBM[k]), acc)
    return acc + z3.If(z3.And(m > 2, z_is_leap(y)), 1, 0)


def z_ymd2ord(y, m, d):
    return z_days_before_year(y) + z_days_before_month(y, m) + d


def z_valid_date(y, m, d):
    return z3.And(y >= 1, y <= 9999, m >= 1, m <= 12, d >= 1, d <= z_days_in_month(y, m))


def z_lex_le(a, b):
    (y1, m1, d1), (y2, m2, d2) = a, b
    return z3.Or(y1 < y2, z3.And(y1 == y2, z3.Or(m1 < m2, z3.And(m1 == m2, d1 <= d2))))


A_DATE_MONO = "the Gregorian ordinal is strictly increasing in the lexicographic order of valid (year, month, day) triples (validated against datetime for all consecutive ordinals in thorough runs)"
A_DATE = "datetime.date(y,m,d).toordinal() is the proleptic Gregorian formula; date.fromordinal is its inverse on 1..3652059; invalid (y,m,d) raise ValueError (validated against datetime)"
A_MONTHRANGE = "calendar.monthrange(y,m)[1] is the Gregorian month length (validated against calendar)"
A_RANGE = "builtin range(a,b,s): length max(0, ceil((b-a)/s)), item i is a+i*s (validated against CPython)"
A_HASH = "hash() is a deterministic function of the value (uninterpreted); hash of a tuple is a function of the element hashes"
A_NATIVE = "library call on concrete arguments evaluated by CPython: "
A_REAL = "float/numpy.float64 arithmetic is real arithmetic; exp/log/sqrt/pow are uninterpreted with ground-instantiated axioms"
A_DEEPCOPY = "copy.deepcopy returns a structurally equal object graph sharing no mutable object with its argument"

_HASH_INT = z3.Function("hash_int", z3.IntSort(), z3.IntSort())
_HASH_T2 = z3.Function("hash_tuple2", z3.IntSort(), z3.IntSort(), z3.IntSort())
_HASH_T3 = z3.Function("hash_tuple3", z3.IntSort(), z3.IntSort(), z3.IntSort(), z3.IntSort())

R = z3.RealSort()
F_LOG = z3.Function("log", R, R)
F_EXP = z3.Function("exp", R, R)
F_SQRT = z3.Function("sqrt", R, R)
F_POW = z3.Function("pow", R, R, R)
F_EXPIT = z3.Function("expit", R, R)
F_NCDF = z3.Function("norm_cdf", R, R)
F_NPDF = z3.Function("norm_pdf", R, R)
F_WEEKDAY = z3.Function("weekday", z3.IntSort(), z3.IntSort(), z3.IntSort())


fractions_Fraction = fractions.Fraction


def deep_concrete(v, depth=0):
    from .ndarray import NDArr
    from .interp import LazyGen
    if isinstance(v, (SV, Obj, SStr, SSeq, SRange, LibObj, Func, Bound, ExcVal, tuple_iter, NDArr, LazyGen)):
        return False
    if depth > 6:
        return False
    if isinstance(v, (tuple, list, set, frozenset)):
        return all(deep_concrete(x, depth + 1) for x in v)
    if isinstance(v, dict):
        return all(deep_concrete(k, depth + 1) and deep_concrete(x, depth + 1) for k, x in v.items())
    return True


def real_of(v):
    if isinstance(v, fractions_Fraction):
        return z3.RealVal(str(v))
    t = to_z3(v)
    if z3.is_int(t):
        t = z3.ToReal(t)
    if z3.is_bool(t):
        t = z3.If(t, z3.RealVal(1), z3.RealVal(0))
    return t


class Lib:
    def __init__(self):
        self.call_table = {}
        self.method_table = {}
        self.construct_table = {}
        self.extra_getattr = []
        self.extra_call = []
        self._install()
        from .ndarray import Numpy
        Numpy(self)

    # ------------------------------------------------------------------ registration
    def _install(self):
        T = self.call_table
        for name in ("int", "float", "str", "len", "tuple", "list", "range", "isinstance", "issubclass",
                     "hasattr", "getattr", "setattr", "type", "min", "max", "sum", "abs", "enumerate", "zip",
                     "sorted", "any", "all", "next", "iter", "hash", "repr", "reversed", "bool", "callable",
                     "map", "print", "dict", "set", "round", "id", "filter", "divmod", "format", "frozenset",
                     "slice"):
            T[getattr(builtins, name)] = getattr(self, "b_" + name)
        T[builtins.exec] = self.b_exec
        import statistics
        T[statistics.mean] = self.c_stat_mean
        self.construct_table[operator.itemgetter] = lambda I, a, k, n: LibFn(
            lambda I2, a2, k2, n2, keys=list(a): I2.getitem(a2[0], keys[0], n2) if len(keys) == 1 else tuple(I2.getitem(a2[0], kk, n2) for kk in keys), "operator.itemgetter")
        T[datetime.date] = self.c_date
        T[datetime.date.fromordinal] = self.c_fromordinal
        T[calendar.monthrange] = self.c_monthrange
        T[copy.deepcopy] = self.c_deepcopy
        T[copy.copy] = self.c_copy
        T[functools.wraps] = lambda I, a, k, n: LibFn(lambda I2, a2, k2, n2: a2[0], "functools.wraps(...)")
        T[functools.partial] = lambda I, a, k, n: LibFn(
            lambda I2, a2, k2, n2, f=a[0], pa=list(a[1:]), pk=dict(k): I2.call(f, pa + list(a2), {**pk, **k2}, n2), "functools.partial")
        T[itertools.product] = self.c_product
        T[itertools.groupby] = self.it_groupby
        T[itertools.chain] = lambda I, a, k, n: tuple_iter([x for it in a for x in I.iterate(it, n)])
        T[itertools.chain.from_iterable] = lambda I, a, k, n: tuple_iter([x for it in I.iterate(a[0], n) for x in I.iterate(it, n)])
        T[itertools.accumulate] = self.c_accumulate
        T[itertools.repeat] = self.c_repeat
        for opname, sym in (("add", "+"), ("sub", "-"), ("mul", "*"), ("truediv", "/"), ("floordiv", "//"), ("mod", "%"),
                            ("pow", "**"), ("gt", ">"), ("lt", "<"), ("ge", ">="), ("le", "<="), ("eq", "=="), ("ne", "!=")):
            T[getattr(operator, opname)] = (lambda I, a, k, n, sym=sym: I.compare(sym, a[0], a[1], n) if sym in ("==", "!=", "<", "<=", ">", ">=")
                                            else I.binop(sym, a[0], a[1], n))
        T[operator.neg] = lambda I, a, k, n: I.unary(__import__("ast").USub(), a[0], n)
        T[math.log] = lambda I, a, k, n: self.m_log(I, a[0], n)
        T[math.exp] = lambda I, a, k, n: self.m_exp(I, a[0], n)
        T[math.sqrt] = lambda I, a, k, n: self.m_sqrt(I, a[0], n)
        try:
            import scipy.special
            T[scipy.special.expit] = lambda I, a, k, n: self.m_expit(I, a[0], n)
        except ImportError:
            pass
        try:
            import numpy as np
            T[np.log] = lambda I, a, k, n: self.m_log(I, a[0], n)
            T[np.exp] = lambda I, a, k, n: self.m_exp(I, a[0], n)
            T[np.sqrt] = lambda I, a, k, n: self.m_sqrt(I, a[0], n)
            T[np.abs] = lambda I, a, k, n: self.b_abs(I, a, k, n)
            T[np.maximum] = lambda I, a, k, n: self.m_minmax(I, a[0], a[1], True, n)
            T[np.minimum] = lambda I, a, k, n: self.m_minmax(I, a[0], a[1], False, n)
            T[np.float64] = lambda I, a, k, n: (self.numpy.astype(I, a[0], np.float64, n) if type(a[0]).__name__ == "NDArr" and not all(isinstance(d, int) and d == 1 for d in a[0].shape)
                                            else self.b_float(I, a, k, n))
            T[np.isnan] = lambda I, a, k, n: self.m_isnan(I, a[0], n)
            T[np.sign] = lambda I, a, k, n: self.m_sign(I, a[0], n)
            T[np.power] = lambda I, a, k, n: self.power(I, a[0], a[1], n)
        except ImportError:
            pass

    # ------------------------------------------------------------------ generic protocol hooks
    def getattr(self, I, obj, name, node):
        for h in self.extra_getattr:
            r = h(I, obj, name, node)
            if r is not _MISSING:
                return r
        if isinstance(obj, SStr):
            m = STR.method(I, obj, name, node)
            return LibFn(lambda I2, a, k, n: m(a, k), f"str.{name}")
        if isinstance(obj, LibObj):
            if obj.kind == "date":
                if name in ("year", "month", "day"):
                    return obj.fields[name]
                if name == "toordinal":
                    return LibFn(lambda I2, a, k, n: self.date_toordinal(I2, obj), "date.toordinal")
                raise Unsupported(f"datetime.date.{name}")
            if obj.kind == "slice":
                if name in ("start", "stop", "step"):
                    return obj.fields[name]
                if name == "indices":
                    return LibFn(lambda I2, a, k, n: self.slice_indices(I2, obj, a[0], n), "slice.indices")
            if obj.kind == "super":
                cls, selfv = obj.fields["cls"], obj.fields["inst"]
                start_cls = selfv.cls if isinstance(selfv, Obj) else (selfv if isinstance(selfv, type) else type(selfv))
                mro = list(start_cls.__mro__)
                for k in mro[mro.index(cls) + 1:]:
                    if name in k.__dict__:
                        raw = k.__dict__[name]
                        if isinstance(raw, staticmethod):
                            return raw.__func__ if raw.__func__ is not object.__new__ else LibFn(lambda I2, a, kw, n: Obj(a[0]), "object.__new__")
                        if isinstance(raw, classmethod):
                            return Bound(raw.__func__, start_cls)
                        if k is dict and isinstance(selfv, Obj) and selfv.store is not None:
                            return LibFn(lambda I2, a, kw, n, name=name: I2.dict_method(selfv, name, a, kw, n), f"dict.{name}")
                        if raw is object.__init__:
                            return LibFn(lambda I2, a, kw, n: None, "object.__init__")
                        if raw is object.__new__:
                            return LibFn(lambda I2, a, kw, n: Obj(a[0]), "object.__new__")
                        if isinstance(raw, property):
                            return I.call(raw.fget, [selfv], {}, node)
                        if isinstance(raw, types.FunctionType):
                            return Bound(raw, selfv)
                        return raw
                I.fail("AttributeError", f"super().{name}", node)
            if obj.kind == "match":
                raise Unsupported(f"re.Match.{name} on a symbolic subject string")
            if obj.kind in self.method_table and name in self.method_table[obj.kind]:
                fn = self.method_table[obj.kind][name]
                return LibFn(lambda I2, a, k, n: fn(I2, obj, a, k, n), f"{obj.kind}.{name}")
            return _MISSING
        if isinstance(obj, (SV, bool)) and name in ("all", "any", "item", "tolist", "copy", "flatten", "squeeze"):
            # numpy scalar protocol (values produced by numpy operations are numpy scalars)
            I.ctx.note_assumption("scalars produced by numpy operations are numpy scalars (.all/.any/.item/.tolist available)")
            return LibFn(lambda I2, a, k, n: obj, f"numpy_scalar.{name}")
        if isinstance(obj, SV):
            if obj.is_int or obj.is_real:
                if name == "real":
                    return obj
                if name == "imag":
                    return 0
            if obj.is_str:
                raise Unsupported(f"method {name} of symbolic string")
            return _MISSING
        if isinstance(obj, ExcVal):
            if name == "args":
                return obj.args
            return _MISSING
        if isinstance(obj, SSeq):
            if name == "index" or name == "count":
                raise Unsupported("SSeq.index")
            return _MISSING
        if isinstance(obj, SRange):
            if name in ("start", "stop", "step"):
                return getattr(obj, name)
            return _MISSING
        if isinstance(obj, (list, dict, set, tuple)):
            return self.container_method(I, obj, name, node)
        if isinstance(obj, re.Pattern) and name in ("fullmatch", "match", "search"):
            return LibFn(lambda I2, a, k, n: self.re_match(I2, obj, name, a, n), f"re.Pattern.{name}")
        if isinstance(obj, str):
            if hasattr(obj, name):
                nat = getattr(obj, name)
                return LibFn(lambda I2, a, k, n: self.str_method(I2, obj, name, nat, a, k, n), f"str.{name}")
        return _MISSING

    def str_method(self, I, s, name, nat, a, k, n):
        if deep_concrete(a) and deep_concrete(k):
            try:
                return nat(*a, **k)
            except (ValueError, TypeError, IndexError, KeyError) as ex:
                I.raise_exc(type(ex), str(ex))
        if name == "join":
            items = I.iterate(a[0], n)
            parts = []
            for i, x in enumerate(items):
                if i:
                    parts.append(s)
                if not isinstance(x, (str, SStr)):
                    I.fail("TypeError", "join: expected str", n)
                parts.append(x)
            return STR.concat(I, parts)
        if name == "format":
            raise Unsupported("str.format with symbolic arguments")
        if name == "replace" and isinstance(a[1], (SStr,)):
            # template substitution: literal.replace(old, <structural>)
            old = a[0]
            pieces = s.split(old)
            parts = []
            for i, p in enumerate(pieces):
                if i:
                    parts.append(a[1])
                parts.append(p)
            return STR.concat(I, parts)
        raise Unsupported(f"str.{name} with symbolic arguments")

    def container_method(self, I, obj, name, node):
        if not hasattr(obj, name):
            return _MISSING
        nat = getattr(obj, name)
        SAFE = {"append", "extend", "insert", "pop", "copy", "clear", "reverse", "items", "keys", "values",
                "get", "update", "setdefault", "add", "discard", "popitem", "union", "difference",
                "intersection", "issubset", "isdisjoint", "issuperset", "symmetric_difference",
                "difference_update", "fromkeys"}

        def run(I2, a, k, n):
            if name in ("index", "count", "remove", "sort", "__contains__"):
                if any(isinstance(x, SV) for x in (list(obj) if not isinstance(obj, dict) else obj.keys())) and \
                        any(isinstance(x, (int, float, SV)) for x in a):
                    raise Unsupported(f"{type(obj).__name__}.{name} comparing symbolic scalars")
                if name == "sort" and any(isinstance(x, (SV, Obj)) for x in obj):
                    raise Unsupported("sort of symbolic elements")
            elif name not in SAFE:
                if not (deep_concrete(obj) and deep_concrete(a)):
                    raise Unsupported(f"{type(obj).__name__}.{name} with symbolic content")
            if name == "update" and isinstance(obj, dict) and a and isinstance(a[0], Obj) and a[0].store is not None:
                a = [dict(a[0].store)] + list(a[1:])        # an instance of a dict subclass of the repository: its mapping
            if name in ("extend", "update", "union", "difference", "intersection") and a:
                a = [I2.iterate(x, n) if not isinstance(x, (dict, set, frozenset, list, tuple)) else x for x in a]
            if isinstance(obj, dict) and name in ("get", "pop", "setdefault") and a and isinstance(a[0], (SV, SStr)):
                raise Unsupported("dict method with symbolic key")
            try:
                r = nat(*a, **k)
            except ValueError as ex:
                I2.raise_exc(ValueError, str(ex))
            except KeyError as ex:
                I2.raise_exc(KeyError, str(ex))
            except IndexError as ex:
                I2.raise_exc(IndexError, str(ex))
            except TypeError as ex:
                I2.fail("TypeError", str(ex), n)
            if name in ("items", "keys", "values"):
                return list(r)
            return r
        return LibFn(run, f"{type(obj).__name__}.{name}")

    def binop(self, I, sym, a, b, node):
        return _MISSING

    def unary(self, I, op, v, node):
        return _MISSING

    def eq(self, I, a, b, node):
        if isinstance(a, LibObj) and isinstance(b, LibObj) and a.kind == b.kind == "date":
            return I.eq((a.fields["year"], a.fields["month"], a.fields["day"]),
                        (b.fields["year"], b.fields["month"], b.fields["day"]), node)
        if isinstance(a, (LibObj, SSeq, SRange)) or isinstance(b, (LibObj, SSeq, SRange)):
            raise Unsupported(f"== on {type(a).__name__}/{type(b).__name__}")
        return _MISSING

    def contains(self, I, container, item, node):
        if isinstance(container, SRange):
            a, b, s = (to_z3(x) for x in (container.start, container.stop, container.step))
            x = to_z3(item)
            I.ctx.note_assumption(A_RANGE)
            return SV(z3.If(s > 0, z3.And(x >= a, x < b, (x - a) % s == 0),
                            z3.And(x <= a, x > b, (a - x) % (-s) == 0)))
        if isinstance(container, LibObj) and container.kind == "symset":
            return I.contains(tuple(container.fields["items"]), item, node)
        if isinstance(container, str) and isinstance(item, str):
            return item in container
        if isinstance(container, (str, SStr)) and isinstance(item, (str, SStr)):
            raise Unsupported("substring test on structural string")
        return _MISSING

    def getitem(self, I, o, idx, node):
        if isinstance(idx, slice):
            idx = LibObj("slice", start=idx.start, stop=idx.stop, step=idx.step)
        if isinstance(o, SRange) and isinstance(idx, LibObj) and idx.kind == "slice":
            n = self.range_len(I, o)
            s0, e0, st = self.slice_indices_sym(I, idx, n, node)
            a, stp = to_z3(o.start), to_z3(o.step)
            return SRange(SV(z3.simplify(a + s0 * stp)), SV(z3.simplify(a + e0 * stp)), I.binop("*", o.step, st))
        if isinstance(o, SSeq) and isinstance(idx, LibObj) and idx.kind == "slice":
            s0, st, ln = self.numpy.slice_bounds(I, idx, o.length, node)      # handles symbolic start/stop
            from .ndarray import as_dim
            return SSeq(as_dim(ln), lambda i: o.getter(SV(z3.simplify(s0 + to_z3(i) * st))), o.kind)
        if isinstance(o, SRange):
            if isinstance(idx, LibObj):
                raise Unsupported("slice of symbolic range")
            n = self.range_len(I, o)
            i = to_z3(idx)
            nt = to_z3(n)
            I.require("IndexError", z3.And(i >= -nt, i < nt), node)
            ii = z3.If(i < 0, i + nt, i)
            return SV(to_z3(o.start) + ii * to_z3(o.step))
        if isinstance(o, SSeq):
            if isinstance(idx, LibObj):
                raise Unsupported("slice of symbolic sequence")
            nt = to_z3(o.length)
            i = to_z3(idx)
            I.require("IndexError", z3.And(i >= -nt, i < nt), node)
            ii = z3.simplify(z3.If(i < 0, i + nt, i))
            return o.getter(SV(ii))
        if isinstance(o, range):
            if isinstance(idx, SV):
                return self.getitem(I, SRange(o.start, o.stop, o.step), idx, node)
            if isinstance(idx, LibObj) and idx.kind == "slice":
                f = idx.fields
                if all(not isinstance(f[k], SV) for k in f):
                    return o[slice(f["start"], f["stop"], f["step"])]
        if isinstance(o, tuple_iter):
            I.fail("TypeError", "'generator' object is not subscriptable", node)
        if isinstance(o, (str, SStr)) and isinstance(idx, LibObj) and isinstance(o, str):
            f = idx.fields
            if all(not isinstance(f[k], SV) for k in f):
                return o[slice(f["start"], f["stop"], f["step"])]
        return _MISSING

    def setitem(self, I, o, idx, v, node):
        return _MISSING

    def iterate(self, I, v, node):
        if isinstance(v, SRange):
            a, b, s = v.start, v.stop, v.step
            if all(isinstance(x, int) for x in (a, b, s)):
                return list(range(a, b, s))
            n = self.range_len(I, v)
            if isinstance(n, SV):
                nv = z3.simplify(n.t)
                if z3.is_int_value(nv):
                    n = nv.as_long()
            if isinstance(n, int):
                return [I.binop("+", a, I.binop("*", i, s)) for i in range(n)]
            raise Unsupported(f"iteration over a range of symbolic length at {I.loc(node)}")
        if isinstance(v, SSeq):
            n = v.length
            if isinstance(n, SV):
                nv = z3.simplify(n.t)
                if z3.is_int_value(nv):
                    n = nv.as_long()
            if isinstance(n, int):
                return [v.getter(i) for i in range(n)]
            raise Unsupported(f"iteration over a sequence of symbolic length at {I.loc(node)}")
        if isinstance(v, tuple_iter):
            return list(v.items)
        if isinstance(v, SStr):
            raise Unsupported("iteration over structural string")
        return _MISSING

    def symbolic_comprehension_source(self, I, src):
        if isinstance(src, SRange):
            if all(isinstance(x, int) for x in (src.start, src.stop, src.step)):
                return None
            n = self.range_len(I, src)
            if isinstance(n, SV) and not z3.is_int_value(z3.simplify(n.t)):
                return True
            return None
        if isinstance(src, SSeq):
            n = src.length
            if isinstance(n, SV) and not z3.is_int_value(z3.simplify(n.t)):
                return True
        if type(src).__name__ == "NDArr" and src.ndim >= 1 and isinstance(src.shape[0], SV):
            return True
        return None

    def as_sseq(self, I, src, node=None):
        """View an NDArr with a symbolic first dimension as a symbolic sequence of its rows."""
        if type(src).__name__ == "NDArr":
            return SSeq(src.shape[0], lambda i: self.numpy.row_view(I, src, i), "list")
        return src

    def symbolic_comprehension(self, I, e, fr, src, kind):
        src = self.as_sseq(I, src)
        gen = e.generators[0]
        if gen.ifs:
            # a filter that is concretely True for the generic element is a no-op (e.g. `if x is not None`)
            probe = z3.Int(I.ctx.fresh_name("k!filter"))
            base0 = (lambda i: I.binop("+", src.start, I.binop("*", i, src.step))) if isinstance(src, SRange) else src.getter
            f0 = Frame(fr.func, parent=fr.parent)
            f0.locals.update(fr.locals)
            I.assign(gen.target, base0(SV(probe)), f0)
            for cnd in gen.ifs:
                r = I.truth_sym(I.eval(cnd, f0), cnd)
                if r is not True:
                    if kind == "gen":
                        # lazily consumed search `next(x for x in seq if cond(x))`: kept as a find-first object
                        return LibObj("findgen", e=e, frame=fr, src=src)
                    raise Unsupported("filtered comprehension over a sequence of symbolic length")
        if isinstance(src, SRange):
            length = self.range_len(I, src)
            base = lambda i: I.binop("+", src.start, I.binop("*", i, src.step))
        else:
            length = src.length
            base = src.getter
        frame0 = fr

        def getter(i):
            f2 = Frame(frame0.func, parent=frame0.parent)
            f2.locals.update(frame0.locals)
            I.assign(gen.target, base(i), f2)
            return I.eval(e.elt, f2)
        return SSeq(length, getter, "list" if kind == "list" else "tuple")

    def range_len(self, I, r):
        a, b, s = r.start, r.stop, r.step
        if all(isinstance(x, int) for x in (a, b, s)):
            return len(range(a, b, s))
        I.ctx.note_assumption(A_RANGE)
        ta, tb, ts = to_z3(a), to_z3(b), to_z3(s)
        if isinstance(s, int):
            if s > 0:
                n = (tb - ta + (s - 1)) / s
            else:
                n = (ta - tb + (-s - 1)) / (-s)
            return SV(z3.simplify(z3.If(n > 0, n, 0)))
        npos = (tb - ta + ts - 1) / ts
        nneg = (ta - tb - ts - 1) / (-ts)
        n = z3.If(ts > 0, npos, nneg)
        return SV(z3.If(n > 0, n, 0))

    def it_groupby(self, I, a, k, n):
        """itertools.groupby(iterable, key): consecutive runs of equal keys; every group is its own iterator (materialised
        here, so that listing the pairs first does not empty the groups as the lazy original would - the analysed code
        only ever consumes each group while it is current, which is the case this model covers)"""
        items = I.iterate(a[0], n)
        keyf = k.get("key", a[1] if len(a) > 1 else None)
        out = []
        cur_key, cur = _MISSING, None
        for x in items:
            kx = x if keyf is None else I.call(keyf, [x], {}, n)
            if isinstance(kx, (SV, Obj, SStr)):
                raise Unsupported("itertools.groupby with symbolic keys")
            if cur_key is _MISSING or kx != cur_key:
                cur = []
                out.append((kx, cur))
                cur_key = kx
            cur.append(x)
        return tuple_iter([(kk, tuple_iter(g)) for kk, g in out])

    def power(self, I, a, b, node):
        if isinstance(a, Obj):
            return I.obj_binop("**", "__pow__", "__rpow__", a, b, node)
        if isinstance(b, Obj):
            return I.obj_binop("**", "__pow__", "__rpow__", a, b, node)
        def numeral(v):
            """python number of a concrete value or of a z3 numeral, else None"""
            if isinstance(v, bool):
                return None
            if isinstance(v, (int, fractions.Fraction)):
                return v
            if isinstance(v, SV) and v.nan is None and not z3.is_bool(v.t):
                t = z3.simplify(v.t)
                if z3.is_int_value(t):
                    return t.as_long()
                if z3.is_rational_value(t):
                    return t.as_fraction()
            return None
        na, nb = numeral(a), numeral(b)
        if na is not None and isinstance(nb, int) and abs(nb) <= 64 and not (na == 0 and nb < 0):
            # exact power of a rational constant with an integer exponent (rho ** arange(n) ...)
            r = fractions.Fraction(na) ** nb
            return int(r) if (isinstance(na, int) and nb >= 0) else r
        if isinstance(a, (int, float)) and isinstance(b, (int, float)):
            return a ** b
        if isinstance(b, (int, float)) and not isinstance(b, bool) and b in (0, 1):
            return 1 if b == 0 else a
        I.ctx.note_assumption(A_REAL)
        if isinstance(b, float) and b == 0.5:
            pass
        return SV(F_POW(real_of(a), real_of(b)), any_nan(a, b))

    # ------------------------------------------------------------------ calls
    def call(self, I, fn, args, kwargs, node):
        if isinstance(fn, LibFn):
            return fn.fn(I, args, kwargs, node)
        for h in self.extra_call:
            r = h(I, fn, args, kwargs, node)
            if r is not _MISSING:
                return r
        try:
            h = self.call_table.get(fn)
        except TypeError:
            h = None
        if h is not None:
            return h(I, args, kwargs, node)
        if isinstance(fn, (types.BuiltinFunctionType, types.BuiltinMethodType, types.MethodDescriptorType,
                           types.WrapperDescriptorType, types.MethodWrapperType, functools.partial)) or callable(fn):
            selfobj = getattr(fn, "__self__", None)
            if isinstance(fn, functools.partial):
                return I.call(fn.func, list(fn.args) + list(args), {**fn.keywords, **kwargs}, node)
            has_repo_cb = any(S.is_repo_function(x) for x in list(args) + list(kwargs.values()))
            if not S.is_repo_function(fn) and (has_repo_cb or not (deep_concrete(args) and deep_concrete(kwargs))):
                # callables passed as callbacks to a library function (re.sub, sorted key, ...): interpreter callables AND
                # repository functions are wrapped as python callables that re-enter the interpreter (so the callback
                # is analysed from its AST); everything else must be concrete
                def nat(v):
                    if isinstance(v, (Func, Bound, LibFn)) or S.is_repo_function(v):
                        return lambda *aa, **kk: I.call(v, list(aa), kk, node)
                    return v
                a2 = [nat(x) for x in args]
                k2 = {kk: nat(x) for kk, x in kwargs.items()}
                if any(x is not y for x, y in zip(a2, args)) or any(k2[kk] is not kwargs[kk] for kk in kwargs):
                    if deep_concrete([x for x in a2 if not callable(x)]) and deep_concrete({kk: x for kk, x in k2.items() if not callable(x)}):
                        args, kwargs = a2, k2
            if str(getattr(fn, "__module__", "") or "").split(".")[0] == "numpy" and any(type(x).__name__ == "NDArr" or isinstance(x, SV) for x in list(args) + list(kwargs.values())):
                # an unmodelled numpy function on model arrays / scalars that hold nothing symbolic: run it on the numbers
                def nat_arr(v):
                    if type(v).__name__ == "NDArr":
                        r = self.numpy.try_native(I, v)
                        return v if r is None else r
                    if isinstance(v, SV):
                        nn = nan_of(v)
                        if nn is not None and not z3.is_false(z3.simplify(nn)):
                            return float("nan") if z3.is_true(z3.simplify(nn)) else v
                        t = z3.simplify(v.t)
                        if z3.is_int_value(t):
                            return t.as_long()
                        if z3.is_rational_value(t):
                            return t.numerator_as_long() / t.denominator_as_long()
                        if z3.is_true(t) or z3.is_false(t):
                            return z3.is_true(t)
                    return v
                a3 = [nat_arr(x) for x in args]
                k3 = {kk: nat_arr(x) for kk, x in kwargs.items()}
                if deep_concrete(a3) and deep_concrete(k3):
                    args, kwargs = a3, k3
            if deep_concrete(args) and deep_concrete(kwargs) and not S.is_repo_function(fn):
                I.ctx.note_assumption(A_NATIVE + getattr(fn, "__qualname__", repr(fn)))
                try:
                    return I.lift(fn(*args, **kwargs))
                except StopIteration:
                    I.raise_exc(StopIteration)
                except (ValueError, KeyError, IndexError, TypeError, AttributeError, ZeroDivisionError) as ex:
                    I.raise_exc(type(ex), str(ex))
            if isinstance(selfobj, (list, dict, set, tuple)):
                m = self.container_method(I, selfobj, fn.__name__, node)
                if m is not _MISSING:
                    return m.fn(I, args, kwargs, node)
        return _MISSING

    def construct(self, I, cls, args, kwargs, node):
        h = self.call_table.get(cls)
        if h is not None:
            return h(I, args, kwargs, node)
        h = self.construct_table.get(cls)
        if h is not None:
            return h(I, args, kwargs, node)
        if cls.__module__ in ("builtins",) or not S.is_repo_file(getattr(inspect.getmodule(cls), "__file__", "") or ""):
            if deep_concrete(args) and deep_concrete(kwargs):
                I.ctx.note_assumption(A_NATIVE + cls.__qualname__)
                try:
                    return cls(*args, **kwargs)
                except (ValueError, TypeError, KeyError) as ex:
                    I.raise_exc(type(ex), str(ex))
        return _MISSING

    def generated_init(self, I, cls, obj, args, kwargs, node):
        import dataclasses
        if dataclasses.is_dataclass(cls):
            flds = [f for f in dataclasses.fields(cls) if f.init]
            vals = {}
            if len(args) > len(flds):
                I.fail("TypeError", "too many positional arguments", node)
            for f, a in zip(flds, args):
                vals[f.name] = a
            for k, v in kwargs.items():
                if k in vals or k not in [f.name for f in flds]:
                    I.fail("TypeError", f"bad keyword {k}", node)
                vals[k] = v
            for f in dataclasses.fields(cls):
                if f.name in vals:
                    obj.attrs[f.name] = vals[f.name]
                elif f.default is not dataclasses.MISSING:
                    obj.attrs[f.name] = I.lift(f.default)
                elif f.default_factory is not dataclasses.MISSING:
                    obj.attrs[f.name] = I.call(f.default_factory, [], {}, node)
                elif f.init:
                    I.fail("TypeError", f"missing argument {f.name}", node)
            post = I.lookup_class_attr(cls, "__post_init__")
            if post is not _MISSING:
                I.call(Bound(post, obj), [], {}, node)
            return None
        return _MISSING

    def decorator(self, I, dec, val, node):
        if dec in (staticmethod, classmethod, property):
            return val
        return _MISSING

    # ------------------------------------------------------------------ builtins
    def b_exec(self, I, a, k, n):
        """exec(source, globals[, locals]) on concrete text: executed by CPython; every function it defines is
        registered with its source text so that the engine analyses it from that text (bytecode-checked)."""
        src = a[0]
        if not isinstance(src, str) or len(a) < 2 or not isinstance(a[1], dict):
            raise Unsupported("exec() with symbolic source or without explicit globals")
        g = a[1]
        loc = a[2] if len(a) > 2 else g
        before = {id(v) for v in list(g.values()) + list(loc.values())}
        I.ctx.note_assumption("exec() of generated source text is performed by CPython; the generated functions are analysed from that text")
        exec(src, g, loc)
        for d in (g, loc):
            for name, v in list(d.items()):
                if isinstance(v, types.FunctionType) and v.__code__.co_filename == "<string>" and id(v) not in before:
                    try:
                        S.register_generated(v, src, f"exec@{I.loc(n)}")
                    except LookupError:
                        pass
        return None

    def b_int(self, I, a, k, n):
        if not a:
            return 0
        x = a[0]
        if isinstance(x, SV):
            if x.is_int:
                return x
            if x.is_bool:
                return SV(z3.If(x.t, 1, 0))
            if x.is_real:
                t = x.t
                return SV(z3.If(t >= 0, z3.ToInt(t), -z3.ToInt(-t)))
            raise Unsupported("int() of symbolic string")
        if isinstance(x, SStr):
            return STR.to_int(I, x, n)
        if isinstance(x, Obj):
            for d in ("__int__", "__index__"):
                m = I.lookup_class_attr(x.cls, d)
                if m is not _MISSING:
                    return I.call(Bound(m, x), [], {}, n)
            I.fail("TypeError", "int() argument must be a string or a number", n)
        if I.is_native_repo_instance(x):
            return self.b_int(I, [I.lift_instance(x)], k, n)
        if x is None:
            I.fail("TypeError", "int() argument must be a string, a bytes-like object or a real number, not 'NoneType'", n)
        try:
            return int(x, *a[1:])
        except ValueError as ex:
            I.raise_exc(ValueError, str(ex))
        except TypeError as ex:
            I.fail("TypeError", str(ex), n)

    def b_float(self, I, a, k, n):
        if not a:
            return 0.0
        x = a[0]
        if isinstance(x, SV):
            if x.is_real:
                return x
            if x.is_int:
                return SV(z3.ToReal(x.t))
            raise Unsupported("float() of symbolic non-number")
        if type(x).__name__ == "NDArr":
            return self.b_float(I, [self.numpy.item(I, x, n)], k, n)
        if isinstance(x, (SStr, Obj)):
            raise Unsupported("float() of structural string/object")
        try:
            return float(x)
        except ValueError as ex:
            I.raise_exc(ValueError, str(ex))
        except TypeError as ex:
            I.fail("TypeError", str(ex), n)

    def b_str(self, I, a, k, n):
        if not a:
            return ""
        x = a[0]
        if isinstance(x, type):
            return str(x)
        return STR.str_value(I, x, n)

    def b_repr(self, I, a, k, n):
        return STR.repr_value(I, a[0], n)

    def b_format(self, I, a, k, n):
        return STR.format_value(I, a[0], -1, a[1] if len(a) > 1 else "", n)

    def b_len(self, I, a, k, n):
        x = a[0]
        if isinstance(x, (tuple, list, dict, set, str, range, frozenset)):
            return len(x)
        if isinstance(x, SRange):
            return self.range_len(I, x)
        if isinstance(x, SSeq):
            return x.length
        if isinstance(x, SStr):
            return STR.length(I, x)
        if isinstance(x, tuple_iter):
            I.fail("TypeError", "object of type 'generator' has no len()", n)
        if type(x).__name__ == "NDArr":
            if x.ndim == 0:
                I.fail("TypeError", "len() of unsized object", n)
            return x.shape[0]
        if isinstance(x, Obj) and x.store is not None and not S.is_repo_function(I.lookup_class_attr(x.cls, "__len__")):
            return len(x.store)
        if isinstance(x, Obj):
            m = I.lookup_class_attr(x.cls, "__len__")
            if m is _MISSING:
                I.fail("TypeError", f"object of type {x.cls.__name__} has no len()", n)
            r = I.call(Bound(m, x), [], {}, n)
            if r is None or isinstance(r, (str, SStr, float, tuple, list, Obj)):
                I.fail("TypeError", f"'{type(r).__name__}' object cannot be interpreted as an integer", n)
            return r
        if I.is_native_repo_instance(x):
            return self.b_len(I, [I.lift_instance(x)], k, n)
        if x is None or isinstance(x, (SV, int, float)):
            I.fail("TypeError", f"object of type {type(x).__name__} has no len()", n)
        if isinstance(x, LibObj) and x.kind == "symset":
            # number of distinct members: decide each member against the representatives kept so far (one path per
            # pattern of equalities; sets of symbolic scalars are small)
            members = x.fields["items"]
            if len(members) > 6:
                raise Unsupported("len() of a set of more than 6 symbolic scalars")
            reps = []
            for it in members:
                dup = False
                for r in reps:
                    t = I.sym_bool(I.eq(it, r, n))
                    t = t if isinstance(t, bool) else (True if I.ctx.entails(t) else False if I.ctx.entails(z3.Not(t)) else I.ctx.branch(t))
                    if t:
                        dup = True
                        break
                if not dup:
                    reps.append(it)
            return len(reps)
        if isinstance(x, LibObj):
            raise Unsupported(f"len() of a modelled {x.kind} object")
        try:
            return len(x)
        except TypeError as ex:
            I.fail("TypeError", str(ex), n)

    def b_tuple(self, I, a, k, n):
        if not a:
            return ()
        x = a[0]
        if isinstance(x, Obj):
            m = I.lookup_class_attr(x.cls, "__iter__")
            if m is not _MISSING:
                x = I.call(Bound(m, x), [], {}, n)
        if isinstance(x, SSeq):
            return SSeq(x.length, x.getter, "tuple")
        if isinstance(x, SRange) and self.symbolic_comprehension_source(I, x):
            return SSeq(self.range_len(I, x), lambda i: I.binop("+", x.start, I.binop("*", i, x.step)), "tuple")
        return tuple(I.iterate(x, n))

    def b_list(self, I, a, k, n):
        if not a:
            return []
        x = a[0]
        if isinstance(x, SSeq):
            return SSeq(x.length, x.getter, "list")
        return list(I.iterate(x, n))

    def b_set(self, I, a, k, n):
        if not a:
            return set()
        items = I.iterate(a[0], n)
        if any(isinstance(x, (SV,)) for x in items) and not any(isinstance(x, (Obj, SStr)) for x in items):
            # a set of symbolic scalars: only membership tests are supported (order and size are not modelled)
            return LibObj("symset", items=list(items))
        if any(isinstance(x, (SV, Obj, SStr)) for x in items):
            raise Unsupported("set() of symbolic members")
        return set(items)

    def b_frozenset(self, I, a, k, n):
        return frozenset(self.b_set(I, a, k, n))

    def b_dict(self, I, a, k, n):
        d = {}
        if a:
            src = a[0]
            if isinstance(src, Obj) and src.store is not None:
                d.update(src.store)
            elif isinstance(src, dict):
                d.update(src)
            else:
                for kv in I.iterate(src, n):
                    kk, vv = I.iterate(kv, n)
                    if isinstance(kk, (SV, SStr)):
                        raise Unsupported("dict() with symbolic key")
                    d[kk] = vv
        d.update(k)
        return d

    def b_range(self, I, a, k, n):
        if len(a) == 1:
            start, stop, step = 0, a[0], 1
        elif len(a) == 2:
            start, stop, step = a[0], a[1], 1
        else:
            start, stop, step = a
        vals = []
        for x in (start, stop, step):
            x = I.index_of(x, n) if isinstance(x, Obj) or I.is_native_repo_instance(x) else x
            if isinstance(x, SV) and not x.is_int:
                I.fail("TypeError", "range() argument must be int", n)
            if isinstance(x, float) or x is None:
                I.fail("TypeError", f"'{type(x).__name__}' object cannot be interpreted as an integer", n)
            vals.append(x)
        start, stop, step = vals
        if isinstance(step, SV):
            if I.ctx.branch(step.t == 0):
                I.raise_exc(ValueError, "range() arg 3 must not be zero")
        elif step == 0:
            I.raise_exc(ValueError, "range() arg 3 must not be zero")
        if all(isinstance(x, int) for x in vals):
            return range(start, stop, step)
        return SRange(start, stop, step)

    def b_slice(self, I, a, k, n):
        if len(a) == 1:
            return LibObj("slice", start=None, stop=a[0], step=None)
        if len(a) == 2:
            return LibObj("slice", start=a[0], stop=a[1], step=None)
        return LibObj("slice", start=a[0], stop=a[1], step=a[2])

    def slice_indices_sym(self, I, sl, length, node):
        """CPython's PySlice_AdjustIndices for concrete slice fields and a symbolic length (z3 terms)."""
        f = sl.fields
        if any(isinstance(f[k], SV) for k in f):
            raise Unsupported("slice with symbolic start/stop/step")
        step = 1 if f["step"] is None else f["step"]
        if step == 0:
            I.raise_exc(ValueError, "slice step cannot be zero")
        n = to_z3(length)
        I.ctx.note_assumption("slicing follows CPython's PySlice_AdjustIndices (validated against CPython)")

        def adj(v, lower, upper):
            if v < 0:
                t = n + v
                return z3.If(t < lower, lower, t)
            return z3.If(z3.IntVal(v) > upper, upper, z3.IntVal(v))
        if step > 0:
            lower, upper = z3.IntVal(0), n
            start = lower if f["start"] is None else adj(f["start"], lower, upper)
            stop = upper if f["stop"] is None else adj(f["stop"], lower, upper)
        else:
            lower, upper = z3.IntVal(-1), n - 1
            start = upper if f["start"] is None else adj(f["start"], lower, upper)
            stop = lower if f["stop"] is None else adj(f["stop"], lower, upper)
        return z3.simplify(start), z3.simplify(stop), step

    def slice_indices(self, I, sl, length, node):
        f = sl.fields
        if all(not isinstance(f[x], SV) for x in f) and not isinstance(length, SV):
            return slice(f["start"], f["stop"], f["step"]).indices(length)
        raise Unsupported("slice.indices with symbolic components")

    def b_isinstance(self, I, a, k, n):
        x, cls = a
        if isinstance(cls, tuple):
            return any(self.b_isinstance(I, [x, c], k, n) for c in cls)
        if not isinstance(cls, type):
            cls = getattr(cls, "__origin__", cls)
            if not isinstance(cls, type):
                raise Unsupported(f"isinstance against {cls!r}")
        t = self.type_of(I, x)
        if t is None:
            raise Unsupported(f"isinstance of {type(x).__name__}")
        if getattr(cls, "_is_protocol", False):
            # runtime-checkable protocol: structural check on attributes
            attrs = [m for m in getattr(cls, "__protocol_attrs__", ())]
            return all(self.b_hasattr(I, [x, m], {}, n) for m in attrs)
        try:
            return issubclass(t, cls)
        except TypeError:
            raise Unsupported(f"isinstance against {cls!r}")

    def type_of(self, I, x):
        if isinstance(x, SV):
            return int if x.is_int else float if x.is_real else bool if x.is_bool else str
        if isinstance(x, Obj):
            return x.cls
        if isinstance(x, SStr):
            return str
        if isinstance(x, SSeq):
            return tuple if x.kind == "tuple" else list
        if isinstance(x, SRange):
            return range
        if isinstance(x, LibObj):
            return {"date": datetime.date, "slice": slice}.get(x.kind, None) or self.libobj_type(x)
        if isinstance(x, (Func, Bound)):
            return types.FunctionType if isinstance(x, Func) else types.MethodType
        if isinstance(x, ExcVal):
            return x.cls
        if isinstance(x, tuple_iter) or type(x).__name__ == "LazyGen":
            return types.GeneratorType
        if type(x).__name__ == "NDArr":
            import numpy
            return numpy.ndarray
        if isinstance(x, LibFn):
            return types.BuiltinFunctionType
        return type(x)

    def libobj_type(self, x):
        return None

    def b_issubclass(self, I, a, k, n):
        return issubclass(a[0], a[1])

    def b_type(self, I, a, k, n):
        if len(a) != 1:
            raise Unsupported("type() with 3 arguments")
        t = self.type_of(I, a[0])
        if t is None:
            raise Unsupported("type() of library object")
        return t

    def b_hasattr(self, I, a, k, n):
        x, name = a
        if isinstance(x, Obj):
            if name in x.attrs:
                return True
            raw = I.lookup_class_attr(x.cls, name)
            if raw is _MISSING:
                return I.lookup_class_attr(x.cls, "__getattr__") is not _MISSING and self._try_getattr(I, x, name, n)
            if isinstance(raw, types.MemberDescriptorType):
                return False
            if isinstance(raw, property):
                return self._try_getattr(I, x, name, n)
            return True
        if isinstance(x, (SV, SStr, SSeq, SRange, LibObj, tuple_iter)) or type(x).__name__ in ("NDArr", "LazyGen"):
            t = self.type_of(I, x)
            if isinstance(x, LibObj) and x.kind == "date":
                return name in ("year", "month", "day", "toordinal")
            return hasattr(t, name) if t is not None else False
        if I.is_native_repo_instance(x):
            return self.b_hasattr(I, [I.lift_instance(x), name], k, n)
        if isinstance(x, type):
            return I.lookup_class_attr(x, name) is not _MISSING or hasattr(x, name)
        return hasattr(x, name)

    def _try_getattr(self, I, x, name, n):
        try:
            I.getattr(x, name, n)
            return True
        except FailurePath as fp:
            if fp.kind == "AttributeError":
                return False
            raise
        except PyRaise as pr:
            if issubclass(pr.exc.cls, AttributeError):
                return False
            raise

    def b_getattr(self, I, a, k, n):
        if len(a) == 3:
            return I.getattr(a[0], a[1], n, default=a[2])
        return I.getattr(a[0], a[1], n)

    def b_setattr(self, I, a, k, n):
        I.setattr(a[0], a[1], a[2], n)

    def _minmax(self, I, a, k, n, is_max):
        key = k.get("key")
        if len(a) == 1 and isinstance(a[0], Obj):
            m = I.lookup_class_attr(a[0].cls, "__iter__")
            if m is not _MISSING:
                it = I.call(Bound(m, a[0]), [], {}, n)
                if isinstance(it, (SSeq, SRange)):
                    a = [it] + list(a[1:])
        if len(a) == 1 and isinstance(a[0], (SSeq, SRange)) and self.symbolic_comprehension_source(I, a[0]) and key is None:
            from .ndarray import idxseq
            seq = idxseq(I, a[0], n)       # elements compared through their integer value (periods: __index__ == serial)
            if seq is None:
                raise Unsupported("min/max over a sequence of symbolic length that has no integer reading")
            ln = to_z3(seq.length)
            if not I.ctx.branch(ln > 0):
                if "default" in k:
                    return k["default"]
                I.raise_exc(ValueError, "min()/max() arg is an empty sequence")
            if seq.affine is None:
                # not affine: the ends are still the extremes when the sequence is PROVABLY monotone (one validity query
                # per direction over a fresh position j: 0 <= j < len-1  =>  e(j) <= e(j+1)); equal elements are equal
                # in value, so which of them min()/max() returns does not matter for integers and periods
                j = z3.Int(I.ctx.fresh_name("k!mono"))
                inside = z3.And(j >= 0, j < ln - 1)
                ej, ej1 = seq.at(j), seq.at(j + 1)
                if I.ctx.entails(z3.Implies(inside, ej <= ej1)):
                    first_is_min = True
                elif I.ctx.entails(z3.Implies(inside, ej >= ej1)):
                    first_is_min = False
                else:
                    raise Unsupported("min/max over a sequence of symbolic length that is neither affine nor provably monotone")
                pick_first = first_is_min != is_max
                return a[0].getter(SV(z3.IntVal(0)) if pick_first else SV(z3.simplify(ln - 1)))
            a0, step = seq.affine
            first_is_min = step > 0
            pick_first = first_is_min != is_max
            src = a[0]
            if isinstance(src, SRange):
                return SV(z3.simplify(a0 if pick_first else a0 + (ln - 1) * step))
            return src.getter(SV(z3.IntVal(0)) if pick_first else SV(z3.simplify(ln - 1)))     # the element itself (e.g. a Period)
        if len(a) == 1:
            items = I.iterate(a[0], n)
        else:
            items = list(a)
        if not items:
            if "default" in k:
                return k["default"]
            I.raise_exc(ValueError, "min()/max() arg is an empty sequence")
        best = items[0]
        bk = I.call(key, [best], {}, n) if key else best
        for x in items[1:]:
            xk = I.call(key, [x], {}, n) if key else x
            c = I.compare(">" if is_max else "<", xk, bk, n)
            t = I.truth_sym(c, n)
            if isinstance(t, bool):
                if t:
                    best, bk = x, xk
            elif I.scalar_like(best) and I.scalar_like(x) and key is None:
                best = mk_ite(SV(t), x, best)
                bk = best
            else:
                if I.ctx.branch(t):
                    best, bk = x, xk
        return best

    def b_min(self, I, a, k, n):
        return self._minmax(I, a, k, n, False)

    def b_max(self, I, a, k, n):
        return self._minmax(I, a, k, n, True)

    def b_sum(self, I, a, k, n):
        acc = a[1] if len(a) > 1 else k.get("start", 0)
        for x in I.iterate(a[0], n):
            acc = I.binop("+", acc, x, n)
        return acc

    def b_abs(self, I, a, k, n):
        x = a[0]
        if isinstance(x, SV):
            return SV(z3.If(x.t >= 0, x.t, -x.t))
        if isinstance(x, Obj):
            return I.call(I.getattr(x, "__abs__", n), [], {}, n)
        if type(x).__name__ == "NDArr":
            return self.numpy.np_abs(I, [x], {}, n)
        return abs(x)

    def b_round(self, I, a, k, n):
        if deep_concrete(a):
            return round(*a)
        raise Unsupported("round() of symbolic value")

    def b_divmod(self, I, a, k, n):
        return (I.binop("//", a[0], a[1], n), I.binop("%", a[0], a[1], n))

    def b_enumerate(self, I, a, k, n):
        start = a[1] if len(a) > 1 else k.get("start", 0)
        x = a[0]
        if isinstance(x, Obj):
            m = I.lookup_class_attr(x.cls, "__iter__")
            if m is not _MISSING:
                x = I.call(Bound(m, x), [], {}, n)
        if isinstance(x, SSeq) and self.symbolic_comprehension_source(I, x):
            return SSeq(x.length, lambda i: (I.binop("+", i, start), x.getter(i)), "tuple")
        return tuple_iter([(I.binop("+", i, start) if start else i, v) for i, v in enumerate(I.iterate(x, n))])

    def b_zip(self, I, a, k, n):
        from .interp import LazyGen
        a = list(a)
        for j, x in enumerate(a):
            if isinstance(x, Obj):
                m = I.lookup_class_attr(x.cls, "__iter__")
                if m is not _MISSING:
                    it = I.call(Bound(m, x), [], {}, n)
                    if isinstance(it, (SSeq, SRange)):
                        a[j] = it
        if a and all(isinstance(x, (SSeq, SRange)) for x in a) and any(self.symbolic_comprehension_source(I, x) for x in a):
            seqs = [x if isinstance(x, SSeq) else SSeq(self.range_len(I, x), (lambda i, x=x: I.binop("+", x.start, I.binop("*", i, x.step))), "tuple") for x in a]
            ln = to_z3(seqs[0].length)
            for q in seqs[1:]:
                ln = z3.If(to_z3(q.length) < ln, to_z3(q.length), ln)
            from .ndarray import as_dim
            return SSeq(as_dim(z3.simplify(ln)), lambda i: tuple(q.getter(i) for q in seqs), "tuple")

        def is_lazy(x):
            return isinstance(x, LazyGen) or (isinstance(x, LibObj) and x.kind == "inf_repeat")
        if any(is_lazy(x) for x in a):
            finite = [I.iterate(x, n) for x in a if not is_lazy(x)]
            if not finite:
                lists = [I.iterate(x, n) for x in a]
            else:
                m = min(len(x) for x in finite)
                lists = []
                for x in a:
                    if isinstance(x, LibObj) and x.kind == "inf_repeat":
                        lists.append([x.fields["value"]] * m)
                    elif isinstance(x, LazyGen):
                        items = []
                        while len(items) < m:
                            v = x.next()
                            if v is LazyGen.DONE:
                                break
                            items.append(v)
                        lists.append(items)
                    else:
                        lists.append(I.iterate(x, n))
            return tuple_iter(list(zip(*lists)))
        lists = [I.iterate(x, n) for x in a]
        if k.get("strict") and len({len(x) for x in lists}) > 1:
            I.raise_exc(ValueError, "zip() arguments have different lengths")
        return tuple_iter(list(zip(*lists)))

    def b_map(self, I, a, k, n):
        lists = [I.iterate(x, n) for x in a[1:]]
        return tuple_iter([I.call(a[0], list(xs), {}, n) for xs in zip(*lists)])

    def b_filter(self, I, a, k, n):
        out = []
        for x in I.iterate(a[1], n):
            keep = I.truth(I.call(a[0], [x], {}, n) if a[0] is not None else x, n)
            if keep:
                out.append(x)
        return tuple_iter(out)

    def b_sorted(self, I, a, k, n):
        items = I.iterate(a[0], n)
        key = k.get("key")
        keys = [I.call(key, [x], {}, n) for x in items] if key else items
        if deep_concrete(keys):
            order = sorted(range(len(items)), key=lambda i: keys[i], reverse=bool(k.get("reverse", False)))
            return [items[i] for i in order]
        # symbolic keys: insertion sort by forking comparisons (small sequences only)
        if len(items) > 4:
            raise Unsupported("sorted() of more than 4 symbolic keys")
        out = []
        for x, kx in zip(items, keys):
            pos = len(out)
            for j, (y, ky) in enumerate(out):
                if I.truth(I.compare("<", kx, ky, n), n):
                    pos = j
                    break
            out.insert(pos, (x, kx))
        res = [x for x, _ in out]
        return res[::-1] if k.get("reverse") else res

    def b_any(self, I, a, k, n):
        acc = []
        for x in I.iterate(a[0], n):
            t = I.truth_sym(x, n)
            if t is True:
                return True
            if t is not False:
                acc.append(t)
        return SV(z3.Or(*acc)) if acc else False

    def b_all(self, I, a, k, n):
        acc = []
        for x in I.iterate(a[0], n):
            t = I.truth_sym(x, n)
            if t is False:
                return False
            if t is not True:
                acc.append(t)
        return SV(z3.And(*acc)) if acc else True

    def b_next(self, I, a, k, n):
        from .interp import LazyGen
        it = a[0]
        if isinstance(it, LibObj) and it.kind == "inf_repeat":
            return it.fields["value"]
        if isinstance(it, LazyGen):
            v = it.next()
            if v is LazyGen.DONE:
                if len(a) > 1:
                    return a[1]
                I.raise_exc(StopIteration)
            return v
        if isinstance(it, tuple_iter):
            if it.pos < len(it.items):
                v = it.items[it.pos]
                it.pos += 1
                return v
            if len(a) > 1:
                return a[1]
            I.raise_exc(StopIteration)
        if isinstance(it, LibObj) and it.kind == "findgen":
            return self.find_first(I, it, a, n)
        if isinstance(it, (SSeq, SRange)):
            # first element of a fresh iterator over a sequence (single next() on iter(seq))
            ln = self.range_len(I, it) if isinstance(it, SRange) else it.length
            if I.truth(I.compare(">", ln, 0, n), n):
                return I.getitem(it, 0, n)
            if len(a) > 1:
                return a[1]
            I.raise_exc(StopIteration)
        raise Unsupported(f"next() on {type(it).__name__}")

    def find_first(self, I, fg, a, n):
        """next(elt for x in seq if cond(x)) over a sequence of symbolic length: returns elt(x*) for SOME index x*
        with cond (the first-match minimality is dropped: a sound weakening for proving postconditions).  The
        search fails (StopIteration / default) only if no element satisfies the filter; to show that a match
        exists the last element is tried as an explicit witness."""
        e, fr, src = fg.fields["e"], fg.fields["frame"], fg.fields["src"]
        gen = e.generators[0]
        if isinstance(src, SRange):
            length = self.range_len(I, src)
            base = lambda i: I.binop("+", src.start, I.binop("*", i, src.step))    # noqa: E731
        else:
            length = src.length
            base = src.getter
        I.ctx.note_assumption("next() over a filtered generator returns SOME matching element (first-match minimality not used)")

        def cond_at(i):
            f2 = Frame(fr.func, parent=fr.parent)
            f2.locals.update(fr.locals)
            I.assign(gen.target, base(i), f2)
            acc = []
            for cnd in gen.ifs:
                acc.append(I.sym_bool(I.eval(cnd, f2)))
            return f2, (z3.And(*acc) if len(acc) > 1 else acc[0])
        ln = to_z3(length)
        last = z3.simplify(ln - 1)
        exists = False
        if I.ctx.entails(ln > 0):
            _, c_last = cond_at(SV(last))
            exists = I.ctx.entails(c_last)
        if not exists:
            j = z3.Int(I.ctx.fresh_name("ff_j"))
            _, cj = cond_at(SV(j))
            some = z3.Exists([j], z3.And(j >= 0, j < ln, cj))
            if not I.ctx.branch(some):
                if len(a) > 1:
                    return a[1]
                I.raise_exc(StopIteration)
        k = z3.Int(I.ctx.fresh_name("ff_k"))
        I.ctx.assume(z3.And(k >= 0, k < ln))
        f2, ck = cond_at(SV(k))
        I.ctx.assume(ck)
        return I.eval(e.elt, f2)

    def b_iter(self, I, a, k, n):
        from .interp import LazyGen
        x = a[0]
        if isinstance(x, (tuple_iter, LazyGen)):
            return x
        if isinstance(x, (SSeq, SRange)) and self.symbolic_comprehension_source(I, x):
            return x
        return tuple_iter(I.iterate(x, n))

    def b_reversed(self, I, a, k, n):
        x = a[0]
        if isinstance(x, Obj):
            m = I.lookup_class_attr(x.cls, "__reversed__")
            if m is not _MISSING:
                return I.call(Bound(m, x), [], {}, n)
            ln = I.lookup_class_attr(x.cls, "__len__")
            gi = I.lookup_class_attr(x.cls, "__getitem__")
            if ln is _MISSING or gi is _MISSING:
                I.fail("TypeError", "object is not reversible", n)
            length = I.call(Bound(ln, x), [], {}, n)
            if isinstance(length, SV):
                return SSeq(length, lambda i: I.call(Bound(gi, x), [I.binop("-", I.binop("-", length, 1), i)], {}, n), "tuple")
            return tuple_iter([I.call(Bound(gi, x), [j], {}, n) for j in range(length - 1, -1, -1)])
        if isinstance(x, SSeq):
            return SSeq(x.length, lambda i: x.getter(I.binop("-", I.binop("-", x.length, 1), i)), x.kind)
        if isinstance(x, tuple_iter):
            I.fail("TypeError", "'generator' object is not reversible", n)
        return tuple_iter(list(reversed(I.iterate(x, n))))

    def b_bool(self, I, a, k, n):
        if not a:
            return False
        t = I.truth_sym(a[0], n)
        return t if isinstance(t, bool) else SV(t)

    def b_callable(self, I, a, k, n):
        x = a[0]
        if isinstance(x, (Func, Bound, LibFn)):
            return True
        if isinstance(x, Obj):
            return I.lookup_class_attr(x.cls, "__call__") is not _MISSING
        if isinstance(x, (SV, SStr, SSeq, SRange, LibObj)):
            return False
        return callable(x)

    def b_print(self, I, a, k, n):
        return None

    def b_id(self, I, a, k, n):
        return id(a[0])

    def b_hash(self, I, a, k, n):
        x = a[0]
        I.ctx.note_assumption(A_HASH)
        return self.hash_of(I, x, n)

    def hash_of(self, I, x, n):
        if isinstance(x, SV):
            if x.is_int:
                return SV(_HASH_INT(x.t))
            raise Unsupported("hash of symbolic non-int")
        if isinstance(x, tuple):
            hs = [to_z3(self.hash_of(I, e, n)) for e in x]
            if len(hs) == 2:
                return SV(_HASH_T2(*hs))
            if len(hs) == 3:
                return SV(_HASH_T3(*hs))
            raise Unsupported("hash of tuple of this arity")
        if isinstance(x, Obj):
            m = I.lookup_class_attr(x.cls, "__hash__")
            if m is None:
                I.fail("TypeError", f"unhashable type: {x.cls.__name__}", n)
            if m is _MISSING or m is object.__hash__:
                return id(x)
            return I.call(Bound(m, x), [], {}, n)
        if isinstance(x, bool):
            return hash(x)
        if isinstance(x, int):
            # keep consistent with the symbolic int hash
            return SV(_HASH_INT(z3.IntVal(int(x))))
        try:
            return hash(x)
        except TypeError as ex:
            I.fail("TypeError", str(ex), n)

    # ------------------------------------------------------------------ datetime / calendar
    def c_date(self, I, a, k, n):
        names = ("year", "month", "day")
        vals = dict(zip(names, a))
        vals.update(k)
        if len(vals) != 3:
            I.fail("TypeError", "date() requires year, month, day", n)
        y, m, d = (vals[x] for x in names)
        for x in (y, m, d):
            if x is None or isinstance(x, (float, str, SStr, Obj, tuple, LibObj)) or (isinstance(x, SV) and not x.is_int):
                I.fail("TypeError", f"an integer is required (got type {type(x).__name__})", n)
        if all(isinstance(x, int) for x in (y, m, d)):
            try:
                datetime.date(y, m, d)
            except ValueError as ex:
                I.raise_exc(ValueError, str(ex))
            return LibObj("date", year=y, month=m, day=d)
        I.ctx.note_assumption(A_DATE)
        valid = z_valid_date(to_z3(y), to_z3(m), to_z3(d))
        if not I.ctx.branch(valid):
            I.raise_exc(ValueError, "date value out of range")
        return LibObj("date", year=y, month=m, day=d)

    def date_toordinal(self, I, d):
        y, m, dd = d.fields["year"], d.fields["month"], d.fields["day"]
        if all(isinstance(x, int) for x in (y, m, dd)):
            return datetime.date(y, m, dd).toordinal()
        I.ctx.note_assumption(A_DATE)
        o = z_ymd2ord(to_z3(y), to_z3(m), to_z3(dd))
        self.register_date(I, (to_z3(y), to_z3(m), to_z3(dd)), o)
        return SV(o)

    def register_date(self, I, ymd, o):
        """Ground instances of the (assumed, validated) monotonicity lemma for every pair of valid dates."""
        dates = I.ctx.ghost.setdefault("dates", [])
        key = tuple(t.get_id() for t in ymd)
        if any(k == key for k, _, _ in dates):
            return
        for _, ymd2, o2 in dates:
            I.ctx.note_assumption(A_DATE_MONO)
            I.ctx.assume(z_lex_le(ymd2, ymd) == (o2 <= o))
            I.ctx.assume(z_lex_le(ymd, ymd2) == (o <= o2))
        dates.append((key, ymd, o))

    def c_fromordinal(self, I, a, k, n):
        x = a[0]
        if isinstance(x, Obj) or I.is_native_repo_instance(x):
            x = I.index_of(x, n)
        if isinstance(x, int):
            try:
                d = datetime.date.fromordinal(x)
            except ValueError as ex:
                I.raise_exc(ValueError, str(ex))
            return LibObj("date", year=d.year, month=d.month, day=d.day)
        if not (isinstance(x, SV) and x.is_int):
            I.fail("TypeError", "fromordinal() argument must be int", n)
        I.ctx.note_assumption(A_DATE)
        if not I.ctx.branch(z3.And(x.t >= 1, x.t <= MAX_ORD)):
            I.raise_exc(ValueError, "ordinal out of range")
        cache = I.ctx.ghost.setdefault("fromordinal", {})
        key = x.t.get_id()
        if key not in cache:
            y = I.ctx.fresh_int("fo_y")
            m = I.ctx.fresh_int("fo_m")
            d = I.ctx.fresh_int("fo_d")
            I.ctx.assume(z_valid_date(y.t, m.t, d.t))
            I.ctx.assume(z_ymd2ord(y.t, m.t, d.t) == x.t)
            cache[key] = (y, m, d)
            self.register_date(I, (y.t, m.t, d.t), x.t)
        y, m, d = cache[key]
        return LibObj("date", year=y, month=m, day=d)

    def c_monthrange(self, I, a, k, n):
        y, m = a
        if isinstance(y, int) and isinstance(m, int):
            try:
                return calendar.monthrange(y, m)
            except ValueError as ex:     # IllegalMonthError is a ValueError
                I.raise_exc(ValueError, str(ex))
        I.ctx.note_assumption(A_MONTHRANGE)
        ty, tm = to_z3(y), to_z3(m)
        if not I.ctx.branch(z3.And(tm >= 1, tm <= 12)):
            I.raise_exc(ValueError, "bad month number")
        return (SV(F_WEEKDAY(ty, tm)), SV(z_days_in_month(ty, tm)))

    # ------------------------------------------------------------------ copy / itertools
    def c_deepcopy(self, I, a, k, n):
        I.ctx.note_assumption(A_DEEPCOPY)
        memo = {}

        def dc(v):
            if isinstance(v, Obj):
                if id(v) in memo:
                    return memo[id(v)]
                dcm = I.lookup_class_attr(v.cls, "__deepcopy__")
                if dcm is not _MISSING:
                    raise Unsupported("custom __deepcopy__")
                new = Obj(v.cls)
                memo[id(v)] = new
                gs = I.lookup_class_attr(v.cls, "__getstate__")
                ss = I.lookup_class_attr(v.cls, "__setstate__")
                gs = gs if gs is not _MISSING and S.is_repo_function(gs) else None
                ss = ss if ss is not _MISSING and S.is_repo_function(ss) else None
                if gs is not None or ss is not None:
                    # copy.deepcopy goes through __reduce_ex__: the state is what __getstate__ returns (the instance
                    # dictionary by default), deep-copied, and handed to __setstate__ (or merged into the dictionary)
                    state = I.call(Bound(gs, v), [], {}, n) if gs is not None else dict(v.attrs)
                    state = dc(state)
                    if ss is not None:
                        I.call(Bound(ss, new), [state], {}, n)
                    elif isinstance(state, dict):
                        new.attrs.update(state)
                    else:
                        raise Unsupported("deepcopy: __getstate__ returning something other than a dict without __setstate__")
                else:
                    for kk, vv in v.attrs.items():
                        new.attrs[kk] = dc(vv)
                if v.store is not None:
                    for kk, vv in v.store.items():
                        new.store[kk] = dc(vv)
                return new
            if isinstance(v, list):
                if id(v) in memo:
                    return memo[id(v)]
                new = []
                memo[id(v)] = new
                new.extend(dc(x) for x in v)
                return new
            if isinstance(v, dict):
                if id(v) in memo:
                    return memo[id(v)]
                new = {}
                memo[id(v)] = new
                for kk, vv in v.items():
                    new[kk] = dc(vv)
                return new
            if isinstance(v, tuple):
                return tuple(dc(x) for x in v)
            if isinstance(v, set):
                return set(v)
            if type(v).__name__ == "NDArr":
                if id(v) in memo:
                    return memo[id(v)]
                memo[id(v)] = v.copy()
                return memo[id(v)]
            if isinstance(v, LibObj):
                h = self.deepcopy_libobj(I, v, dc)
                if h is not _MISSING:
                    return h
                return v
            if I.is_native_repo_instance(v):
                return dc(I.lift_instance(v))
            return v
        return dc(a[0])

    def deepcopy_libobj(self, I, v, dc):
        return _MISSING

    def c_copy(self, I, a, k, n):
        v = a[0]
        if isinstance(v, Obj):
            new = Obj(v.cls)
            new.attrs.update(v.attrs)
            return new
        if isinstance(v, list):
            return list(v)
        if isinstance(v, dict):
            return dict(v)
        if isinstance(v, set):
            return set(v)
        return v

    def c_product(self, I, a, k, n):
        lists = [I.iterate(x, n) for x in a]
        rep = k.get("repeat", 1)
        return tuple_iter(list(itertools.product(*lists, repeat=rep)))

    def c_accumulate(self, I, a, k, n):
        items = I.iterate(a[0], n)
        func = a[1] if len(a) > 1 else k.get("func")
        out = []
        acc = _MISSING
        if "initial" in k and k["initial"] is not None:
            acc = k["initial"]
            out.append(acc)
        for x in items:
            if acc is _MISSING:
                acc = x
            else:
                acc = I.call(func, [acc, x], {}, n) if func is not None else I.binop("+", acc, x, n)
            out.append(acc)
        return tuple_iter(out)

    def c_stat_mean(self, I, a, k, n):
        items = I.iterate(a[0], n)
        if not items:
            import statistics
            I.raise_exc(statistics.StatisticsError, "mean requires at least one data point")
        I.ctx.note_assumption("statistics.mean(xs) == sum(xs)/len(xs) over the reals, NaN-propagating (validated against the library)")
        acc = 0
        for x in items:
            acc = I.binop("+", acc, x, n)
        return I.binop("/", acc, len(items), n)

    def c_repeat(self, I, a, k, n):
        if len(a) < 2:
            return LibObj("inf_repeat", value=a[0])
        return tuple_iter([a[0]] * a[1])

    # ------------------------------------------------------------------ real functions
    def m_log(self, I, x, n):
        if isinstance(x, Obj):
            return I.call(I.getattr(x, "log", n), [], {}, n)
        if isinstance(x, (int, float)) and x > 0:
            if x == 1:
                return 0.0
        I.ctx.note_assumption(A_REAL)
        return SV(F_LOG(real_of(x)), nan_of(x))

    def m_exp(self, I, x, n):
        if isinstance(x, Obj):
            return I.call(I.getattr(x, "exp", n), [], {}, n)
        if isinstance(x, (int, float)) and x == 0:
            return 1.0
        I.ctx.note_assumption(A_REAL)
        return SV(F_EXP(real_of(x)), nan_of(x))

    def m_expit(self, I, x, n):
        if isinstance(x, Obj):
            return I.call(I.getattr(x, "logistic", n), [], {}, n)
        I.ctx.note_assumption(A_REAL)
        return SV(F_EXPIT(real_of(x)), nan_of(x))

    def m_sqrt(self, I, x, n):
        if isinstance(x, Obj):
            return I.call(I.getattr(x, "sqrt", n), [], {}, n)
        I.ctx.note_assumption(A_REAL)
        return SV(F_SQRT(real_of(x)), nan_of(x))

    def m_minmax(self, I, x, y, is_max, n):
        if isinstance(x, Obj) or isinstance(y, Obj):
            # numpy on Python objects: the object loop of maximum/minimum uses the rich comparison of the objects
            # (TypeError if they do not define it) - it does NOT call a method named maximum/minimum
            c = I.compare(">=" if is_max else "<=", x, y, n)
            t = I.truth_sym(c, n)
            t = t if isinstance(t, bool) else I.ctx.branch(t)
            return x if t else y
        tx, ty = num_pair(x, y)
        return SV(z3.If(tx >= ty, tx, ty) if is_max else z3.If(tx <= ty, tx, ty))

    def m_isnan(self, I, x, n):
        if isinstance(x, SV):
            return SV(x.nan) if x.nan is not None else False
        if isinstance(x, (int, float)):
            return x != x
        raise Unsupported("isnan of non-scalar")

    def m_sign(self, I, x, n):
        t = real_of(x)
        return SV(z3.If(t > 0, z3.RealVal(1), z3.If(t < 0, z3.RealVal(-1), z3.RealVal(0))))

    # ------------------------------------------------------------------ regex
    def re_match(self, I, pat, kind, a, n):
        s = a[0]
        if isinstance(s, str):
            return getattr(pat, kind)(s)
        zs = STR.to_z3_string(I, s)
        rex = regex_to_z3(pat.pattern)
        anything = z3.Star(z3.AllChar(z3.ReSort(z3.StringSort())))
        if kind == "match":            # anchored at the start only
            rex = z3.Concat(rex, anything)
        elif kind == "search":
            rex = z3.Concat(anything, rex, anything)
        c = z3.InRe(zs, rex)
        # result is used for truthiness only: model a match object as True / None
        if I.ctx.branch(c):
            return LibObj("match", string=s)
        return None


class LibFn:
    def __init__(self, fn, name):
        self.fn = fn
        self.name = name

    def __repr__(self):
        return f"LibFn<{self.name}>"


# ----------------------------------------------------------------------------- python regex -> z3 regex
def regex_to_z3(pattern):
    try:
        import re._parser as sre_parse
        import re._constants as C
    except ImportError:   # py < 3.11
        import sre_parse
        import sre_constants as C
    tree = sre_parse.parse(pattern)

    def cat(items):
        items = [conv(x) for x in items]
        if not items:
            return z3.Re("")
        return z3.Concat(*items) if len(items) > 1 else items[0]

    def in_set(items):
        alts = []
        neg = False
        for op, av in items:
            if op is C.NEGATE:
                neg = True
            elif op is C.LITERAL:
                alts.append(z3.Re(chr(av)))
            elif op is C.RANGE:
                alts.append(z3.Range(chr(av[0]), chr(av[1])))
            elif op is C.CATEGORY:
                alts.append(category(av))
            else:
                raise Unsupported(f"regex set item {op}")
        r = z3.Union(*alts) if len(alts) > 1 else alts[0]
        if neg:
            r = z3.Intersect(z3.AllChar(z3.ReSort(z3.StringSort())), z3.Complement(r))
        return r

    def category(av):
        if av is C.CATEGORY_DIGIT:
            return z3.Range("0", "9")
        if av is C.CATEGORY_SPACE:
            return z3.Union(z3.Re(" "), z3.Re("\t"), z3.Re("\n"), z3.Re("\r"), z3.Re("\x0b"), z3.Re("\x0c"))
        if av is C.CATEGORY_WORD:
            return z3.Union(z3.Range("a", "z"), z3.Range("A", "Z"), z3.Range("0", "9"), z3.Re("_"))
        raise Unsupported(f"regex category {av}")

    def conv(item):
        op, av = item
        if op is C.LITERAL:
            return z3.Re(chr(av))
        if op is C.IN:
            return in_set(av)
        if op is C.CATEGORY:
            return category(av)
        if op is C.ANY:
            return z3.AllChar(z3.ReSort(z3.StringSort()))
        if op in (C.MAX_REPEAT, C.MIN_REPEAT):
            lo, hi, sub = av
            r = cat(sub)
            if hi is C.MAXREPEAT:
                if lo == 0:
                    return z3.Star(r)
                if lo == 1:
                    return z3.Plus(r)
                return z3.Concat(z3.Loop(r, lo, lo), z3.Star(r))
            if lo == 0 and hi == 1:
                return z3.Option(r)
            return z3.Loop(r, lo, hi)
        if op is C.SUBPATTERN:
            return cat(av[3])
        if op is C.BRANCH:
            alts = [cat(x) for x in av[1]]
            return z3.Union(*alts) if len(alts) > 1 else alts[0]
        raise Unsupported(f"regex construct {op}")
    return cat(list(tree))
