"""Symbolic model of numpy.ndarray (ASSUMED contracts on numpy, validated differentially by libcheck_np).

An array is a *view* (shape + affine index map) onto a *buffer* (the memory).  The buffer content is a
python closure from index terms to an element value, so arrays of symbolic shape need no quantifiers:
postconditions are stated for a generic (fresh, symbolic) index.  Writes replace the buffer's closure
(functional update); views created by basic slicing share the buffer (aliasing is faithful to numpy),
fancy indexing / arithmetic / pad / hstack produce fresh buffers.

Element values: float arrays hold SV reals with an explicit NaN flag, bool arrays SV bools / python bools,
int arrays SV ints / python ints, object arrays arbitrary values.
"""
from __future__ import annotations
import z3
from .values import *
from .interp import to_z3, nan_of, any_nan, mk_ite, _MISSING, tuple_iter

A_NUMPY = "numpy array semantics (indexing, views, broadcasting, pad/hstack/reductions) as modelled in pyvc/ndarray.py (validated differentially against numpy)"


def zint(v):
    if isinstance(v, SV):
        return v.t
    if isinstance(v, bool):
        return z3.IntVal(int(v))
    if isinstance(v, int):
        return z3.IntVal(v)
    if isinstance(v, z3.ExprRef):
        return v
    raise Unsupported(f"array index/dimension of type {type(v).__name__}")


def as_dim(t):
    """int when concrete, SV otherwise."""
    if isinstance(t, int):
        return t
    if isinstance(t, SV):
        t = t.t
    t = z3.simplify(t)
    if z3.is_int_value(t):
        return t.as_long()
    return SV(t)


def norm_index(I, t, nt):
    """Normalise a possibly negative index against dimension nt; uses the path condition to avoid an ite."""
    t = z3.simplify(t)
    if z3.is_int_value(t):
        v = t.as_long()
        return t if v >= 0 else z3.simplify(nt + v)
    cache = I.ctx.ghost.setdefault("nonneg", {})
    key = t.get_id()
    if key not in cache:
        cache[key] = (I.ctx.entails(t >= 0), t)      # keep the term alive with its id
    if cache[key][0]:
        return t
    return z3.simplify(z3.If(t < 0, t + nt, t))


def zmax(a, b):
    return z3.If(a >= b, a, b)


def zmin(a, b):
    return z3.If(a <= b, a, b)


NAN = None   # set below


def norm_elem(v, kind):
    if isinstance(v, z3.ExprRef):
        v = SV(v)
    if kind == "float":
        if isinstance(v, SV):
            if v.is_real:
                return v
            if v.is_int:
                return SV(z3.ToReal(v.t), v.nan)
            if v.is_bool:
                return SV(z3.If(v.t, z3.RealVal(1), z3.RealVal(0)))
        if isinstance(v, bool):
            return SV(z3.RealVal(int(v)))
        if isinstance(v, (int, float)):
            if v != v:
                return SV(z3.RealVal(0), True)
            if v in (float("inf"), float("-inf")):
                return v            # kept as the Python float: any arithmetic on it is Unsupported, concrete numpy calls see it as inf
            return SV(z3.ToReal(to_z3(v)) if isinstance(v, int) else to_z3(v))
        import fractions
        if isinstance(v, fractions.Fraction):
            return SV(z3.RealVal(str(v)))
        if v is None:
            return SV(z3.RealVal(0), True)     # numpy: None assigned into a float array becomes nan
        raise Unsupported(f"float array element of type {type(v).__name__}")
    if kind == "bool":
        if isinstance(v, SV) and not v.is_bool:
            return SV(v.t != 0)
        return v
    return v


_OOR = object()


class Buf:
    _n = 0

    def __init__(self, fn, kind, ndim):
        self.fn = fn          # callable(tuple of z3 Int terms) -> element
        self.kind = kind
        self.ndim = ndim
        Buf._n += 1
        self.bid = Buf._n


class NDArr:
    """A numpy array value: view onto a buffer.
    axes[k] for buffer axis k: ('fix', term) | ('ax', view_axis, offset_term, step_int)"""

    def __init__(self, buf, shape, axes):
        self.buf = buf
        self.shape = tuple(as_dim(d) for d in shape)
        self.axes = list(axes)

    @staticmethod
    def fresh(fn, shape, kind):
        shape = tuple(as_dim(d) for d in shape)
        buf = Buf(lambda idx: norm_elem(fn(*idx), kind), kind, len(shape))
        return NDArr(buf, shape, [("ax", k, z3.IntVal(0), 1) for k in range(len(shape))])

    @property
    def kind(self):
        return self.buf.kind

    @property
    def ndim(self):
        return len(self.shape)

    def bidx(self, vidx):
        out = []
        for ax in self.axes:
            if ax[0] == "fix":
                out.append(ax[1])
            else:
                _, va, off, step = ax
                out.append(z3.simplify(off + step * zint(vidx[va])))
        return tuple(out)

    def get(self, *vidx):
        assert len(vidx) == self.ndim, (vidx, self.shape)
        return self.buf.fn(self.bidx(vidx))

    def in_view(self, b):
        """(condition that buffer index b belongs to this view, the view index of b)."""
        conds = []
        vidx = [z3.IntVal(0)] * self.ndim
        for k, ax in enumerate(self.axes):
            if ax[0] == "fix":
                conds.append(b[k] == ax[1])
            else:
                _, va, off, step = ax
                q = b[k] - off
                if step == 1:
                    v = q
                elif step == -1:
                    v = -q
                else:
                    conds.append(q % abs(step) == 0)
                    v = q / step if step > 0 else (-q) / (-step)
                conds.append(v >= 0)
                conds.append(v < zint(self.shape[va]))
                vidx[va] = z3.simplify(v)
        # view axes that map to no buffer axis (new axes) have index 0
        return (z3.And(*conds) if conds else z3.BoolVal(True)), tuple(vidx)

    def write(self, cond_fn, val_fn):
        """buffer[b] := val_fn(view idx) wherever b is in this view and cond_fn(view idx) holds."""
        old = self.buf.fn
        kind = self.buf.kind
        me = self

        def new_fn(b):
            inside, vidx = me.in_view(b)
            c = cond_fn(vidx)
            c = inside if c is True else z3.And(inside, c if isinstance(c, z3.ExprRef) else z3.BoolVal(bool(c)))
            c = z3.simplify(c)
            if z3.is_false(c):
                return old(b)
            newv = norm_elem(val_fn(vidx), kind)
            if z3.is_true(c):
                return newv
            return elem_ite(c, newv, old(b), kind)
        self.buf.fn = new_fn

    def frozen(self):
        """Read-only snapshot of the current content (numpy evaluates eagerly: an array derived from this one must not
        see later writes into its buffer).  O(1): closures of earlier states are never modified, only replaced."""
        return NDArr(Buf(self.buf.fn, self.buf.kind, self.buf.ndim), self.shape, self.axes)

    def copy(self):
        me = self
        snap = self.buf.fn
        axes = list(self.axes)

        def fn(*vidx):
            b = []
            for ax in axes:
                if ax[0] == "fix":
                    b.append(ax[1])
                else:
                    b.append(z3.simplify(ax[2] + ax[3] * zint(vidx[ax[1]])))
            return snap(tuple(b))
        return NDArr.fresh(fn, self.shape, self.kind)

    def size_term(self):
        acc = z3.IntVal(1)
        for d in self.shape:
            acc = acc * zint(d)
        return z3.simplify(acc)

    def __repr__(self):
        return f"NDArr<{self.kind} shape={self.shape} buf#{self.buf.bid}>"


def elem_ite(c, a, b, kind="float"):
    if kind == "object":
        raise Unsupported("conditional element in an object array")
    if isinstance(a, bool) and isinstance(b, bool):
        return SV(z3.If(c, z3.BoolVal(a), z3.BoolVal(b)))
    if isinstance(a, (bool,)) or isinstance(b, bool) or (isinstance(a, SV) and a.is_bool):
        ta = a.t if isinstance(a, SV) else z3.BoolVal(a)
        tb = b.t if isinstance(b, SV) else z3.BoolVal(b)
        return SV(z3.If(c, ta, tb))
    return mk_ite(SV(c), a, b)


# ------------------------------------------------------------------------------------- index sequences
class IdxSeq:
    """1-D sequence of integer indices used for fancy indexing."""
    def __init__(self, length, at, affine=None):
        self.length = as_dim(length)
        self.at = at               # callable(k: z3 Int term) -> z3 Int term
        self.affine = affine       # (a0 term, step int) when at(k) == a0 + k*step

    @property
    def concrete(self):
        return isinstance(self.length, int)


def idxseq(I, v, node=None):
    """Coerce a python/interpreter value to an IdxSeq or return None."""
    import numpy as _np
    if isinstance(v, _np.ndarray) and v.ndim == 1 and v.dtype.kind in "iu":
        v = [int(x) for x in v.tolist()]
    if isinstance(v, (list, tuple)):
        if not all(isinstance(x, (int, SV)) and not isinstance(x, bool) for x in v):
            if any(x is None for x in v):
                raise Unsupported("None inside an index list")
            return None
        items = [zint(x) for x in v]

        def at(k, items=items):
            k = z3.simplify(k)
            if z3.is_int_value(k):
                if not (0 <= k.as_long() < len(items)):
                    return z3.IntVal(0)        # out-of-range read: only reachable under a condition the caller masks out (bounds are checked where the program reads)
                return items[k.as_long()]
            acc = items[-1]
            for j in range(len(items) - 2, -1, -1):
                acc = z3.If(k == j, items[j], acc)
            return acc
        return IdxSeq(len(items), at)
    if isinstance(v, range):
        return IdxSeq(len(v), lambda k: z3.simplify(v.start + k * v.step), (z3.IntVal(v.start), v.step))
    if isinstance(v, SRange):
        n = I.lib.range_len(I, v)
        if not isinstance(v.step, int):
            raise Unsupported("range with symbolic step as an array index")
        return IdxSeq(n, lambda k: z3.simplify(zint(v.start) + k * v.step), (zint(v.start), v.step))
    if isinstance(v, SSeq):
        def at(k):
            x = v.getter(SV(k) if isinstance(k, z3.ExprRef) else k)
            x = I.index_of(x, node) if isinstance(x, Obj) else x
            return zint(x)
        aff = None
        if isinstance(v.length, SV):
            k = z3.Int("k!probe")
            t0, t1, tk = at(z3.IntVal(0)), at(z3.IntVal(1)), at(k)
            step = z3.simplify(t1 - t0)
            if z3.is_int_value(step) and z3.is_true(z3.simplify(tk - t0 - k * step == 0)):
                aff = (z3.simplify(t0), step.as_long())
        return IdxSeq(v.length, at, aff)
    if isinstance(v, NDArr) and v.kind == "int" and v.ndim == 1:
        return IdxSeq(v.shape[0], lambda k: zint(v.get(k)))
    if isinstance(v, tuple_iter):
        return idxseq(I, list(v.items), node)
    return None


def _is_zero(v):
    if isinstance(v, SV):
        t = z3.simplify(v.t) if not z3.is_bool(v.t) else None
        return t is not None and (z3.is_int_value(t) or z3.is_rational_value(t)) and t.as_fraction() == 0 and (v.nan is None or z3.is_false(z3.simplify(v.nan)))
    return isinstance(v, (int, float)) and not isinstance(v, bool) and v == 0


def np_linalg_error():
    import numpy as np
    return np.linalg.LinAlgError


class Numpy:
    """numpy function models; installed into a Lib instance."""

    def __init__(self, lib):
        self.lib = lib
        import numpy as np
        self.np = np
        T = lib.call_table
        for name in ("full", "empty", "zeros", "ones", "pad", "isnan", "isfinite", "all", "any", "argmax", "hstack", "vstack",
                     "ix_", "tile", "repeat", "abs", "array", "column_stack", "count_nonzero", "logical_not", "where",
                     "flip", "sum", "zeros_like", "full_like", "copy", "arange", "log", "exp", "sqrt", "maximum", "minimum",
                     "nonzero", "delete", "argsort", "concatenate", "asarray", "shape", "isscalar", "array_equal", "cumsum",
                     "diag", "eye", "round", "nanmean", "mean", "prod", "squeeze", "atleast_2d", "transpose", "nan_to_num", "triu", "block", "stack"):
            fn = getattr(self, "np_" + name, None)
            if fn is not None:
                T[getattr(np, name)] = fn
        T[np.linalg.solve] = self.linalg_solve
        T[np.linalg.matrix_power] = self.np_matrix_power
        T[np.lib.stride_tricks.sliding_window_view] = self.np_sliding_window_view
        try:
            import scipy.linalg as _spl
            T[_spl.block_diag] = self.sp_block_diag
            T[_spl.solve_discrete_lyapunov] = self.sp_solve_discrete_lyapunov
        except Exception:
            pass
        try:
            import scipy.signal as _sig
            T[_sig.lfiltic] = self.sp_lfiltic
            T[_sig.lfilter] = self.sp_lfilter
        except Exception:
            pass
        try:
            import daqp as _daqp
            T[_daqp.solve] = self.daqp_solve
        except Exception:      # the solver is an optional dependency of the package under analysis
            pass
        T[np.matmul] = lambda I, a, k, n: self.matmul(I, a[0], a[1], n)
        lib.extra_getattr.append(self.getattr)
        lib.numpy = self

    def try_native(self, I, arr):
        """A model array whose shape and cells are all concrete (numerals, concrete NaN flags, +-inf) as a numpy array;
        None when anything in it is symbolic.  Used to run UNMODELLED numpy functions natively on concrete data."""
        import itertools
        from .interp import nan_of
        np = self.np
        if not all(isinstance(d, int) for d in arr.shape):
            return None
        out = np.empty(arr.shape, dtype={"bool": bool, "int": np.int64}.get(arr.kind, np.float64))
        for idx in itertools.product(*[range(d) for d in arr.shape]):
            e = arr.get(*[z3.IntVal(i) for i in idx])
            if isinstance(e, SV):
                nn = nan_of(e)
                if nn is not None:
                    nn = z3.simplify(nn)
                    if z3.is_true(nn):
                        out[idx] = np.nan
                        continue
                    if not z3.is_false(nn):
                        return None
                t = z3.simplify(e.t)
                if z3.is_true(t) or z3.is_false(t):
                    out[idx] = z3.is_true(t)
                elif z3.is_int_value(t):
                    out[idx] = t.as_long()
                elif z3.is_rational_value(t):
                    out[idx] = t.numerator_as_long() / t.denominator_as_long()
                else:
                    return None
            elif isinstance(e, (bool, int, float)):
                out[idx] = e
            else:
                return None
        return out

    # ------------------------------------------------------------------ helpers
    def note(self, I):
        I.ctx.note_assumption(A_NUMPY)

    def shape_arg(self, I, shp):
        if isinstance(shp, (int, SV)):
            return (shp,)
        return tuple(I.iterate(shp))

    def kind_of_dtype(self, dtype, fill=None):
        np = self.np
        if dtype is None:
            if isinstance(fill, bool):
                return "bool"
            if isinstance(fill, int):
                return "int"
            if isinstance(fill, SV):
                return "bool" if fill.is_bool else "int" if fill.is_int else "float"
            return "float"
        if dtype in (bool, np.bool_):
            return "bool"
        if dtype in (int, np.int64, np.int32, np.intp):
            return "int"
        if dtype in (float, np.float64, np.float32):
            return "float"
        if dtype is object:
            return "object"
        try:
            k = np.dtype(dtype).kind
            return {"f": "float", "i": "int", "u": "int", "b": "bool", "O": "object"}[k]
        except Exception:
            raise Unsupported(f"dtype {dtype!r}")

    def dtype_of_kind(self, kind):
        np = self.np
        return {"float": np.dtype("float64"), "int": np.dtype("int64"), "bool": np.dtype("bool"), "object": np.dtype("O")}[kind]

    def coerce(self, I, v, freeze=True):
        """array-like -> NDArr (or None if not array-like).  By default a snapshot is returned, because the callers
        define derived arrays lazily; view-producing operations ask for the live array (freeze=False)."""
        if isinstance(v, NDArr):
            return v.frozen() if freeze else v
        np = self.np
        if isinstance(v, np.ndarray):
            kind = self.kind_of_dtype(v.dtype)
            lst = v.tolist()
            return self.from_nested(I, lst, kind, v.shape)
        if isinstance(v, (list, tuple)):
            return self.from_nested(I, v, None, None)
        return None

    def from_nested(self, I, lst, kind, shape):
        def shp(x):
            if isinstance(x, (list, tuple)):
                if len(x) == 0:
                    return (0,)
                s0 = shp(x[0])
                return (len(x),) + s0
            if isinstance(x, NDArr):
                return tuple(x.shape)
            return ()
        shape = shape if shape is not None else shp(lst)

        def leafs(x):
            if isinstance(x, (list, tuple)):
                for y in x:
                    yield from leafs(y)
            else:
                yield x
        if any(isinstance(x, NDArr) for x in leafs(lst)):
            raise Unsupported("nested arrays in np.array")
        if kind is None:
            ls = list(leafs(lst))
            if ls and all(isinstance(x, bool) or (isinstance(x, SV) and x.is_bool) for x in ls):
                kind = "bool"
            elif ls and all((isinstance(x, int) and not isinstance(x, bool)) or (isinstance(x, SV) and x.is_int) for x in ls):
                kind = "int"
            elif all(isinstance(x, (int, float, SV, __import__("fractions").Fraction)) or x is None for x in ls):
                kind = "float"
            else:
                kind = "object"

        def fn(*idx):
            cur = [(z3.BoolVal(True), lst)]
            for d, k in enumerate(idx):
                k = z3.simplify(zint(k))
                nxt = []
                for c, sub in cur:
                    if z3.is_int_value(k):
                        if not isinstance(sub, (list, tuple)) or not (0 <= k.as_long() < len(sub)):
                            # out-of-range read: only reachable under a condition the caller masks out
                            nxt.append((z3.BoolVal(False), _OOR))
                        else:
                            nxt.append((c, sub[k.as_long()]))
                    elif not isinstance(sub, (list, tuple)):
                        nxt.append((z3.BoolVal(False), _OOR))
                    else:
                        for j, item in enumerate(sub):
                            nxt.append((z3.And(c, k == j), item))
                cur = nxt
            dflt = False if kind == "bool" else 0
            cur = [(c, (dflt if item is _OOR else item)) for c, item in cur]
            if len(cur) == 1:
                return cur[0][1]
            if not cur:
                return dflt
            acc = norm_elem(cur[-1][1], kind)
            for c, item in reversed(cur[:-1]):
                c = z3.simplify(c)
                if z3.is_false(c):
                    continue
                acc = elem_ite(c, norm_elem(item, kind), acc, kind)
            return acc
        return NDArr.fresh(fn, shape, kind)

    def dims_equal(self, I, da, db):
        if isinstance(da, int) and isinstance(db, int):
            return da == db
        ta, tb = z3.simplify(zint(da)), z3.simplify(zint(db))
        if z3.eq(ta, tb):
            return True
        return None        # unknown syntactically

    def broadcast(self, I, shapes, node):
        """numpy broadcasting of several shapes.  Returns (result shape, modes) where modes[k][d] is
        'same' | 'zero' (operand k is stretched along result dim d) | 'none' (operand has no such dim)."""
        n = max((len(s) for s in shapes), default=0)
        padded = [(None,) * (n - len(s)) + tuple(s) for s in shapes]
        out = []
        modes = [[] for _ in shapes]
        for d in range(n):
            dims = [p[d] for p in padded]
            cur = None
            for dd in dims:
                if dd is None or (isinstance(dd, int) and dd == 1):
                    continue
                if cur is None:
                    cur = dd
                    continue
                eq = self.dims_equal(I, cur, dd)
                if eq is True:
                    continue
                if eq is False:
                    I.raise_exc(ValueError, f"operands could not be broadcast together with shapes {shapes}")
                # symbolic dims: equal, or one of them is 1
                tc, td = zint(cur), zint(dd)
                if I.ctx.branch(tc == td):
                    if isinstance(dd, int):
                        cur = dd
                elif I.ctx.branch(td == 1):
                    pass
                elif I.ctx.branch(tc == 1):
                    cur = dd
                else:
                    I.raise_exc(ValueError, "operands could not be broadcast together")
            if cur is None:
                cur = 1
            out.append(cur)
            for k, dd in enumerate(dims):
                if dd is None:
                    modes[k].append("none")
                elif isinstance(dd, int) and dd == 1:
                    modes[k].append("zero" if not (isinstance(cur, int) and cur == 1) else "same")
                elif self.dims_equal(I, dd, cur) is True or isinstance(dd, int):
                    modes[k].append("same")
                else:
                    modes[k].append("same" if I.ctx.entails(zint(dd) == zint(cur)) else "zero")
        return tuple(out), modes

    def broadcast_shape(self, I, sa, sb, node):
        shape, _ = self.broadcast(I, [tuple(sa), tuple(sb)], node)
        return shape, sa, sb

    def elementwise(self, I, f, args, kind, node):
        """Apply scalar function f to array/scalar operands with broadcasting."""
        self.note(I)
        arrs = [self.coerce(I, a) if not isinstance(a, (int, float, SV, bool)) and a is not None else None for a in args]
        if all(a is None for a in arrs):
            return f(*args)
        idxs = [k for k, a in enumerate(arrs) if a is not None]
        shape, modes = self.broadcast(I, [arrs[k].shape for k in idxs], node)
        mode_of = {k: modes[j] for j, k in enumerate(idxs)}

        def fn(*idx):
            ops = []
            for k, (raw, a) in enumerate(zip(args, arrs)):
                if a is None:
                    ops.append(raw)
                    continue
                vid = []
                for d, m in enumerate(mode_of[k]):
                    if m == "none":
                        continue
                    vid.append(z3.IntVal(0) if m == "zero" else idx[d])
                ops.append(a.get(*vid))
            return f(*ops)
        return NDArr.fresh(fn, shape, kind)

    def result_kind(self, sym, a, b):
        def k(v):
            if isinstance(v, NDArr):
                return v.kind
            if isinstance(v, bool) or (isinstance(v, SV) and v.is_bool):
                return "bool"
            if isinstance(v, int) or (isinstance(v, SV) and v.is_int):
                return "int"
            return "float"
        if sym in ("==", "!=", "<", "<=", ">", ">="):
            return "bool"
        ka, kb = k(a), k(b)
        if sym == "/":
            return "float"
        if sym in ("&", "|", "^") and ka == kb == "bool":
            return "bool"
        if "float" in (ka, kb):
            return "float"
        if "object" in (ka, kb):
            return "object"
        if ka == kb == "bool" and sym in ("+", "*"):
            return "bool"
        return "int"

    def binop(self, I, sym, a, b, node):
        if isinstance(a, (list, tuple)) and isinstance(b, NDArr):
            a = self.coerce(I, a)
        if isinstance(b, (list, tuple)) and isinstance(a, NDArr):
            b = self.coerce(I, b)
        kind = self.result_kind(sym, a, b)

        def f(x, y):
            if kind == "bool" and sym in ("&", "|", "^"):
                tx, ty = I.sym_bool(x), I.sym_bool(y)
                return SV({"&": z3.And, "|": z3.Or, "^": z3.Xor}[sym](tx, ty))
            if sym in ("+", "*") and kind == "bool":
                tx, ty = I.sym_bool(x), I.sym_bool(y)
                return SV(z3.Or(tx, ty) if sym == "+" else z3.And(tx, ty))
            if isinstance(x, (SV,)) and x.is_bool:
                x = SV(z3.If(x.t, 1, 0))
            if isinstance(y, (SV,)) and y.is_bool:
                y = SV(z3.If(y.t, 1, 0))
            if sym in ("//", "%") and kind == "float":
                raise Unsupported("floor division / modulo on float arrays")
            if sym in ("==", "!=", "<", "<=", ">", ">="):
                r = I.compare(sym, x, y, node)
                return r
            return I.binop(sym, x, y, node)
        return self.elementwise(I, f, [a, b], kind, node)

    def unary(self, I, op, v, node):
        import ast
        if isinstance(op, ast.Invert):
            if v.kind == "float":
                I.raise_exc(TypeError, "ufunc 'invert' not supported for the input types")      # numpy: ~ is undefined on floating-point arrays (also empty ones)
            if v.kind != "bool":
                raise Unsupported("~ on an integer array (bitwise)")
            return self.elementwise(I, lambda x: SV(z3.Not(I.sym_bool(x))), [v], "bool", node)
        if isinstance(op, ast.USub):
            return self.elementwise(I, lambda x: I.unary(op, x, node), [v], v.kind, node)
        if isinstance(op, ast.UAdd):
            return v.copy()
        raise Unsupported("unary operator on array")

    # ------------------------------------------------------------------ attribute protocol
    def getattr(self, I, obj, name, node):
        from .libmodels import LibFn
        if not isinstance(obj, NDArr):
            if isinstance(obj, LibObj) and obj.kind == "ix":
                return _MISSING
            return _MISSING
        self.note(I)
        if name == "shape":
            return tuple(obj.shape)
        if name == "ndim":
            return obj.ndim
        if name == "size":
            return as_dim(obj.size_term())
        if name == "dtype":
            return self.dtype_of_kind(obj.kind)
        if name == "T":
            if obj.ndim == 1:
                return obj
            if obj.ndim != 2:
                raise Unsupported(".T of ndim > 2")
            axes = []
            for ax in obj.axes:
                axes.append(ax if ax[0] == "fix" else ("ax", 1 - ax[1], ax[2], ax[3]))
            return NDArr(obj.buf, (obj.shape[1], obj.shape[0]), axes)
        meths = {
            "copy": lambda I2, a, k, n: obj.copy(),
            "astype": lambda I2, a, k, n: self.astype(I2, obj, a[0] if a else k.get("dtype"), n),
            "reshape": lambda I2, a, k, n: self.reshape(I2, obj, a, n) if k.get("order", "C") == "C" else self.reshape_fortran(I2, obj, a, k, n),
            "tolist": lambda I2, a, k, n: self.tolist(I2, obj, n),
            "all": lambda I2, a, k, n: self.np_all(I2, [obj] + list(a), k, n),
            "any": lambda I2, a, k, n: self.np_any(I2, [obj] + list(a), k, n),
            "sum": lambda I2, a, k, n: self.np_sum(I2, [obj] + list(a), k, n),
            "flatten": lambda I2, a, k, n: self.flatten(I2, obj, a, k, n),
            "item": lambda I2, a, k, n: self.item(I2, obj, n),
            "fill": lambda I2, a, k, n: obj.write(lambda v: True, lambda v: a[0]),
            "nonzero": lambda I2, a, k, n: self.np_nonzero(I2, [obj], k, n),
            "transpose": lambda I2, a, k, n: I2.getattr(obj, "T", n),
            "squeeze": lambda I2, a, k, n: self.np_squeeze(I2, [obj] + list(a), k, n),
            "__radd__": lambda I2, a, k, n: self.binop(I2, "+", a[0], obj, n),
            "__rsub__": lambda I2, a, k, n: self.binop(I2, "-", a[0], obj, n),
            "__rmul__": lambda I2, a, k, n: self.binop(I2, "*", a[0], obj, n),
            "__rtruediv__": lambda I2, a, k, n: self.binop(I2, "/", a[0], obj, n),
            "__rpow__": lambda I2, a, k, n: self.binop(I2, "**", a[0], obj, n),
            "__rfloordiv__": lambda I2, a, k, n: self.binop(I2, "//", a[0], obj, n),
            "__rmod__": lambda I2, a, k, n: self.binop(I2, "%", a[0], obj, n),
        }
        if name in meths:
            return LibFn(meths[name], f"ndarray.{name}")
        raise Unsupported(f"ndarray.{name} is not modelled")

    def item(self, I, a, node):
        if all(isinstance(d, int) and d == 1 for d in a.shape) or a.ndim == 0:
            return a.get(*[z3.IntVal(0)] * a.ndim)
        raise Unsupported(".item() of a non-singleton array")

    def astype(self, I, a, dtype, node):
        kind = self.kind_of_dtype(dtype)
        if kind == a.kind:
            return a.copy()
        src = a.frozen()

        def conv(x):
            if kind == "float":
                return norm_elem(x, "float")
            if kind == "bool":
                return SV(I.sym_bool(x)) if isinstance(x, SV) else bool(x)
            if kind == "int" and a.kind == "bool":
                return SV(z3.If(I.sym_bool(x), 1, 0))
            raise Unsupported(f"astype {a.kind}->{kind}")
        return self.elementwise(I, conv, [src], kind, node)

    def tolist(self, I, a, node):
        if not all(isinstance(d, int) for d in a.shape):
            raise Unsupported("tolist of an array with symbolic shape")

        def rec(prefix, d):
            if d == a.ndim:
                return a.get(*[z3.IntVal(i) for i in prefix])
            return [rec(prefix + [i], d + 1) for i in range(a.shape[d])]
        return rec([], 0)

    def reshape(self, I, a, args, node):
        shp = args[0] if len(args) == 1 and isinstance(args[0], (tuple, list)) else tuple(args)
        shp = list(shp)
        total = a.size_term()
        if shp.count(-1) > 1:
            I.raise_exc(ValueError, "can only specify one unknown dimension")
        known = z3.IntVal(1)
        for d in shp:
            if not (isinstance(d, int) and d == -1):
                known = known * zint(d)
        known = z3.simplify(known)
        if -1 in shp:
            k = shp.index(-1)
            if z3.is_int_value(known) and known.as_long() == 0:
                I.raise_exc(ValueError, "cannot reshape array of size into shape with 0 and -1")
            # the unknown dimension must be integral
            if not I.ctx.branch(total % known == 0) if not (z3.is_int_value(known) and known.as_long() == 1) else False:
                I.raise_exc(ValueError, "cannot reshape array: size not divisible")
            if z3.is_int_value(known) and known.as_long() == 1:
                shp[k] = as_dim(total)
            else:
                q = z3.simplify(total / known)
                if not z3.is_int_value(q):
                    for cand in range(0, 9):      # small quotients are the common case (number of variants)
                        if I.ctx.entails(total == known * cand):
                            q = z3.IntVal(cand)
                            break
                shp[k] = as_dim(q)
        else:
            if not I.ctx.branch(total == known):
                I.raise_exc(ValueError, "cannot reshape array: total size changes")
        shp = tuple(as_dim(d) for d in shp)
        # special cases that are views in numpy and matter for aliasing: (n,) -> (n,1) / (n,1) -> (n,) / same shape
        if a.ndim == 1 and len(shp) == 2 and isinstance(shp[1], int) and shp[1] == 1:
            axes = [ax for ax in a.axes]
            return NDArr(a.buf, (a.shape[0], 1), axes)     # view axis 0 kept, new axis 1 unmapped
        if len(shp) == a.ndim and all(self.same_dim(I, x, y) for x, y in zip(shp, a.shape)):
            return NDArr(a.buf, a.shape, a.axes)
        # general row-major reshape: modelled as a copy (numpy may return a view; aliasing through such
        # reshapes is not relied upon by the contracts)
        src = a.frozen()
        sshape = [zint(d) for d in a.shape]
        dshape = [zint(d) for d in shp]

        def fn(*idx):
            flat = z3.IntVal(0)
            for d, i in zip(dshape, idx):
                flat = flat * d + zint(i)
            sidx = []
            rem = flat
            for k in range(len(sshape) - 1, -1, -1):
                if k == 0:
                    sidx.append(rem)
                else:
                    sidx.append(rem % sshape[k])
                    rem = rem / sshape[k]
            sidx = [z3.simplify(x) for x in reversed(sidx)]
            return src.get(*sidx)
        return NDArr.fresh(fn, shp, a.kind)

    def same_dim(self, I, x, y):
        if isinstance(x, int) and isinstance(y, int):
            return x == y
        return I.ctx.entails(zint(x) == zint(y))

    # ------------------------------------------------------------------ indexing
    def split_index(self, I, a, idx):
        if not isinstance(idx, tuple):
            idx = (idx,)
        idx = list(idx)
        if any(x is Ellipsis for x in idx):
            k = idx.index(Ellipsis)
            n_real = len([x for x in idx if x is not None and x is not Ellipsis])
            idx[k:k + 1] = [LibObj("slice", start=None, stop=None, step=None)] * (a.ndim - n_real)
        n_real = len([x for x in idx if x is not None])
        if n_real > a.ndim:
            I.raise_exc(IndexError, "too many indices for array")
        idx += [LibObj("slice", start=None, stop=None, step=None)] * (a.ndim - n_real)
        out = []
        for x in idx:
            if isinstance(x, slice):
                x = LibObj("slice", start=x.start, stop=x.stop, step=x.step)
            out.append(x)
        return out

    def slice_bounds(self, I, sl, n, node):
        f = sl.fields
        step = 1 if f["step"] is None else f["step"]
        if isinstance(step, SV):
            raise Unsupported("slice with symbolic step")
        if step == 0:
            I.raise_exc(ValueError, "slice step cannot be zero")
        nt = zint(n)

        def adj(v, lower, upper):
            if isinstance(v, Obj):
                v = I.index_of(v, node)
            if isinstance(v, int):
                if v < 0:
                    t = nt + v
                    return z3.If(t < lower, lower, t)
                return z3.If(z3.IntVal(v) > upper, upper, z3.IntVal(v))
            t = zint(v)
            return z3.If(t < 0, z3.If(t + nt < lower, lower, t + nt), z3.If(t > upper, upper, t))
        if step > 0:
            lower, upper = z3.IntVal(0), nt
            start = lower if f["start"] is None else adj(f["start"], lower, upper)
            stop = upper if f["stop"] is None else adj(f["stop"], lower, upper)
            ln = (stop - start + (step - 1)) / step
        else:
            lower, upper = z3.IntVal(-1), nt - 1
            start = upper if f["start"] is None else adj(f["start"], lower, upper)
            stop = lower if f["stop"] is None else adj(f["stop"], lower, upper)
            ln = (start - stop + (-step - 1)) / (-step)
        ln = z3.simplify(z3.If(ln > 0, ln, 0))
        return z3.simplify(start), step, ln

    def getitem(self, I, a, idx, node):
        self.note(I)
        idx = self.open_mesh_to_ix(I, idx, node)
        if isinstance(idx, LibObj) and idx.kind == "ix":
            return self.get_ix(I, a, idx, node)
        if isinstance(idx, NDArr) and idx.kind == "bool":
            # selection by a mask whose entries are all concrete (e.g. a fixed missing-value pattern)
            if idx.ndim == 1 and a.ndim == 1 and isinstance(idx.shape[0], int) and isinstance(a.shape[0], int) and idx.shape[0] == a.shape[0]:
                keep = []
                for j in range(idx.shape[0]):
                    t = I.truth_sym(idx.get(z3.IntVal(j)))
                    if not isinstance(t, bool):
                        # decided by the path condition (e.g. a placement pattern that depends on index arithmetic)
                        if I.ctx.entails(t):
                            t = True
                        elif I.ctx.entails(z3.Not(t)):
                            t = False
                        else:
                            t = I.ctx.branch(t)          # data-dependent shape: one path per mask pattern
                    if t:
                        keep.append(j)
                return self.getitem(I, a, (keep,), node) if keep else NDArr.fresh(lambda i: 0, (0,), a.kind)
            raise Unsupported("boolean-mask selection (data dependent shape)")
        parts = self.bool_parts_to_positions(I, self.split_index(I, a, idx), node)
        fancy = [(k, idxseq(I, p, node)) for k, p in enumerate(parts)
                 if not (isinstance(p, (int, SV)) or (isinstance(p, LibObj) and p.kind == "slice") or p is None or isinstance(p, Obj))]
        if any(s is None for _, s in fancy):
            raise Unsupported(f"index of type {[type(p).__name__ for p in parts]}")
        if not fancy:
            return self.basic_index(I, a, parts, node)
        if len(fancy) > 1:
            # paired integer index arrays a[rows, cols]: element k is a[rows[k], cols[k]]
            seqs = dict(fancy)
            if not all(sq.concrete for sq in seqs.values()) or len({sq.length for sq in seqs.values()}) != 1:
                raise Unsupported("paired fancy indices of symbolic or different lengths")
            if any(p is None or (isinstance(p, LibObj) and p.kind == "slice") for p in parts) or len(parts) != a.ndim:
                raise Unsupported("paired fancy indices mixed with slices")
            L = next(iter(seqs.values())).length
            src = a.frozen()
            cells = []
            for k in range(L):
                pos = []
                for d, p in enumerate(parts):
                    nd = zint(a.shape[d])
                    t = seqs[d].at(z3.IntVal(k)) if d in seqs else zint(I.index_of(p, node) if isinstance(p, Obj) else p)
                    I.require("IndexError", z3.And(t >= -nd, t < nd), node)
                    pos.append(z3.simplify(z3.If(t < 0, t + nd, t)))
                cells.append(src.get(*pos))
            return self.from_nested(I, cells, a.kind, (L,))
        # apply the basic part first on a view where the fancy axis is kept whole, then gather
        pos = 0
        axis_in_src = 0
        src_axis = None
        basic = []
        d = 0
        for k, p in enumerate(parts):
            if p is None:
                basic.append(p)
                continue
            if k == fancy[0][0]:
                basic.append(LibObj("slice", start=None, stop=None, step=None))
            else:
                basic.append(p)
            d += 1
        view = self.basic_index(I, a, basic, node)
        view = view.frozen() if isinstance(view, NDArr) else view
        # position of the fancy axis inside `view`
        vpos = 0
        for k, p in enumerate(parts):
            if k == fancy[0][0]:
                break
            if p is None or (isinstance(p, LibObj) and p.kind == "slice"):
                vpos += 1
        seq = fancy[0][1]
        n = zint(view.shape[vpos])
        self.check_seq_bounds(I, seq, n, node)

        def fn(*vidx):
            k = zint(vidx[vpos])
            p = seq.at(k)
            p = z3.simplify(z3.If(p < 0, p + n, p))
            full = list(vidx)
            full[vpos] = p
            return view.get(*full)
        shape = list(view.shape)
        shape[vpos] = seq.length
        return NDArr.fresh(fn, shape, a.kind)

    def check_seq_bounds(self, I, seq, n, node):
        if seq.concrete:
            for k in range(seq.length):
                p = seq.at(z3.IntVal(k))
                I.require("IndexError", z3.And(p >= -n, p < n), node)
        elif seq.affine is not None:
            a0, step = seq.affine
            ln = zint(seq.length)
            last = a0 + (ln - 1) * step
            I.require("IndexError", z3.Or(ln <= 0, z3.And(a0 >= -n, a0 < n, last >= -n, last < n)), node)
        else:
            # neither concrete nor affine: the bound has to hold for EVERY position, which cannot be split into a raising and
            # a non-raising path on a formula with a quantified position - it is accepted only when it is entailed outright
            k = z3.Int(I.ctx.fresh_name("k!bound"))
            ln = zint(seq.length)
            p = seq.at(k)
            if not I.ctx.entails(z3.Implies(z3.And(k >= 0, k < ln), z3.And(p >= -n, p < n))):
                raise Unsupported("fancy index of symbolic length that is not affine and not provably inside the array")

    def basic_index(self, I, a, parts, node):
        axes = list(a.axes)
        new_shape = []
        remap = {}      # old view axis -> ('fix', term) | ('ax', new_axis, start, step)
        va = 0
        for p in parts:
            if p is None:
                new_shape.append(1)
                continue
            n = a.shape[va]
            if isinstance(p, Obj):
                p = I.index_of(p, node)
            if isinstance(p, (int, SV)):
                t = zint(p)
                nt = zint(n)
                I.require("IndexError", z3.And(t >= -nt, t < nt), node)
                remap[va] = ("fix", norm_index(I, t, nt))
            else:
                start, step, ln = self.slice_bounds(I, p, n, node)
                remap[va] = ("ax", len(new_shape), start, step)
                new_shape.append(as_dim(ln))
            va += 1
        new_axes = []
        for ax in axes:
            if ax[0] == "fix":
                new_axes.append(ax)
                continue
            _, v, off, step = ax
            r = remap[v]
            if r[0] == "fix":
                new_axes.append(("fix", z3.simplify(off + step * r[1])))
            else:
                new_axes.append(("ax", r[1], z3.simplify(off + step * r[2]), step * r[3]))
        out = NDArr(a.buf, new_shape, new_axes)
        if not new_shape:
            return out.get()          # scalar
        return out

    def get_ix(self, I, a, ix, node):
        seqs = ix.fields["seqs"]
        if len(seqs) != a.ndim:
            raise Unsupported("np.ix_ with fewer sequences than dimensions")
        dims = [zint(d) for d in a.shape]
        for s, n in zip(seqs, dims):
            self.check_seq_bounds(I, s, n, node)
        a = a.frozen()

        def fn(*vidx):
            full = []
            for s, n, k in zip(seqs, dims, vidx):
                p = s.at(zint(k))
                full.append(z3.simplify(z3.If(p < 0, p + n, p)))
            return a.get(*full)
        return NDArr.fresh(fn, [s.length for s in seqs], a.kind)

    def value_getter(self, I, value, shape, node):
        """callable(view idx) -> element, broadcasting `value` to `shape`."""
        arr = self.coerce(I, value) if not isinstance(value, (int, float, SV, bool)) and value is not None else None
        if isinstance(value, tuple_iter):
            arr = self.coerce(I, list(value.items))
        if arr is None:
            if not (isinstance(value, (int, float, SV, bool)) or value is None):
                raise Unsupported(f"assigning a {type(value).__name__} into an array")
            return lambda vidx: value
        # broadcasting of the value against the target shape
        if arr.ndim > len(shape):
            # leading singleton dims may be dropped
            extra = arr.ndim - len(shape)
            if not all(isinstance(d, int) and d == 1 for d in arr.shape[:extra]):
                I.raise_exc(ValueError, "could not broadcast input array")
            arr = NDArr(arr.buf, arr.shape[extra:], [ax if ax[0] == "fix" else ("ax", ax[1] - extra, ax[2], ax[3]) if ax[1] >= extra else ("fix", ax[2]) for ax in arr.axes])
        off = len(shape) - arr.ndim
        for k, d in enumerate(arr.shape):
            full = shape[off + k]
            if isinstance(d, int) and d == 1:
                continue
            if isinstance(d, int) and isinstance(full, int):
                if d != full:
                    I.raise_exc(ValueError, f"could not broadcast input array from shape {arr.shape} into shape {shape}")
            else:
                if not I.ctx.branch(zint(d) == zint(full)):
                    I.raise_exc(ValueError, "could not broadcast input array (shape mismatch)")

        def get(vidx):
            vid = []
            for k, d in enumerate(arr.shape):
                vid.append(z3.IntVal(0) if (isinstance(d, int) and d == 1) else vidx[off + k])
            return arr.get(*vid)
        return get

    def setitem(self, I, a, idx, value, node):
        self.note(I)
        if isinstance(idx, NDArr) and idx.kind == "bool":
            mask = idx.frozen()
            if len(mask.shape) != a.ndim:
                raise Unsupported("boolean mask of different rank")
            if isinstance(value, (int, float, SV)) or value is None:
                a.write(lambda vidx: I.sym_bool(mask.get(*vidx)), lambda vidx: value)
                return
            if mask.ndim == 1:
                # a[mask] = values: the k-th selected position receives values[k] (positions: concrete, entailed, or one path per pattern)
                (pos,) = self.np_nonzero(I, [mask], {}, node)
                _, lst = self.dense(I, pos, "mask positions")
                return self.setitem(I, a, [int(z3.simplify(zint(v)).as_long()) if not isinstance(v, int) else v for v in lst], value, node)
            raise Unsupported("boolean-mask assignment of an array value")
        idx = self.open_mesh_to_ix(I, idx, node)
        if isinstance(idx, LibObj) and idx.kind == "ix":
            # a[np.ix_(rows, cols)] = value : the cross product of the (concrete) index lists receives value[i, j]
            seqs = idx.fields["seqs"]
            if len(seqs) != a.ndim or not all(sq.concrete for sq in seqs):
                raise Unsupported("assignment through np.ix_ with symbolic index lists")
            import itertools as _it
            shape = tuple(sq.length for sq in seqs)
            getter = self.value_getter(I, value, shape, node)
            for pos in _it.product(*[range(n_) for n_ in shape]):
                cell = []
                for d, (sq, kk) in enumerate(zip(seqs, pos)):
                    nd = zint(a.shape[d])
                    t = sq.at(z3.IntVal(kk))
                    I.require("IndexError", z3.And(t >= -nd, t < nd), node)
                    cell.append(z3.simplify(z3.If(t < 0, t + nd, t)))
                a.write(lambda vidx, cell=cell: z3.And(*[vi == cc for vi, cc in zip(vidx, cell)]), lambda vidx, pos=pos: getter(tuple(z3.IntVal(x) for x in pos)))
            return
        parts = self.bool_parts_to_positions(I, self.split_index(I, a, idx), node)
        fancy = [(k, idxseq(I, p, node)) for k, p in enumerate(parts)
                 if not (isinstance(p, (int, SV)) or (isinstance(p, LibObj) and p.kind == "slice") or p is None or isinstance(p, Obj))]
        if any(s is None for _, s in fancy):
            raise Unsupported(f"index of type {[type(p).__name__ for p in parts]} in assignment")
        if not fancy:
            target = self.basic_index_view(I, a, parts, node)
            getter = self.value_getter(I, value, target.shape, node)
            target.write(lambda vidx: True, getter)
            return
        if len(fancy) > 1:
            # paired integer index arrays, e.g. a[np.where(mask)] = v : element k of every sequence addresses one cell
            seqs = dict(fancy)
            if not all(sq.concrete for sq in seqs.values()) or len({sq.length for sq in seqs.values()}) != 1:
                raise Unsupported("paired fancy indices of symbolic or different lengths in assignment")
            if any(p is None or (isinstance(p, LibObj) and p.kind == "slice") for p in parts) or len(parts) != a.ndim:
                raise Unsupported("paired fancy indices mixed with slices in assignment")
            L = next(iter(seqs.values())).length
            getter = self.value_getter(I, value, (L,), node)
            for k in range(L):
                pos = []
                for d, p in enumerate(parts):
                    nd = zint(a.shape[d])
                    if d in seqs:
                        t = seqs[d].at(z3.IntVal(k))
                    else:
                        t = zint(I.index_of(p, node) if isinstance(p, Obj) else p)
                    I.require("IndexError", z3.And(t >= -nd, t < nd), node)
                    pos.append(z3.simplify(z3.If(t < 0, t + nd, t)))
                a.write(lambda vidx, pos=pos: z3.And(*[vi == pp for vi, pp in zip(vidx, pos)]), lambda vidx, k=k: getter((z3.IntVal(k),)))
            return
        fk, seq = fancy[0]
        basic = [LibObj("slice", start=None, stop=None, step=None) if k == fk else p for k, p in enumerate(parts)]
        view = self.basic_index_view(I, a, basic, node)
        vpos = 0
        for k, p in enumerate(parts):
            if k == fk:
                break
            if p is None or (isinstance(p, LibObj) and p.kind == "slice"):
                vpos += 1
        n = zint(view.shape[vpos])
        self.check_seq_bounds(I, seq, n, node)
        tshape = list(view.shape)
        tshape[vpos] = seq.length
        getter = self.value_getter(I, value, tuple(tshape), node)
        if seq.concrete:
            # sequential stores, later ones win
            for k in range(seq.length):
                p = seq.at(z3.IntVal(k))
                p = z3.simplify(z3.If(p < 0, p + n, p))

                def cond(vidx, p=p):
                    return vidx[vpos] == p

                def val(vidx, k=k):
                    full = list(vidx)
                    full[vpos] = z3.IntVal(k)
                    return getter(tuple(full))
                view.write(cond, val)
            return
        if seq.affine is None:
            raise Unsupported("assignment through a non-affine index sequence of symbolic length")
        a0, step = seq.affine
        ln = zint(seq.length)
        # all indices are in range (checked) and, for non-negative a0 .. last, distinct
        I.require("IndexError", z3.Or(ln <= 0, a0 >= 0, a0 + (ln - 1) * step < 0), node)   # no wrap-around mixing
        base = z3.If(a0 < 0, a0 + n, a0)

        def cond(vidx):
            q = vidx[vpos] - base
            kk = q / step if step > 0 else (-q) / (-step)
            return z3.And(q % abs(step) == 0, kk >= 0, kk < ln)

        def val(vidx):
            q = vidx[vpos] - base
            kk = z3.simplify(q / step if step > 0 else (-q) / (-step))
            full = list(vidx)
            full[vpos] = kk
            return getter(tuple(full))
        view.write(cond, val)

    def open_mesh_to_ix(self, I, idx, node):
        """(rows[:, None], cols[None, :]) - what np.ix_ returns - given as two 2-D integer arrays: the same cross product"""
        if isinstance(idx, tuple) and len(idx) == 2 and all(isinstance(p, (NDArr, self.np.ndarray)) for p in idx):
            shp = [tuple(p.shape) for p in idx]
            kinds = [(p.kind if isinstance(p, NDArr) else ("int" if p.dtype.kind in "iu" else "other")) for p in idx]
            if all(k == "int" for k in kinds) and len(shp[0]) == 2 and len(shp[1]) == 2 and shp[0][1] == 1 and shp[1][0] == 1 \
                    and all(isinstance(d, int) for sh in shp for d in sh):
                def flat(p):
                    if isinstance(p, NDArr):
                        _, l = self.dense(I, p, "open mesh")
                        return [x for row in l for x in row]
                    return [int(x) for x in p.flatten().tolist()]
                return LibObj("ix", seqs=[idxseq(I, flat(idx[0]), node), idxseq(I, flat(idx[1]), node)])
        return idx

    def bool_parts_to_positions(self, I, parts, node):
        """a 1-D boolean mask used as ONE component of an index (a[:, mask]) selects the positions where it is true:
        replaced by those positions (mask bits concrete, entailed, or one path per pattern)"""
        out = []
        for p in parts:
            if isinstance(p, NDArr) and p.kind == "bool" and p.ndim == 1:
                (pos,) = self.np_nonzero(I, [p], {}, node)
                _, lst = self.dense(I, pos, "mask positions")
                p = [int(z3.simplify(zint(v)).as_long()) if not isinstance(v, int) else v for v in lst]
            elif isinstance(p, self.np.ndarray) and p.dtype == bool and p.ndim == 1:
                p = [int(j) for j in self.np.nonzero(p)[0]]
            elif isinstance(p, (list, tuple)) and p and all(isinstance(x, bool) for x in p):
                p = [j for j, x in enumerate(p) if x]          # a list of Python bools is a boolean mask
            out.append(p)
        return out

    def basic_index_view(self, I, a, parts, node):
        r = self.basic_index_keep(I, a, parts, node)
        return r

    def row_view(self, I, a, i):
        """a[i] as a view WITHOUT a bounds obligation (used by lazily evaluated element functions; the bound is
        checked where the program actually reads)."""
        parts = [i] + [LibObj("slice", start=None, stop=None, step=None)] * (a.ndim - 1)
        r = self.basic_index_keep(I, a, parts, None, check=False)
        return r if r.shape else r.get()

    def basic_index_keep(self, I, a, parts, node, check=True):
        """basic_index that returns a 0-d view instead of a scalar."""
        axes = list(a.axes)
        new_shape = []
        remap = {}
        va = 0
        for p in parts:
            if p is None:
                new_shape.append(1)
                continue
            n = a.shape[va]
            if isinstance(p, Obj):
                p = I.index_of(p, node)
            if isinstance(p, (int, SV)):
                t = zint(p)
                nt = zint(n)
                if check:
                    I.require("IndexError", z3.And(t >= -nt, t < nt), node)
                remap[va] = ("fix", norm_index(I, t, nt) if check else z3.simplify(z3.If(t < 0, t + nt, t)))
            else:
                start, step, ln = self.slice_bounds(I, p, n, node)
                remap[va] = ("ax", len(new_shape), start, step)
                new_shape.append(as_dim(ln))
            va += 1
        new_axes = []
        for ax in axes:
            if ax[0] == "fix":
                new_axes.append(ax)
                continue
            _, v, off, step = ax
            r = remap[v]
            if r[0] == "fix":
                new_axes.append(("fix", z3.simplify(off + step * r[1])))
            else:
                new_axes.append(("ax", r[1], z3.simplify(off + step * r[2]), step * r[3]))
        return NDArr(a.buf, new_shape, new_axes)

    def iterate(self, I, a, node):
        n = a.shape[0]
        if not isinstance(n, int):
            raise Unsupported("iteration over an array axis of symbolic length")
        return [self.getitem(I, a, i, node) for i in range(n)]

    # ------------------------------------------------------------------ constructors
    def np_full(self, I, a, k, n):
        self.note(I)
        shp = self.shape_arg(I, a[0])
        fill = a[1] if len(a) > 1 else k["fill_value"]
        kind = self.kind_of_dtype(k.get("dtype", a[2] if len(a) > 2 else None), fill)
        return NDArr.fresh(lambda *idx: fill, shp, kind)

    def np_empty(self, I, a, k, n):
        self.note(I)
        shp = self.shape_arg(I, a[0])
        kind = self.kind_of_dtype(k.get("dtype", a[1] if len(a) > 1 else None))
        name = I.ctx.fresh_name("np_empty")
        if kind != "float":
            return NDArr.fresh(lambda *idx: 0 if kind == "int" else False, shp, kind)
        sorts = [z3.IntSort()] * len(shp)
        fv = z3.Function(name + "_v", *sorts, z3.RealSort())
        fnan = z3.Function(name + "_n", *sorts, z3.BoolSort())
        return NDArr.fresh(lambda *idx: SV(fv(*[zint(i) for i in idx]), fnan(*[zint(i) for i in idx])), shp, kind)

    def np_zeros(self, I, a, k, n):
        shp = self.shape_arg(I, a[0])
        kind = self.kind_of_dtype(k.get("dtype", a[1] if len(a) > 1 else None))
        return NDArr.fresh(lambda *idx: False if kind == "bool" else 0, shp, kind)

    def np_ones(self, I, a, k, n):
        shp = self.shape_arg(I, a[0])
        kind = self.kind_of_dtype(k.get("dtype", a[1] if len(a) > 1 else None))
        return NDArr.fresh(lambda *idx: True if kind == "bool" else 1, shp, kind)

    def np_zeros_like(self, I, a, k, n):
        src = self.coerce(I, a[0])
        return NDArr.fresh(lambda *idx: False if src.kind == "bool" else 0, src.shape, src.kind)

    def np_full_like(self, I, a, k, n):
        src = self.coerce(I, a[0])
        return NDArr.fresh(lambda *idx: a[1], src.shape, src.kind)

    def np_array(self, I, a, k, n):
        self.note(I)
        v = a[0]
        dtype = k.get("dtype", a[1] if len(a) > 1 else None)
        if isinstance(v, NDArr):
            out = v.copy()
        elif isinstance(v, (int, float, SV)):
            out = NDArr.fresh(lambda: v, (), self.kind_of_dtype(dtype, v))
        else:
            if isinstance(v, tuple_iter):
                v = list(v.items)
            if isinstance(v, SSeq):
                v = [v] if False else v
            seqs = None
            if isinstance(v, (list, tuple)) and v and all(isinstance(x, SSeq) for x in v):
                seqs = list(v)           # rows of symbolic length: shape (len(v), n)
                ln = seqs[0].length
                for q in seqs[1:]:
                    if not I.ctx.entails(to_z3(q.length) == to_z3(ln)):
                        raise Unsupported("np.array of sequences with different symbolic lengths")
                out = NDArr.fresh(lambda r, c: self._pick(seqs, r).getter(SV(zint(c))) if isinstance(r, int) else self._pick_sym(I, seqs, r, c),
                                  (len(seqs), ln), self.kind_of_dtype(dtype) if dtype is not None else "float")
            elif isinstance(v, SSeq):
                # sequence of symbolic length whose elements are scalars or tuples of fixed length
                # the element structure is probed at a generic position INSIDE the sequence (an unconstrained position
                # would make the element function's failure paths for out-of-range positions look reachable)
                if not I.ctx.branch(zint(v.length) >= 1):
                    return NDArr.fresh(lambda r: 0, (0,), self.kind_of_dtype(dtype) if dtype is not None else "float")
                kp = z3.Int(I.ctx.fresh_name("k!probe_arr"))
                I.ctx.assume(z3.And(kp >= 0, kp < zint(v.length)))
                probe = v.getter(SV(kp))
                if isinstance(probe, (tuple, list)):
                    width = len(probe)
                    out = NDArr.fresh(lambda r, c: self._elem_of(I, v.getter(SV(zint(r))), c, width), (v.length, width),
                                      self.kind_of_dtype(dtype) if dtype is not None else "float")
                else:
                    out = NDArr.fresh(lambda r: v.getter(SV(zint(r))), (v.length,), self.kind_of_dtype(dtype) if dtype is not None else "float")
            else:
                out = self.coerce(I, v)
            if out is None:
                raise Unsupported(f"np.array of {type(v).__name__}")
        if dtype is not None and self.kind_of_dtype(dtype) != out.kind:
            out = self.astype(I, out, dtype, n)
        if k.get("ndmin"):
            raise Unsupported("np.array ndmin")
        return out

    def _pick(self, seqs, r):
        return seqs[r]

    def _pick_sym(self, I, seqs, r, c):
        r = z3.simplify(zint(r))
        if z3.is_int_value(r):
            return seqs[r.as_long()].getter(SV(zint(c)))
        acc = seqs[-1].getter(SV(zint(c)))
        for j in range(len(seqs) - 2, -1, -1):
            acc = elem_ite(r == j, norm_elem(seqs[j].getter(SV(zint(c))), "float"), norm_elem(acc, "float"))
        return acc

    def _elem_of(self, I, row, c, width):
        c = z3.simplify(zint(c))
        if z3.is_int_value(c):
            return row[c.as_long()]
        acc = norm_elem(row[-1], "float")
        for j in range(width - 2, -1, -1):
            acc = elem_ite(c == j, norm_elem(row[j], "float"), acc)
        return acc

    def np_asarray(self, I, a, k, n):
        if isinstance(a[0], NDArr) and not k.get("dtype"):
            return a[0]
        return self.np_array(I, a, k, n)

    def np_copy(self, I, a, k, n):
        return self.coerce(I, a[0]).copy()

    def np_arange(self, I, a, k, n):
        r = I.lib.b_range(I, a, {}, n)
        seq = idxseq(I, r, n)
        return NDArr.fresh(lambda i: SV(seq.at(zint(i))), (seq.length,), "int")

    def np_pad(self, I, a, k, n):
        self.note(I)
        arr = self.coerce(I, a[0])
        widths = a[1] if len(a) > 1 else k["pad_width"]
        mode = k.get("mode", a[2] if len(a) > 2 else "constant")
        if mode != "constant":
            raise Unsupported("np.pad mode other than constant")
        cv = k.get("constant_values", 0)
        widths = [tuple(I.iterate(w)) for w in I.iterate(widths)]
        if len(widths) != arr.ndim:
            raise Unsupported("np.pad width spec")
        befores = [zint(w[0]) for w in widths]
        afters = [zint(w[1]) for w in widths]
        for t in befores + afters:
            if not I.ctx.branch(t >= 0):
                I.raise_exc(ValueError, "index can't contain negative values")
        dims = [zint(d) for d in arr.shape]
        shape = [z3.simplify(b + d + af) for b, d, af in zip(befores, dims, afters)]

        def fn(*idx):
            inside = []
            src = []
            for i, b, d in zip(idx, befores, dims):
                ii = zint(i)
                inside += [ii >= b, ii < b + d]
                src.append(z3.simplify(ii - b))
            c = z3.simplify(z3.And(*inside))
            if z3.is_true(c):
                return arr.get(*src)
            if z3.is_false(c):
                return cv
            return elem_ite(c, arr.get(*src), norm_elem(cv, arr.kind), arr.kind)
        return NDArr.fresh(fn, shape, arr.kind)

    def np_sliding_window_view(self, I, a, k, n):
        """sliding_window_view(x, window_shape=w, axis=ax): the window axis is appended last;
        out[..., i, ..., j] = x[..., i + j, ...]; a window longer than the axis is a ValueError."""
        self.note(I)
        arr = self.coerce(I, a[0])
        w = k.get("window_shape", a[1] if len(a) > 1 else None)
        axis = k.get("axis", a[2] if len(a) > 2 else None)
        if not isinstance(axis, int) or isinstance(w, (tuple, list)) or w is None:
            raise Unsupported("sliding_window_view with several axes")
        if axis < 0:
            axis += arr.ndim
        w = zint(w)
        if not I.ctx.branch(w >= 0):
            I.raise_exc(ValueError, "`window_shape` cannot contain negative values")
        d = zint(arr.shape[axis])
        if not I.ctx.branch(w <= d):
            I.raise_exc(ValueError, "window shape cannot be larger than input array shape")
        shape = list(arr.shape)
        shape[axis] = as_dim(d - w + 1)
        shape.append(as_dim(w))

        def fn(*idx):
            src = list(idx[:-1])
            src[axis] = z3.simplify(zint(src[axis]) + zint(idx[-1]))
            return arr.get(*src)
        return NDArr.fresh(fn, shape, arr.kind)

    def stack(self, I, arrays, axis, n):
        self.note(I)
        arrs = []
        for x in arrays:
            c = self.coerce(I, x)
            if c is None:
                raise Unsupported("stacking a non-array")
            arrs.append(c)
        if not arrs:
            I.raise_exc(ValueError, "need at least one array to concatenate")
        nd = arrs[0].ndim
        if any(x.ndim != nd for x in arrs):
            raise Unsupported("stacking arrays of different rank")
        for x in arrs[1:]:
            for d in range(nd):
                if d != axis:
                    da, db = arrs[0].shape[d], x.shape[d]
                    if isinstance(da, int) and isinstance(db, int):
                        if da != db:
                            I.raise_exc(ValueError, "all the input array dimensions except for the concatenation axis must match exactly")
                    elif not I.ctx.branch(zint(da) == zint(db)):
                        I.raise_exc(ValueError, "all the input array dimensions except for the concatenation axis must match exactly")
        offs = [z3.IntVal(0)]
        for x in arrs:
            offs.append(z3.simplify(offs[-1] + zint(x.shape[axis])))
        kinds = {x.kind for x in arrs}
        kind = "float" if "float" in kinds else arrs[0].kind

        def fn(*idx):
            i = zint(idx[axis])
            acc = None
            for j in range(len(arrs) - 1, -1, -1):
                sub = list(idx)
                sub[axis] = z3.simplify(i - offs[j])
                if isinstance(arrs[j].shape[axis], int) and arrs[j].shape[axis] == 0:
                    continue
                v = norm_elem(arrs[j].get(*sub), kind)
                if acc is None:
                    acc = v
                else:
                    c = z3.simplify(i < offs[j + 1])
                    acc = v if z3.is_true(c) else acc if z3.is_false(c) else elem_ite(c, v, acc, kind)
            if acc is None:
                return 0
            return acc
        shape = list(arrs[0].shape)
        shape[axis] = as_dim(offs[-1])
        return NDArr.fresh(fn, shape, kind)

    def np_stack(self, I, a, k, n):
        """np.stack(arrays, axis): a NEW axis; out[.., j, ..] = arrays[j][..]; all shapes must be equal."""
        self.note(I)
        arrays = k.get("arrays", a[0] if a else None)
        axis = k.get("axis", a[1] if len(a) > 1 else 0)
        arrs = [self.coerce(I, x) for x in I.iterate(arrays, n)]
        if not arrs:
            I.raise_exc(ValueError, "need at least one array to stack")
        nd = arrs[0].ndim
        if not isinstance(axis, int):
            raise Unsupported("np.stack with a symbolic axis")
        if axis < 0:
            axis += nd + 1
        for x in arrs[1:]:
            if x.ndim != nd:
                I.raise_exc(ValueError, "all input arrays must have the same shape")
            for d in range(nd):
                da, db = arrs[0].shape[d], x.shape[d]
                if isinstance(da, int) and isinstance(db, int):
                    if da != db:
                        I.raise_exc(ValueError, "all input arrays must have the same shape")
                elif not I.ctx.branch(zint(da) == zint(db)):
                    I.raise_exc(ValueError, "all input arrays must have the same shape")
        kinds = {x.kind for x in arrs}
        kind = "float" if "float" in kinds else arrs[0].kind

        def fn(*idx):
            j = z3.simplify(zint(idx[axis]))
            rest = list(idx[:axis]) + list(idx[axis + 1:])
            if z3.is_int_value(j):
                return norm_elem(arrs[j.as_long()].get(*rest), kind)
            acc = norm_elem(arrs[-1].get(*rest), kind)
            for q in range(len(arrs) - 2, -1, -1):
                acc = elem_ite(j == q, norm_elem(arrs[q].get(*rest), kind), acc, kind)
            return acc
        shape = list(arrs[0].shape)
        shape.insert(axis, len(arrs))
        return NDArr.fresh(fn, shape, kind)

    def np_hstack(self, I, a, k, n):
        arrays = I.iterate(a[0], n)
        first = self.coerce(I, arrays[0])
        return self.stack(I, arrays, 0 if first.ndim == 1 else 1, n)

    def np_vstack(self, I, a, k, n):
        arrays = [self.coerce(I, x) for x in I.iterate(a[0], n)]
        arrays = [x if x.ndim > 1 else self.reshape(I, x, [1, -1], n) for x in arrays]
        return self.stack(I, arrays, 0, n)

    def np_concatenate(self, I, a, k, n):
        return self.stack(I, I.iterate(a[0], n), k.get("axis", a[1] if len(a) > 1 else 0), n)

    def np_column_stack(self, I, a, k, n):
        arrays = [self.coerce(I, x) for x in I.iterate(a[0], n)]
        arrays = [x if x.ndim > 1 else self.reshape(I, x, [-1, 1], n) for x in arrays]
        return self.stack(I, arrays, 1, n)

    def np_ix_(self, I, a, k, n):
        seqs = []
        for x in a:
            s = idxseq(I, x, n)
            if s is None:
                if isinstance(x, (int, SV)):
                    raise Unsupported("np.ix_ of a scalar")
                raise Unsupported(f"np.ix_ of {type(x).__name__}")
            seqs.append(s)
        return LibObj("ix", seqs=seqs)

    def np_tile(self, I, a, k, n):
        arr = self.coerce(I, a[0])
        reps = a[1]
        reps = tuple(I.iterate(reps)) if not isinstance(reps, (int, SV)) else (reps,)
        if len(reps) != arr.ndim:
            raise Unsupported("np.tile with reps of different length")
        dims = [zint(d) for d in arr.shape]
        shape = [z3.simplify(d * zint(r)) for d, r in zip(dims, reps)]
        return NDArr.fresh(lambda *idx: arr.get(*[z3.simplify(zint(i) % d) if not (isinstance(ad, int) and ad == 1) else z3.IntVal(0)
                                                     for i, d, ad in zip(idx, dims, arr.shape)]), shape, arr.kind)

    def np_repeat(self, I, a, k, n):
        arr = self.coerce(I, a[0])
        reps = a[1] if len(a) > 1 else k["repeats"]
        axis = k.get("axis", a[2] if len(a) > 2 else None)
        if axis is None:
            raise Unsupported("np.repeat without axis")
        r = zint(reps)
        shape = list(arr.shape)
        shape[axis] = as_dim(z3.simplify(zint(shape[axis]) * r))

        def fn(*idx):
            sub = list(idx)
            sub[axis] = z3.simplify(zint(idx[axis]) / r)
            return arr.get(*sub)
        return NDArr.fresh(fn, shape, arr.kind)

    def np_flip(self, I, a, k, n):
        arr = self.coerce(I, a[0], freeze=False)
        axis = k.get("axis", a[1] if len(a) > 1 else None)
        axes = range(arr.ndim) if axis is None else [axis]
        out = arr
        for ax in axes:
            parts = [LibObj("slice", start=None, stop=None, step=-1 if d == ax else None) for d in range(arr.ndim)]
            out = self.basic_index_keep(I, out, parts, n)
        return out

    def np_transpose(self, I, a, k, n):
        return I.getattr(self.coerce(I, a[0], freeze=False), "T", n)

    def np_squeeze(self, I, a, k, n):
        arr = self.coerce(I, a[0], freeze=False)
        parts = []
        for d in arr.shape:
            parts.append(0 if (isinstance(d, int) and d == 1) else LibObj("slice", start=None, stop=None, step=None))
        return self.basic_index(I, arr, parts, n)

    def np_atleast_2d(self, I, a, k, n):
        arr = self.coerce(I, a[0], freeze=False)
        if arr.ndim >= 2:
            return arr
        return self.reshape(I, arr, [1, -1], n)

    def np_shape(self, I, a, k, n):
        return tuple(self.coerce(I, a[0]).shape)

    def np_isscalar(self, I, a, k, n):
        return isinstance(a[0], (int, float, SV, bool, str))

    # ------------------------------------------------------------------ element-wise functions
    def np_isnan(self, I, a, k, n):
        x = a[0]
        arr = self.coerce(I, x) if not isinstance(x, (int, float, SV)) else None
        if arr is None:
            return I.lib.m_isnan(I, x, n)
        if arr.kind != "float":
            return NDArr.fresh(lambda *idx: False, arr.shape, "bool")
        return self.elementwise(I, lambda e: SV(nan_of(e)) if nan_of(e) is not None else False, [arr], "bool", n)

    def np_isfinite(self, I, a, k, n):
        x = a[0]
        arr = self.coerce(I, x) if not isinstance(x, (int, float, SV)) else None
        I.ctx.note_assumption("np.isfinite(x) == not isnan(x): infinities are outside the real-number abstraction")
        f = lambda e: SV(z3.Not(nan_of(e))) if nan_of(e) is not None else True   # noqa: E731
        if arr is None:
            return f(norm_elem(x, "float"))
        return self.elementwise(I, f, [arr], "bool", n)

    def np_logical_not(self, I, a, k, n):
        return self.elementwise(I, lambda e: SV(z3.Not(I.sym_bool(e))), [self.coerce(I, a[0])], "bool", n)

    def _emap(self, I, scalar_fn, a, n, kind="float"):
        x = a[0]
        arr = self.coerce(I, x) if not isinstance(x, (int, float, SV, Obj)) else None
        if arr is None:
            return scalar_fn(I, x, n)
        return self.elementwise(I, lambda e: scalar_fn(I, e, n), [arr], kind, n)

    def np_log(self, I, a, k, n):
        return self._emap(I, I.lib.m_log, a, n)

    def np_exp(self, I, a, k, n):
        return self._emap(I, I.lib.m_exp, a, n)

    def np_sqrt(self, I, a, k, n):
        return self._emap(I, I.lib.m_sqrt, a, n)

    def np_abs(self, I, a, k, n):
        x = a[0]
        arr = self.coerce(I, x) if not isinstance(x, (int, float, SV, Obj)) else None
        if arr is None:
            return I.lib.b_abs(I, a, k, n)

        def f(e):
            if isinstance(e, SV):
                return SV(z3.If(e.t >= 0, e.t, -e.t), e.nan)
            return abs(e)
        return self.elementwise(I, f, [arr], arr.kind, n)

    def np_maximum(self, I, a, k, n):
        if not any(isinstance(x, (NDArr, list, tuple)) for x in a[:2]):
            return I.lib.m_minmax(I, a[0], a[1], True, n)
        return self.elementwise(I, lambda x, y: self.mm(I, x, y, True), [a[0], a[1]], "float", n)

    def np_minimum(self, I, a, k, n):
        if not any(isinstance(x, (NDArr, list, tuple)) for x in a[:2]):
            return I.lib.m_minmax(I, a[0], a[1], False, n)
        return self.elementwise(I, lambda x, y: self.mm(I, x, y, False), [a[0], a[1]], "float", n)

    def mm(self, I, x, y, is_max):
        x, y = norm_elem(x, "float"), norm_elem(y, "float")
        r = z3.If(x.t >= y.t, x.t, y.t) if is_max else z3.If(x.t <= y.t, x.t, y.t)
        return SV(r, any_nan(x, y))       # numpy propagates NaN in maximum/minimum

    def np_round(self, I, a, k, n):
        raise Unsupported("np.round on symbolic data")

    def np_where(self, I, a, k, n):
        if len(a) == 1:
            return self.np_nonzero(I, a, k, n)
        cond = self.coerce(I, a[0]) if not isinstance(a[0], (SV, bool)) else a[0]

        def f(c, x, y):
            t = I.truth_sym(c)
            if isinstance(t, bool):
                return x if t else y
            return elem_ite(t, norm_elem(x, "float"), norm_elem(y, "float"), "float")
        return self.elementwise(I, f, [cond, a[1], a[2]], "float", n)

    def np_triu(self, I, a, k, n):
        arr = self.coerce(I, a[0])
        d = k.get("k", a[1] if len(a) > 1 else 0)
        if arr.ndim != 2:
            raise Unsupported("np.triu of ndim != 2")
        dt = zint(d)
        zero = False if arr.kind == "bool" else 0
        return NDArr.fresh(lambda r, c: elem_ite(z3.simplify(zint(c) - zint(r) >= dt), norm_elem(arr.get(r, c), arr.kind), norm_elem(zero, arr.kind), arr.kind),
                           arr.shape, arr.kind)

    def np_nan_to_num(self, I, a, k, n):
        raise Unsupported("np.nan_to_num")

    # ------------------------------------------------------------------ reductions
    def _axis_fold(self, I, arr, axis, fold_fn, empty_val, kind, n, quant=None):
        """Reduce along `axis` (or all axes when None)."""
        self.note(I)
        if axis is None:
            if arr.ndim == 0:
                return arr.get()
            dims = arr.shape
            if all(isinstance(d, int) for d in dims):
                import itertools
                vals = [arr.get(*[z3.IntVal(i) for i in idx]) for idx in itertools.product(*[range(d) for d in dims])]
                return fold_fn(vals) if vals else empty_val
            if quant is None:
                raise Unsupported("reduction over an axis of symbolic length")
            return quant(arr, None)
        if axis < 0:
            axis += arr.ndim
        d = arr.shape[axis]
        shape = [x for k2, x in enumerate(arr.shape) if k2 != axis]
        if isinstance(d, int):
            def fn(*idx):
                vals = []
                for j in range(d):
                    full = list(idx[:axis]) + [z3.IntVal(j)] + list(idx[axis:])
                    vals.append(arr.get(*full))
                return fold_fn(vals) if vals else empty_val
            out = NDArr.fresh(fn, shape, kind)
            return out if shape else out.get()
        if quant is None:
            raise Unsupported("reduction over an axis of symbolic length")
        return quant(arr, axis)

    def _axis_arg(self, a, k):
        axis = k.get("axis", a[1] if len(a) > 1 else None)
        if isinstance(axis, tuple):
            raise Unsupported("tuple axis")
        return axis

    def by_buffer_index(self, arr, axis, b, other):
        """Element of `arr` whose position along view axis `axis` corresponds to BUFFER index b (a bound
        variable), plus that element's view index along the axis.  Quantifying over the buffer index keeps
        the array-read terms free of arithmetic, so they are usable as E-matching triggers.
        `other`: view indices for the remaining axes (the entry at `axis` is ignored)."""
        for k, ax in enumerate(arr.axes):
            if ax[0] == "ax" and ax[1] == axis:
                _, va, off, step = ax
                if step not in (1, -1):
                    break
                v = z3.simplify((b - off) if step == 1 else (off - b))
                bidx = []
                for k2, ax2 in enumerate(arr.axes):
                    if k2 == k:
                        bidx.append(b)
                    elif ax2[0] == "fix":
                        bidx.append(ax2[1])
                    else:
                        bidx.append(z3.simplify(ax2[2] + ax2[3] * zint(other[ax2[1]])))
                return arr.buf.fn(tuple(bidx)), v
        full = list(other)
        full[axis] = b
        return arr.get(*full), b

    def _quant_bool(self, I, is_all):
        def quant(arr, axis):
            if axis is None and arr.ndim == 1:
                b = z3.Int(I.ctx.fresh_name("q"))
                e, v = self.by_buffer_index(arr, 0, b, [None])
                rng = z3.And(v >= 0, v < zint(arr.shape[0]))
                body = I.sym_bool(e)
                if is_all:
                    return SV(z3.ForAll([b], z3.Implies(rng, body)))
                return SV(z3.Exists([b], z3.And(rng, body)))
            if axis is None and all(ax[0] == "fix" or ax[3] in (1, -1) for ax in arr.axes) and \
                    len([ax for ax in arr.axes if ax[0] == "ax"]) == arr.ndim:
                # quantify over BUFFER indices (clean triggers): b ranges over the image of the view
                bvars = [z3.Int(I.ctx.fresh_name("qb")) for _ in arr.axes]
                conds = []
                bidx = []
                for bv, ax in zip(bvars, arr.axes):
                    if ax[0] == "fix":
                        bidx.append(ax[1])
                        continue
                    _, va, off, step = ax
                    v = (bv - off) if step == 1 else (off - bv)
                    conds += [v >= 0, v < zint(arr.shape[va])]
                    bidx.append(bv)
                qv = [bv for bv, ax in zip(bvars, arr.axes) if ax[0] == "ax"]
                body = I.sym_bool(arr.buf.fn(tuple(bidx)))
                rng = z3.And(*conds)
                if is_all:
                    return SV(z3.ForAll(qv, z3.Implies(rng, body)))
                return SV(z3.Exists(qv, z3.And(rng, body)))
            if axis is None:
                vars_ = [z3.Int(I.ctx.fresh_name("q")) for _ in range(arr.ndim)]
                rng = z3.And(*[z3.And(v >= 0, v < zint(d)) for v, d in zip(vars_, arr.shape)])
                body = I.sym_bool(arr.get(*vars_))
                if is_all:
                    return SV(z3.ForAll(vars_, z3.Implies(rng, body)))
                return SV(z3.Exists(vars_, z3.And(rng, body)))
            shape = [x for k2, x in enumerate(arr.shape) if k2 != axis]

            def fn(*idx):
                b = z3.Int(I.ctx.fresh_name("q"))
                other = list(idx[:axis]) + [None] + list(idx[axis:])
                e, v = self.by_buffer_index(arr, axis, b, other)
                rng = z3.And(v >= 0, v < zint(arr.shape[axis]))
                body = I.sym_bool(e)
                return SV(z3.ForAll([b], z3.Implies(rng, body)) if is_all else z3.Exists([b], z3.And(rng, body)))
            return NDArr.fresh(fn, shape, "bool")
        return quant

    def np_all(self, I, a, k, n):
        x = a[0]
        if isinstance(x, (SV, bool)):
            return x
        arr = self.coerce(I, x)

        def fold(vals):
            ts = [I.sym_bool(v) for v in vals]
            r = z3.simplify(z3.And(*ts)) if ts else z3.BoolVal(True)
            return SV(r)
        return self._axis_fold(I, arr, self._axis_arg(a, k), fold, True, "bool", n, self._quant_bool(I, True))

    def np_any(self, I, a, k, n):
        x = a[0]
        if isinstance(x, (SV, bool)):
            return x
        arr = self.coerce(I, x)

        def fold(vals):
            ts = [I.sym_bool(v) for v in vals]
            r = z3.simplify(z3.Or(*ts)) if ts else z3.BoolVal(False)
            return SV(r)
        return self._axis_fold(I, arr, self._axis_arg(a, k), fold, False, "bool", n, self._quant_bool(I, False))

    def np_sum(self, I, a, k, n):
        arr = self.coerce(I, a[0])
        kind = "int" if arr.kind in ("bool", "int") else "float"

        def fold(vals):
            acc = 0
            for v in vals:
                if arr.kind == "bool":
                    v = SV(z3.If(I.sym_bool(v), 1, 0))
                acc = I.binop("+", acc, v, n)
            return acc
        return self._axis_fold(I, arr, self._axis_arg(a, k), fold, 0, kind, n)

    def np_prod(self, I, a, k, n):
        arr = self.coerce(I, a[0])

        def fold(vals):
            acc = 1
            for v in vals:
                acc = I.binop("*", acc, v, n)
            return acc
        return self._axis_fold(I, arr, self._axis_arg(a, k), fold, 1, arr.kind, n)

    def np_mean(self, I, a, k, n):
        arr = self.coerce(I, a[0])

        def fold(vals):
            acc = 0
            for v in vals:
                acc = I.binop("+", acc, v, n)
            return I.binop("/", acc, len(vals), n)
        return self._axis_fold(I, arr, self._axis_arg(a, k), fold, SV(z3.RealVal(0), True), "float", n)

    def np_count_nonzero(self, I, a, k, n):
        return self.np_sum(I, [self.astype(I, self.coerce(I, a[0]), bool, n)] + list(a[1:]), k, n)

    def np_argmax(self, I, a, k, n):
        self.note(I)
        arr = self.coerce(I, a[0])
        if self._axis_arg(a, k) is not None or arr.ndim != 1:
            raise Unsupported("np.argmax with axis / ndim != 1")
        if arr.kind != "bool":
            raise Unsupported("np.argmax on non-boolean arrays")
        d = arr.shape[0]
        if isinstance(d, int):
            if d == 0:
                I.raise_exc(ValueError, "attempt to get argmax of an empty sequence")
            acc = z3.IntVal(0)
            for j in range(d - 1, -1, -1):
                acc = z3.If(I.sym_bool(arr.get(z3.IntVal(j))), z3.IntVal(j), acc)
            return SV(z3.simplify(acc))
        nt = zint(d)
        if not I.ctx.branch(nt > 0):
            I.raise_exc(ValueError, "attempt to get argmax of an empty sequence")
        # first index holding True (0 when there is none): introduced as a constrained fresh integer
        r = z3.Int(I.ctx.fresh_name("argmax"))
        j = z3.Int(I.ctx.fresh_name("j"))
        ej, vj = self.by_buffer_index(arr, 0, j, [None])
        some = z3.Exists([j], z3.And(vj >= 0, vj < nt, I.sym_bool(ej)))
        before = z3.ForAll([j], z3.Implies(z3.And(vj >= 0, vj < r), z3.Not(I.sym_bool(ej))))
        I.ctx.assume(z3.And(r >= 0, r < nt))
        I.ctx.assume(z3.If(some, z3.And(I.sym_bool(arr.get(r)), before), r == 0))
        return SV(r)

    def np_nonzero(self, I, a, k, n):
        arr = self.coerce(I, a[0])
        if arr.ndim == 1 and isinstance(arr.shape[0], int):
            keep = []
            for j in range(arr.shape[0]):
                e = arr.get(z3.IntVal(j))
                t = I.truth_sym(e if arr.kind == "bool" else I.compare("!=", e, 0, n))
                if not isinstance(t, bool):
                    if I.ctx.entails(t):
                        t = True
                    elif I.ctx.entails(z3.Not(t)):
                        t = False
                    else:
                        t = I.ctx.branch(t)          # data-dependent shape: one path per mask pattern
                if t:
                    keep.append(j)
            return (self.from_nested(I, keep, "int", (len(keep),)),)
        if arr.ndim == 2 and all(isinstance(d, int) for d in arr.shape):
            rows, cols = [], []
            for i in range(arr.shape[0]):
                for j in range(arr.shape[1]):
                    e = arr.get(z3.IntVal(i), z3.IntVal(j))
                    t = I.truth_sym(e if arr.kind == "bool" else I.compare("!=", e, 0, n))
                    if not isinstance(t, bool):
                        if I.ctx.entails(t):
                            t = True
                        elif I.ctx.entails(z3.Not(t)):
                            t = False
                        else:
                            t = I.ctx.branch(t)
                    if t:
                        rows.append(i)
                        cols.append(j)
            return (self.from_nested(I, rows, "int", (len(rows),)), self.from_nested(I, cols, "int", (len(cols),)))
        raise Unsupported("np.nonzero / np.where(cond) (data dependent shape)")

    # ------------------------------------------------------------------ dense linear algebra on concrete shapes
    def dense(self, I, arr, what):
        """nested Python lists of the elements of an array whose shape is concrete"""
        arr = self.coerce(I, arr)
        if arr is None or not all(isinstance(d, int) for d in arr.shape):
            raise Unsupported(f"{what}: needs an array of concrete shape")
        return arr, self.tolist(I, arr, None)

    def np_eye(self, I, a, k, n):
        rows = a[0]
        cols = a[1] if len(a) > 1 else k.get("M")
        cols = rows if cols is None else cols
        kind = self.kind_of_dtype(k.get("dtype"))
        off = zint(k.get("k", 0))
        one, zero = (True, False) if kind == "bool" else ((1, 0))
        return NDArr.fresh(lambda r, c: elem_ite(z3.simplify(zint(c) - zint(r) == off), norm_elem(one, kind), norm_elem(zero, kind), kind),
                           (as_dim(zint(rows)), as_dim(zint(cols))), kind)

    def np_diag(self, I, a, k, n):
        arr = self.coerce(I, a[0])
        if k.get("k", a[1] if len(a) > 1 else 0) != 0:
            raise Unsupported("np.diag with an offset")
        if arr.ndim == 1:
            zero = False if arr.kind == "bool" else 0
            return NDArr.fresh(lambda r, c: elem_ite(z3.simplify(zint(r) == zint(c)), norm_elem(arr.get(r), arr.kind), norm_elem(zero, arr.kind), arr.kind),
                               (arr.shape[0], arr.shape[0]), arr.kind)
        if arr.ndim == 2:
            if not self.same_dim(I, arr.shape[0], arr.shape[1]):
                raise Unsupported("np.diag of a non-square matrix")
            return NDArr.fresh(lambda r: arr.get(r, r), (arr.shape[0],), arr.kind)
        raise Unsupported("np.diag of ndim > 2")

    def np_delete(self, I, a, k, n):
        arr, rows = self.dense(I, a[0], "np.delete")
        axis = k.get("axis", a[2] if len(a) > 2 else None)
        obj = a[1]
        if axis not in (0, 1) or (axis == 1 and arr.ndim != 2):
            raise Unsupported("np.delete along an axis other than 0 / 1 of a matrix")
        if isinstance(obj, NDArr):
            _, obj = self.dense(I, obj, "np.delete positions")
        idx = [obj] if isinstance(obj, (int, SV)) else [x for x in I.iterate(obj)]
        idx = [int(z3.simplify(zint(x)).as_long()) if isinstance(x, SV) and z3.is_int_value(z3.simplify(zint(x))) else x for x in idx]
        if not all(isinstance(x, int) for x in idx):
            raise Unsupported("np.delete with symbolic positions")
        m = arr.shape[axis]
        for x in idx:
            if not -m <= x < m:
                I.raise_exc(IndexError, "np.delete index out of bounds")
        drop = {x % m for x in idx} if m else set()
        if axis == 0:
            kept = [r for i, r in enumerate(rows) if i not in drop]
            shape = (len(kept),) + tuple(arr.shape[1:])
        else:
            kept = [[v for j, v in enumerate(r) if j not in drop] for r in rows]
            shape = (arr.shape[0], arr.shape[1] - len(drop))
        if any(d == 0 for d in shape):
            return NDArr.fresh(lambda *i: (False if arr.kind == "bool" else 0), shape, arr.kind)
        return self.from_nested(I, kept, arr.kind, shape)

    def np_matrix_power(self, I, a, k, n):
        """numpy.linalg.matrix_power(A, p) for a concrete p >= 0: the identity for 0, repeated products otherwise."""
        self.note(I)
        arr, _ = self.dense(I, a[0], "matrix_power")
        p = a[1] if len(a) > 1 else k.get("n")
        if isinstance(p, SV):
            t = z3.simplify(p.t)
            p = t.as_long() if z3.is_int_value(t) else p
        if not isinstance(p, int):
            raise Unsupported("matrix_power with a symbolic exponent")
        if arr.ndim != 2 or arr.shape[0] != arr.shape[1]:
            I.raise_exc(np_linalg_error(), "Last 2 dimensions of the array must be square")
        if p < 0:
            raise Unsupported("matrix_power with a negative exponent (matrix inverse)")
        out = self.np_eye(I, [arr.shape[0]], {}, n)
        for _ in range(p):
            out = self.matmul(I, out, arr, n)
        return out

    def matmul(self, I, x, y, node):
        self.note(I)
        xa, xl = self.dense(I, x, "matmul")
        ya, yl = self.dense(I, y, "matmul")
        if xa.ndim == 0 or ya.ndim == 0:
            I.raise_exc(ValueError, "matmul: input operand does not have enough dimensions")
        x1, y1 = xa.ndim == 1, ya.ndim == 1
        if x1:
            xl = [xl]
        if y1:
            yl = [[v] for v in yl]
        if xa.ndim > 2 or ya.ndim > 2:
            raise Unsupported("matmul of ndim > 2")
        inner = len(xl[0]) if xl else xa.shape[-1]
        if (len(yl) if not y1 else ya.shape[0]) != (xa.shape[-1]):
            I.raise_exc(ValueError, "matmul: mismatch in core dimension")
        ncol = ya.shape[1] if not y1 else 1
        kind = "float" if "float" in (xa.kind, ya.kind) else "int" if xa.kind == ya.kind == "int" else "float"
        if xa.kind == "bool" or ya.kind == "bool":
            raise Unsupported("matmul of boolean arrays")

        def dot(r, c):
            acc = 0
            for j in range(inner):
                p, q = xl[r][j], yl[j][c]
                if _is_zero(p) or _is_zero(q):
                    # 0 * NaN would be NaN: only skip when the other factor cannot be NaN
                    other = q if _is_zero(p) else p
                    if not (isinstance(other, SV) and other.nan is not None and not z3.is_false(z3.simplify(other.nan))):
                        continue
                acc = I.binop("+", acc, I.binop("*", p, q, node), node)
            return acc
        out = [[dot(r, c) for c in range(ncol)] for r in range(len(xl))]
        if x1 and y1:
            return out[0][0]
        if x1:
            return self.from_nested(I, out[0], kind, (ncol,))
        if y1:
            return self.from_nested(I, [row[0] for row in out], kind, (len(out),))
        return self.from_nested(I, out, kind, (len(out), ncol))

    def linalg_solve(self, I, a, k, n):
        """ASSUMED CONTRACT of numpy.linalg.solve(A, b) (a LAPACK routine, outside the verifier's reach): when it returns,
        the result x has the shape of b and satisfies A @ x == b over the reals, and it is the only such x (A is
        non-singular, otherwise LinAlgError).  Paths on which no solution exists are dropped by the assumption."""
        I.ctx.note_assumption("numpy.linalg.solve(A, b): assumed contract - returns the unique x with A @ x == b (reals; singular A raises)")
        A, Al = self.dense(I, a[0], "linalg.solve")
        B, Bl = self.dense(I, a[1], "linalg.solve")
        if A.ndim != 2 or A.shape[0] != A.shape[1]:
            I.raise_exc(self.np.linalg.LinAlgError, "Last 2 dimensions of the array must be square")
        m = A.shape[0]
        b1 = B.ndim == 1
        if b1:
            Bl = [[v] for v in Bl]
        if B.shape[0] != m or B.ndim > 2:
            I.raise_exc(ValueError, "solve: mismatch in core dimension")
        ncol = len(Bl[0]) if Bl else 0
        uid = I.ctx.fresh_name("solve")
        flags = [v.nan for row in Al + Bl for v in row if isinstance(v, SV) and v.nan is not None]
        flags = [f for f in flags if not I.ctx.entails(z3.Not(f))]
        if flags and I.ctx.branch(z3.Or(*flags)):
            # a NaN in A or b: LAPACK propagates it into the solution; WHICH entries become NaN is not specified here,
            # so every entry of the result is 'possibly NaN' (free flag) with an unconstrained value
            X = [[SV(z3.Real(f"{uid}.x{i}_{c}"), z3.Bool(f"{uid}.nan{i}_{c}")) for c in range(ncol)] for i in range(m)]
            I.ctx.assume(z3.Or(*[v.nan for row in X for v in row]))
            if b1:
                return self.from_nested(I, [row[0] for row in X], "float", (m,))
            return self.from_nested(I, X, "float", (m, ncol))
        X = [[SV(z3.Real(f"{uid}.x{i}_{c}")) for c in range(ncol)] for i in range(m)]
        for i in range(m):
            for c in range(ncol):
                acc = 0
                for j in range(m):
                    if _is_zero(Al[i][j]):
                        continue
                    acc = I.binop("+", acc, I.binop("*", Al[i][j], X[j][c], n), n)
                from .interp import num_pair
                ta, tb = num_pair(acc, Bl[i][c])
                I.ctx.assume(ta == tb)
        reg = getattr(I.ctx, "solves", None)
        if reg is None:
            reg = I.ctx.solves = []
        # solve is a function: the same system gives the same answer
        from .interp import num_pair as _np2
        for (A0, X0, B0) in reg:
            if len(A0) == m and len(B0[0]) == ncol:
                same = [(_np2(p, q)[0] == _np2(p, q)[1]) for r0, r1 in zip(A0 + B0, Al + Bl) for p, q in zip(r0, r1)]
                I.ctx.assume(z3.Implies(z3.And(*same), z3.And(*[x0.t == x1.t for r0, r1 in zip(X0, X) for x0, x1 in zip(r0, r1)])))
        reg.append((Al, X, Bl))
        if b1:
            return self.from_nested(I, [row[0] for row in X], "float", (m,))
        return self.from_nested(I, X, "float", (m, ncol))

    def flatten(self, I, obj, a, k, n):
        """ndarray.flatten(order): always a copy; 'C' row-major, 'F' column-major (1-d arrays: the same)."""
        order = k.get("order", a[0] if a else "C")
        if order not in ("C", "F"):
            raise Unsupported(f"flatten order {order!r}")
        if order == "C" or obj.ndim <= 1:
            r = self.reshape(I, obj, [-1], n)
            return r.copy() if isinstance(r, NDArr) else r
        return self.reshape_fortran(I, obj, [-1], {"order": "F"}, n)

    def reshape_fortran(self, I, a, args, k, n):
        """reshape(..., order="F") for concrete shapes: first index changes fastest on both sides (a copy)"""
        import itertools
        if k.get("order") != "F":
            raise Unsupported(f"reshape order {k.get('order')!r}")
        shp = tuple(args[0]) if len(args) == 1 and isinstance(args[0], (tuple, list)) else tuple(args)
        arr, _ = self.dense(I, a, "reshape order='F'")
        total = 1
        for d in arr.shape:
            total *= d
        if list(shp).count(-1) == 1 and all(isinstance(d, int) for d in shp):
            known = 1
            for d in shp:
                known *= d if d != -1 else 1
            if known == 0 or total % known:
                I.raise_exc(ValueError, "cannot reshape array: size not divisible")
            shp = tuple(total // known if d == -1 else d for d in shp)
        if not all(isinstance(d, int) and d >= 0 for d in shp):
            raise Unsupported("reshape order='F' with symbolic dimensions")
        t2 = 1
        for d in shp:
            t2 *= d
        if total != t2:
            I.raise_exc(ValueError, "cannot reshape array: total size changes")
        src_order = list(itertools.product(*[range(d) for d in reversed(arr.shape)]))       # last listed index slowest
        dst_order = list(itertools.product(*[range(d) for d in reversed(shp)]))
        cells = {}
        for sidx, didx in zip(src_order, dst_order):
            cells[tuple(reversed(didx))] = arr.get(*[z3.IntVal(i) for i in reversed(sidx)])

        def build(prefix, d):
            if d == len(shp):
                return cells[tuple(prefix)]
            return [build(prefix + [i], d + 1) for i in range(shp[d])]
        return self.from_nested(I, build([], 0), arr.kind, shp)

    def np_block(self, I, a, k, n):
        """np.block([[A, B], [C, D]]) for matrices of concrete shape"""
        rows = a[0]
        if not isinstance(rows, (list, tuple)) or not rows or not all(isinstance(r, (list, tuple)) for r in rows):
            raise Unsupported("np.block: only a list of lists of 2-D blocks is modelled")
        out = []
        width = None
        for r in rows:
            blocks = [self.dense(I, x, "np.block") for x in r]
            if any(b.ndim != 2 for b, _ in blocks):
                raise Unsupported("np.block of non-matrices")
            h = {b.shape[0] for b, _ in blocks}
            if len(h) != 1:
                I.raise_exc(ValueError, "np.block: mismatched heights in a block row")
            h = h.pop()
            for i in range(h):
                line = []
                for b, l in blocks:
                    line += list(l[i]) if b.shape[1] else []
                out.append(line)
            w = sum(b.shape[1] for b, _ in blocks)
            if width is not None and w != width:
                I.raise_exc(ValueError, "np.block: mismatched widths of block rows")
            width = w
        if not out or not width:
            return NDArr.fresh(lambda r, c: 0, (len(out), width or 0), "float")
        return self.from_nested(I, out, "float", (len(out), width))

    def sp_block_diag(self, I, a, k, n):
        mats = [self.dense(I, x, "block_diag") for x in a]
        if any(m.ndim != 2 for m, _ in mats):
            raise Unsupported("block_diag of non-matrices")
        R = sum(m.shape[0] for m, _ in mats)
        C = sum(m.shape[1] for m, _ in mats)
        out = [[0.0] * C for _ in range(R)]
        r0 = c0 = 0
        for m, l in mats:
            for i in range(m.shape[0]):
                for j in range(m.shape[1]):
                    out[r0 + i][c0 + j] = l[i][j]
            r0 += m.shape[0]
            c0 += m.shape[1]
        if R == 0 or C == 0:
            return NDArr.fresh(lambda r, c: 0, (R, C), "float")
        return self.from_nested(I, out, "float", (R, C))

    def sp_solve_discrete_lyapunov(self, I, a, k, n):
        """ASSUMED CONTRACT of scipy.linalg.solve_discrete_lyapunov(a, q): returns X with  X == a X a' + q  (reals); X is
        symmetric when q is."""
        from .interp import num_pair
        I.ctx.note_assumption("scipy.linalg.solve_discrete_lyapunov(a, q): assumed contract - returns X with X == a @ X @ a.T + q (reals)")
        if k:
            raise Unsupported("solve_discrete_lyapunov with options")
        A, Al = self.dense(I, a[0], "solve_discrete_lyapunov")
        Q, Ql = self.dense(I, a[1], "solve_discrete_lyapunov")
        m = A.shape[0]
        if A.ndim != 2 or Q.ndim != 2 or A.shape != (m, m) or Q.shape != (m, m):
            I.raise_exc(ValueError, "solve_discrete_lyapunov: a and q must be square matrices of the same shape")      # scipy raises ValueError
        uid = I.ctx.fresh_name("lyap")
        X = [[SV(z3.Real(f"{uid}.x{i}_{j}")) for j in range(m)] for i in range(m)]
        for i in range(m):
            for j in range(m):
                acc = Ql[i][j]
                for p in range(m):
                    if _is_zero(Al[i][p]):
                        continue
                    for q in range(m):
                        if _is_zero(Al[j][q]):
                            continue
                        acc = I.binop("+", acc, I.binop("*", I.binop("*", Al[i][p], X[p][q], n), Al[j][q], n), n)
                ta, tb = num_pair(X[i][j], acc)
                I.ctx.assume(ta == tb)
        # the (unique) solution for a symmetric q is symmetric
        sym_q = [num_pair(Ql[i][j], Ql[j][i]) for i in range(m) for j in range(i + 1, m)]
        if sym_q:
            I.ctx.assume(z3.Implies(z3.And(*[a == b for a, b in sym_q]), z3.And(*[X[i][j].t == X[j][i].t for i in range(m) for j in range(i + 1, m)])))
        reg = getattr(I.ctx, "lyaps", None)
        if reg is None:
            reg = I.ctx.lyaps = []
        reg.append((Al, Ql, X))
        return self.from_nested(I, X, "float", (m, m))

    def sp_lfiltic(self, I, a, k, n):
        """ASSUMED CONTRACT (with sp_lfilter) of scipy.signal.lfiltic(b, a, y) for b == (1,): an opaque initial state that
        stands for the past outputs y[-1], y[-2], ... = y[0], y[1], ..."""
        from .values import LibObj
        I.ctx.note_assumption("scipy.signal.lfiltic/lfilter with b=(1,): assumed contract - y[t] = (x[t] - sum_k a[k] y[t-k]) / a[0], "
                              "past outputs taken from the initial conditions, most recent first (reals)")
        b = [v for v in I.iterate(a[0], n)]
        if len(b) != 1 or not (isinstance(b[0], int) and b[0] == 1):
            raise Unsupported("lfiltic with a moving-average part")
        if len(a) > 3 or k:
            raise Unsupported("lfiltic with past inputs")
        ar = [v for v in I.iterate(a[1], n)]
        _, past = self.dense(I, a[2], "lfiltic")
        if len(past) < len(ar) - 1:
            raise Unsupported("lfiltic with fewer initial conditions than the order")
        return LibObj("lfilter_state", ar=ar, past=list(past))

    def sp_lfilter(self, I, a, k, n):
        """ASSUMED CONTRACT of scipy.signal.lfilter(b=(1,), a, x, zi=<state from lfiltic with the same a>, axis=0) on a 1-d x
        of concrete length: returns (y, zf) with  a[0] y[t] + a[1] y[t-1] + ... + a[p] y[t-p] == x[t],  t = 0..T-1."""
        from .values import LibObj
        zi = k.get("zi")
        if not (isinstance(zi, LibObj) and zi.kind == "lfilter_state") or k.get("axis", 0) not in (0, -1) or len(a) != 3:
            raise Unsupported("lfilter outside the modelled use (b=(1,), zi from lfiltic)")
        b = [v for v in I.iterate(a[0], n)]
        ar = [v for v in I.iterate(a[1], n)]
        if len(b) != 1 or not (isinstance(b[0], int) and b[0] == 1) or len(ar) != len(zi.fields["ar"]):
            raise Unsupported("lfilter outside the modelled use (b=(1,), zi from lfiltic)")
        xa, xl = self.dense(I, a[2], "lfilter")
        if xa.ndim != 1:
            raise Unsupported("lfilter on an array that is not 1-d")
        hist = list(zi.fields["past"])          # y[-1], y[-2], ...
        out = []
        for t in range(len(xl)):
            acc = xl[t]
            for j in range(1, len(ar)):
                acc = I.binop("-", acc, I.binop("*", ar[j], hist[j - 1], n), n)
            y = I.binop("/", acc, ar[0], n) if not (isinstance(ar[0], int) and ar[0] == 1) else acc
            out.append(y)
            hist.insert(0, y)
        return (self.from_nested(I, out, "float", (len(out),)), LibObj("lfilter_state", ar=ar, past=hist))

    def daqp_solve(self, I, a, k, n):
        """ASSUMED CONTRACT of daqp.solve(H, f, A, bupper, blower, sense) (a C active-set solver, outside the verifier's
        reach), for inequality constraints only (sense all 0) and as many bounds as rows of A: it returns
        (x, fval, exitflag, info) where x is a KKT point of   minimise 1/2 x'Hx + f'x  s.t.  blower <= A x <= bupper,
        i.e. there are multipliers mu with  H x + f + A' mu == 0,  blower <= A x <= bupper,  mu_i > 0 only where
        (A x)_i == bupper_i and mu_i < 0 only where (A x)_i == blower_i.  (For positive definite H this is the unique
        minimiser.)  The exit flag is assumed to report success."""
        from .interp import num_pair
        I.ctx.note_assumption("daqp.solve(H, f, A, bupper, blower, sense=0): assumed contract - returns a KKT point of the box/linearly constrained QP (reals)")
        names = ("H", "f", "A", "bupper", "blower", "sense")
        args = dict(zip(names, a))
        args.update({kk: v for kk, v in k.items() if kk in names})
        if any(kk not in names for kk in k):
            raise Unsupported("daqp.solve with solver options")
        H, Hl = self.dense(I, args["H"], "daqp.solve")
        f, fl = self.dense(I, args["f"], "daqp.solve")
        A, Al = self.dense(I, args["A"], "daqp.solve")
        bu, bul = self.dense(I, args["bupper"], "daqp.solve")
        if args.get("blower") is None:
            raise Unsupported("daqp.solve without lower bounds")
        bl, bll = self.dense(I, args["blower"], "daqp.solve")
        if args.get("sense") is not None:
            _, sl = self.dense(I, args["sense"], "daqp.solve")
            if not all(isinstance(v, int) and v == 0 or (isinstance(v, SV) and z3.is_int_value(z3.simplify(v.t)) and z3.simplify(v.t).as_long() == 0) for v in sl):
                raise Unsupported("daqp.solve with constraint types other than plain inequalities")
        m = H.shape[0]
        r = A.shape[0]
        if H.ndim != 2 or H.shape[1] != m or f.ndim != 1 or f.shape[0] != m or A.ndim != 2 or A.shape[1] != m or bu.shape != (r,) or bl.shape != (r,):
            raise Unsupported("daqp.solve: shapes outside the modelled case (bounds == rows of A)")
        for row in Hl + Al + [fl, bul, bll]:
            for v in row:
                if isinstance(v, SV) and v.nan is not None and not I.ctx.entails(z3.Not(v.nan)):
                    raise Unsupported("daqp.solve with possibly-NaN entries")
        uid = I.ctx.fresh_name("qp")
        X = [SV(z3.Real(f"{uid}.x{i}")) for i in range(m)]
        MU = [SV(z3.Real(f"{uid}.mu{i}")) for i in range(r)]

        def lin(coefs, vec):
            acc = 0
            for c, v in zip(coefs, vec):
                if _is_zero(c):
                    continue
                acc = I.binop("+", acc, I.binop("*", c, v, n), n)
            return acc
        for i in range(m):
            g = I.binop("+", I.binop("+", lin(Hl[i], X), fl[i], n), lin([Al[j][i] for j in range(r)], MU), n)
            ta, tb = num_pair(g, 0)
            I.ctx.assume(ta == tb)
        for j in range(r):
            ax = lin(Al[j], X)
            t_ax, t_bu = num_pair(ax, bul[j])
            _, t_bl = num_pair(ax, bll[j])
            I.ctx.assume(z3.And(t_bl <= t_ax, t_ax <= t_bu))
            I.ctx.assume(z3.Implies(MU[j].t > 0, t_ax == t_bu))
            I.ctx.assume(z3.Implies(MU[j].t < 0, t_ax == t_bl))
        reg = getattr(I.ctx, "qps", None)
        if reg is None:
            reg = I.ctx.qps = []
        reg.append((X, MU))
        x = self.from_nested(I, X, "float", (m,))
        return (x, SV(z3.Real(f"{uid}.fval")), 1, {})

    def np_array_equal(self, I, a, k, n):
        x, y = self.coerce(I, a[0]), self.coerce(I, a[1])
        if x.ndim != y.ndim:
            return False
        for da, db in zip(x.shape, y.shape):
            if isinstance(da, int) and isinstance(db, int):
                if da != db:
                    return False
            elif not I.ctx.branch(zint(da) == zint(db)):
                return False
        eq = self.binop(I, "==", x, y, n)
        return self.np_all(I, [eq], {}, n)
