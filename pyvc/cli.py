"""./check <property> [--tier quick|thorough] [--only substr] [--write-baseline]   |   ./check replay <file>"""
from __future__ import annotations
import sys, os, json, time, argparse, importlib, glob, re, hashlib, warnings

HERE = os.path.dirname(os.path.dirname(os.path.abspath(__file__)))
sys.path.insert(0, HERE)
if os.environ.get("PYVC_REPO_SRC"):      # development only: analyse a scratch copy instead of /repo/src
    sys.path.insert(0, os.environ["PYVC_REPO_SRC"])
warnings.simplefilter("ignore")
os.environ.setdefault("PYTHONWARNINGS", "ignore")

PROPERTY_MODULES = {
    "C09": ["contracts.c09_dates"],
    "C11": ["contracts.c11_conversions"],
    "C12": ["contracts.c12_aggregation"],
    "C13": ["contracts.c13_temporal"],
    "C17": ["contracts.c17_sequential"],
    "C02": ["contracts.c02_aldi"],
    "C16": ["contracts.c16_blazer"],
    "C10": ["contracts.c10_series"],
    "C19": ["contracts.c19_databox"],
    "C20": ["contracts.c20_copies"],
    "C04": ["contracts.c04_parser"],
    "C14": ["contracts.c14_filters"],
    "C18": ["contracts.c18_redvar"],
    "C15": ["contracts.c15_acov"],
}

EXTRACTION_DROPS = [
    "docstrings and comments (no runtime effect)",
    "type annotations (never evaluated: `from __future__ import annotations`)",
    "documark decorators @_dm.reference/@_dm.no_reference: not interpreted - the native function object bound "
    "in the imported module is resolved to its AST by code-object position, so whatever the decorator returned "
    "is what is analysed (documark returns the same callable)",
]

GENERAL_ASSUMPTIONS = [
    "Python int is the mathematical integers; // and % are floor division/modulo (exact in CPython)",
    "the AST interpreted is the file CPython imported in this process (same path, re-read and hashed on every run)",
    "module-level constants, class attributes, enum members and tables are read from the imported real module (evaluated by CPython)",
    "symbolic-execution subset: see DESIGN.md section 2.2; anything outside it aborts with exit 3, never a verdict",
]


def load_known():
    path = os.path.join(HERE, "known_findings.json")
    if not os.path.exists(path):
        return []
    with open(path) as fh:
        return json.load(fh).get("findings", [])


def match_known(known, prop, contract, instance, oblig):
    for k in known:
        if k.get("status") != "known" or k.get("property") != prop:
            continue
        if k.get("contract") != contract:
            continue
        if "instance" in k and k["instance"] != instance and not re.fullmatch(k["instance"], instance):
            continue
        if "obligation" in k and not re.search(k["obligation"], oblig):
            continue
        return k
    return None


def load_baseline():
    path = os.path.join(HERE, "contracts", "baseline_obligations.json")
    if not os.path.exists(path):
        return {}
    with open(path) as fh:
        return json.load(fh)


def oblig_key(o):
    # location-free name: line numbers move under harmless edits
    return re.sub(r"@[^ ]*", "", o["name"])


def main(argv=None):
    ap = argparse.ArgumentParser()
    ap.add_argument("prop")
    ap.add_argument("path", nargs="?")
    ap.add_argument("--tier", default=os.environ.get("VERIF_TIER", "quick"))
    ap.add_argument("--only", default=None)
    ap.add_argument("--write-baseline", action="store_true")
    ap.add_argument("--jobs", type=int, default=None)
    ap.add_argument("-v", "--verbose", action="store_true")
    args = ap.parse_args(argv)
    if args.prop == "replay":
        return replay(args.path)
    prop = args.prop
    tier = args.tier if args.tier in ("quick", "thorough") else "quick"
    seed = int(os.environ.get("VERIF_SEED", "0") or 0)
    t0 = time.time()
    if prop not in PROPERTY_MODULES:
        print(f"unknown property {prop}")
        return 3
    import irispie  # noqa  (the real package, from /repo/src)
    from pyvc import prove as PR
    from pyvc import bounded as BD
    for m in PROPERTY_MODULES[prop]:
        importlib.import_module(m)
    results = PR.run_property(prop, tier, seed, args.jobs, args.only)
    bounded = BD.run_bounded(prop, tier, seed, args.only)
    from pyvc import libcheck as LC
    libval = LC.run_all(tier, seed)
    known = load_known()
    baseline = load_baseline().get(prop, {})
    new_baseline = {}

    violations = []      # (contract, instance, oblig rec, confirmed)
    known_hits = []
    undecided = []
    broken = []          # unsupported / crash / vacuous
    total = discharged = 0
    by_backend = {}
    solver_time = 0.0
    slowest = []
    functions = {}
    assumptions = set(GENERAL_ASSUMPTIONS)
    samples = []
    cross = 0
    canaries = []
    feas_unknown = 0
    paths = 0
    for r in results:
        cid = f"{r['contract']}[{r['instance']}]"
        for f in r["functions"]:
            functions[(f["file"], f["lines"][0])] = f
        assumptions.update(r["assumptions"])
        cross += r["cross_checked"]
        feas_unknown += r.get("feas_unknown", 0)
        paths += r["paths"]
        if r["canary"]:
            canaries.append({"contract": cid, "refuted_and_replayed": r["status"] == "ok"})
            if r["status"] != "ok":
                broken.append((cid, "vacuity: " + str(r["error"])))
            continue
        if r["status"] in ("unsupported", "crash", "vacuous"):
            broken.append((cid, f"{r['status']}: {r['error']}"))
            continue
        names = new_baseline.setdefault(r["contract"], {}).setdefault(r["instance"], [])
        for o in r["obligations"]:
            total += 1
            solver_time += o["time"]
            slowest.append((o["time"], cid, o["name"]))
            if o["status"] == "proved":
                discharged += 1
                by_backend[o["backend"]] = by_backend.get(o["backend"], 0) + 1
                names.append(oblig_key(o))
                if len(samples) < 12 and o["backend"] != "trivial":
                    samples.append({"contract": cid, "obligation": o["name"], "backend": o["backend"],
                                    "time_s": o["time"], "smt_size_chars": o["size"]})
            elif o["status"] == "refuted":
                k = match_known(known, prop, r["contract"], r["instance"], o["name"])
                confirmed = o.get("replay") in ("violated", "exception")
                if k is not None and confirmed:
                    known_hits.append((k, cid, o))
                    total -= 1          # a listed finding is reported separately, not counted as an obligation
                else:
                    violations.append((r, o, confirmed))
            else:
                was = oblig_key(o) in baseline.get(r["contract"], {}).get(r["instance"], [])
                if was:
                    violations.append((r, o, False))
                else:
                    undecided.append((cid, o))
    # obligations that existed in the baseline but were not generated now (e.g. a path disappeared)
    missing = []
    if not args.only and not args.write_baseline:
        for cname, insts in baseline.items():
            for iname, names in insts.items():
                have = set(new_baseline.get(cname, {}).get(iname, []))
                cid = f"{cname}[{iname}]"
                if any(b[0] == cid for b in broken):
                    continue
                got_any = any(r["contract"] == cname and r["instance"] == iname for r in results)
                if not got_any:
                    broken.append((cid, "contract instance of the baseline is no longer generated"))

    os.makedirs(os.path.join(HERE, "replays"), exist_ok=True)
    os.makedirs(os.path.join(HERE, "evidence"), exist_ok=True)
    lines = []
    seen_known = set()
    for k, cid, o in known_hits:
        if k["id"] in seen_known:
            continue
        seen_known.add(k["id"])
        lines.append(f"KNOWN-FINDING: property={prop} {k['id']}: {k['what']} [{cid} :: {o['name']} inputs={o.get('replay_inputs')}]")
    viol_count = 0
    for r, o, confirmed in violations:
        viol_count += 1
        cid = f"{r['contract']}[{r['instance']}]"
        slug = re.sub(r"[^A-Za-z0-9_.-]+", "_", f"{prop}-{cid}-{o['name']}")[:150]
        path = os.path.join(HERE, "replays", slug + ".json")
        with open(path, "w") as fh:
            json.dump({"property": prop, "contract": r["contract"], "instance": r["instance"],
                       "failed_obligation": o["name"], "solver_status": o["status"], "backend": o["backend"],
                       "solver_detail": o.get("detail"), "solver_time_s": o["time"],
                       "counterexample_inputs": o.get("replay_inputs") or o.get("model"),
                       "native_replay": o.get("replay"), "native_replay_detail": o.get("replay_detail"),
                       "confirmed_on_real_code": confirmed,
                       "functions": r["functions"],
                       "how_to_replay": f"./check replay {os.path.relpath(path, HERE)}"}, fh, indent=1)
        tail = "" if confirmed else " no-failing-input-found"
        lines.append(f"VIOLATION property={prop} replay={path}{tail}")
        if args.verbose or True:
            lines.append(f"  failed obligation: {cid} :: {o['name']}  inputs={o.get('replay_inputs') or o.get('model')} replay={o.get('replay')}")
    for cid, why in broken:
        lines.append(f"CHECKER-ERROR {cid}: {why}")
    for cid, o in undecided:
        lines.append(f"UNDECIDED {cid} :: {o['name']} ({o.get('detail')})")
    bviol = 0
    for b in bounded:
        if b["status"] == "violation":
            k = match_known(known, prop, b["name"], b.get("instance", ""), b.get("what", ""))
            if k is not None:
                lines.append(f"KNOWN-FINDING: property={prop} {k['id']}: {k['what']} [bounded {b['name']}]")
                seen_known.add(k["id"])
                continue
            bviol += 1
            slug = re.sub(r"[^A-Za-z0-9_.-]+", "_", f"{prop}-bounded-{b['name']}")[:150]
            path = os.path.join(HERE, "replays", slug + ".json")
            with open(path, "w") as fh:
                json.dump({"property": prop, "bounded_check": b["name"], "failing_case": b.get("witness"), "seed": seed, "tier": tier,
                           "what": b.get("what"), "how_to_replay": f"./check replay {os.path.relpath(path, HERE)}"}, fh, indent=1, default=str)
            lines.append(f"VIOLATION property={prop} replay={path}")
            lines.append(f"  bounded stand-in {b['name']}: {b.get('what')} witness={b.get('witness')}")
        elif b["status"] == "error":
            broken.append((b["name"], b.get("what")))
            lines.append(f"CHECKER-ERROR bounded {b['name']}: {b.get('what')}")

    # modular soundness guard: a summary may only assume obligations that were discharged in this run
    used = set()
    for r in results:
        used.update(r.get("summaries_used", []))
    proved_names = {}
    for r in results:
        for o in r["obligations"]:
            if o["status"] == "proved":
                proved_names.setdefault(r["contract"], set()).add(o["name"])
    failed_contracts = {r["contract"] for r in results if r["status"] != "ok"}
    summaries_report = []
    for sm in PR.SUMMARIES.values():
        if sm.target not in used:
            continue
        missing_facts = [a for a in sm.assumes if a not in proved_names.get(sm.proved_by, set())]
        ok = not missing_facts and sm.proved_by not in failed_contracts
        summaries_report.append({"callee": sm.target, "proved_by": sm.proved_by, "assumed_facts": sm.assumes, "all_discharged_in_this_run": ok})
        if not ok and not args.only:
            broken.append((sm.target, f"summary assumes facts not discharged by {sm.proved_by}: {missing_facts or 'contract failed'}"))
            lines.append(f"CHECKER-ERROR summary of {sm.target}: facts {missing_facts} not discharged by contract {sm.proved_by}")
    for lv in libval:
        if lv["status"] != "agrees":
            broken.append((lv["contract"], "assumed library contract disagrees with the library: " + str(lv.get("detail"))))
            lines.append(f"CHECKER-ERROR assumed library contract {lv['contract']}: {lv.get('detail')}")
    if total == 0 and not broken:
        broken.append((prop, "zero obligations generated"))
        lines.append("CHECKER-ERROR zero obligations generated")

    slowest.sort(reverse=True)
    wall = time.time() - t0
    evidence = {
        "property_id": prop,
        "tier": tier,
        "seed": seed,
        "level": "proof",
        "coverage": {
            "obligations": total,
            "discharged": discharged,
            "checker_cmd": f"./check {prop} --tier {tier}",
            "trusted_base": sorted(a for a in assumptions if a not in GENERAL_ASSUMPTIONS),
            "samples": samples,
            "contract_instances": len(results),
            "paths_explored": paths,
            "functions_under_contract": sorted(functions.values(), key=lambda f: (f["file"], f["lines"][0])),
            "by_backend": by_backend,
            "solver_time_s": round(solver_time, 3),
            "slowest": [{"time_s": t, "contract": c, "obligation": n} for t, c, n in slowest[:5]],
            "vacuity": {"canaries": canaries,
                        "cover": "every contract instance has >= 1 feasible path reaching a postcondition (else CHECKER-ERROR)",
                        "path_feasibility_unknown": feas_unknown},
            "encoder_crosscheck": {"native_runs_agreeing_with_proved_contracts": cross},
            "lib_contract_validation": libval,
            "callee_contracts_used_at_call_sites": summaries_report,
            "bounded_standins": [{k: v for k, v in b.items() if k != "witness"} for b in bounded],
            "known_findings_reported": sorted({k["id"] for k, _, _ in known_hits}),
            "undecided": [f"{c} :: {o['name']}" for c, o in undecided],
            "extraction_drops": EXTRACTION_DROPS,
            "explanation": "obligations = postconditions, safety conditions (implicit exceptions) and path-exclusion "
                           "conditions generated by symbolic execution of the real AST, one SMT query each; "
                           "bounded_standins are NOT counted in obligations/discharged",
        },
        "assumptions": sorted(assumptions),
        "wall_s": round(wall, 2),
        "violations": viol_count + bviol,
    }
    with open(os.path.join(HERE, "evidence", f"{prop}.json"), "w") as fh:
        json.dump(evidence, fh, indent=1)
    if args.write_baseline:
        path = os.path.join(HERE, "contracts", "baseline_obligations.json")
        allb = load_baseline()
        allb[prop] = new_baseline
        with open(path, "w") as fh:
            json.dump(allb, fh, indent=0, sort_keys=True)
    for ln in lines:
        print(ln)
    print(f"{prop}: {discharged}/{total} obligations discharged, {len(results)} contract instances, "
          f"{len(functions)} functions under contract, {viol_count + bviol} violation(s), {len(seen_known)} known finding(s), "
          f"{len(undecided)} undecided, {len(broken)} checker error(s), {wall:.1f}s")
    if viol_count + bviol:
        return 1
    if broken:
        return 3
    if undecided:
        return 2
    return 0


def replay(path):
    with open(path) as fh:
        rp = json.load(fh)
    import irispie  # noqa
    from pyvc import prove as PR
    prop = rp["property"]
    for m in PROPERTY_MODULES[prop]:
        importlib.import_module(m)
    if "bounded_check" in rp:
        from pyvc import bounded as BD
        return BD.replay(rp)
    for c in PR.REGISTRY:
        if c.name == rp["contract"]:
            for inst in c.instances:
                if PR.inst_label(inst) == rp["instance"]:
                    import fractions
                    vals = {}
                    for k, v in (rp.get("counterexample_inputs") or {}).items():
                        if v in ("True", "False"):
                            vals[k] = v == "True"
                        elif v.startswith("["):          # an input array, printed as nested lists
                            vals[k] = eval(v, {"__builtins__": {}}, {"nan": float("nan"), "inf": float("inf")})
                        else:
                            vals[k] = fractions.Fraction(v) if "/" in v or "." in v else int(v)
                    st, detail, used = PR.run_concrete(c, inst, vals)
                    print(f"replay of {rp['contract']}[{rp['instance']}] on {used}: {st} {detail or ''}")
                    return 1 if st in ("violated", "exception") else 0
    print("contract instance not found")
    return 3


if __name__ == "__main__":
    sys.exit(main())
