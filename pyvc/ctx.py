"""Per-path execution context: path condition, branch decisions, obligations, fresh symbols."""
from __future__ import annotations
import z3
from .values import SV, Infeasible, PathLimit, Unsupported

FEAS_TIMEOUT_MS = 3000


class Obligation:
    __slots__ = ("name", "pc", "goal", "loc", "kind", "status", "model", "time", "backend", "detail")

    def __init__(self, name, pc, goal, loc=None, kind="post"):
        self.name = name
        self.pc = list(pc)
        self.goal = goal
        self.loc = loc
        self.kind = kind
        self.status = None
        self.model = None
        self.time = 0.0
        self.backend = None
        self.detail = None


class Ctx:
    def __init__(self, decisions=(), label=""):
        self.pc = []
        self.decisions = list(decisions)
        self.idx = 0
        self.pending = []
        self.obligs = []
        self.solver = z3.Solver()
        self.solver.set("timeout", FEAS_TIMEOUT_MS)
        self.counter = {}
        self.label = label
        self.assumptions_used = set()
        self.trace = []
        self.ghost = {}
        self.feas_unknown = 0
        self.universals = []     # closures key -> formula: proved forall-facts that contracts may instantiate (manual triggers)

    # ---- fresh symbols (deterministic per decision prefix)
    def fresh_name(self, base):
        n = self.counter.get(base, 0)
        self.counter[base] = n + 1
        return base if n == 0 else f"{base}!{n}"

    def fresh_int(self, base="i"):
        return SV(z3.Int(self.fresh_name(base)))

    def fresh_real(self, base="r"):
        return SV(z3.Real(self.fresh_name(base)))

    def fresh_bool(self, base="b"):
        return SV(z3.Bool(self.fresh_name(base)))

    def fresh_str(self, base="s"):
        return SV(z3.String(self.fresh_name(base)))

    # ---- path condition
    def assume(self, cond):
        if isinstance(cond, SV):
            cond = cond.t
        if cond is True:
            return
        if cond is False:
            raise Infeasible()
        cond = z3.simplify(cond)
        if z3.is_true(cond):
            return
        if z3.is_false(cond):
            raise Infeasible()
        self.pc.append(cond)
        self.solver.add(cond)

    def feasible(self, cond):
        self.solver.push()
        self.solver.add(cond)
        r = self.solver.check()
        self.solver.pop()
        if r == z3.unknown:
            self.feas_unknown += 1
        return r != z3.unsat

    def entails(self, cond):
        """True iff pc => cond is proved (quick query); unknown counts as not proved."""
        if cond is True:
            return True
        if cond is False:
            return False
        cond = z3.simplify(cond)
        if z3.is_true(cond):
            return True
        self.solver.push()
        self.solver.add(z3.Not(cond))
        r = self.solver.check()
        self.solver.pop()
        return r == z3.unsat

    def branch(self, cond):
        """Decide a symbolic condition; forks exploration when both sides are feasible."""
        if isinstance(cond, SV):
            cond = cond.t
        if cond is True or cond is False:
            return cond
        c = z3.simplify(cond)
        if z3.is_true(c):
            return True
        if z3.is_false(c):
            return False
        if self.idx < len(self.decisions):
            d = self.decisions[self.idx]
        else:
            can_t = self.feasible(c)
            can_f = self.feasible(z3.Not(c))
            if can_t and can_f:
                d = True
                self.pending.append(self.decisions[:self.idx] + [False])
            elif can_t:
                d = True
            elif can_f:
                d = False
            else:
                raise Infeasible()
            self.decisions.append(d)
        self.idx += 1
        lit = c if d else z3.Not(c)
        self.pc.append(lit)
        self.solver.add(lit)
        return d

    # ---- obligations
    def oblige(self, name, goal, loc=None, kind="safety"):
        """Record `pc => goal` as a proof obligation, then continue under `goal`."""
        if isinstance(goal, SV):
            goal = goal.t
        if goal is True:
            return
        if goal is False:
            goal = z3.BoolVal(False)
        self.obligs.append(Obligation(name, self.pc, goal, loc, kind))
        if z3.is_false(z3.simplify(goal)):
            raise Infeasible()   # caller converts into a failure outcome beforehand if needed
        self.assume(goal)

    def note_assumption(self, text):
        self.assumptions_used.add(text)


def explore(run, max_paths=400, label=""):
    """Enumerate all paths of `run(ctx)`; returns list of (ctx, outcome).
    outcome = ('return', value) | ('raise', ExcVal) | ('fail', FailurePath)"""
    from .values import PyRaise, FailurePath
    work = [[]]
    results = []
    n = 0
    while work:
        dec = work.pop()
        n += 1
        if n > max_paths:
            raise PathLimit(f"more than {max_paths} paths in {label}")
        ctx = Ctx(dec, label)
        try:
            val = run(ctx)
            outcome = ("return", val)
        except PyRaise as e:
            outcome = ("raise", e.exc)
        except FailurePath as e:
            outcome = ("fail", e)
        except Infeasible:
            # obligations recorded before the path condition became unsatisfiable stay valid
            outcome = ("infeasible", None)
        results.append((ctx, outcome))
        work.extend(ctx.pending)
    return results
