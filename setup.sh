#!/bin/sh
# Build the overlay venv used by every check: /venv's python + z3-solver, cvc5, jsonschema from the
# offline wheelhouse, with /venv's site-packages (irispie editable -> /repo/src, numpy, scipy) on the path.
set -e
cd "$(dirname "$0")"
if [ -x .venv/bin/python ] && .venv/bin/python -c "import z3, cvc5, irispie, jsonschema" >/dev/null 2>&1; then
  echo "setup: .venv already usable"; exit 0
fi
rm -rf .venv
/venv/bin/python -m venv .venv
PIP_NO_INDEX=1 .venv/bin/python -m pip install -q --no-index --find-links /opt/veriftools/wheels z3-solver cvc5 jsonschema
SP=$(.venv/bin/python -c "import site; print(site.getsitepackages()[0])")
echo "import site; site.addsitedir('/venv/lib/python3.12/site-packages')" > "$SP/zz_venv_overlay.pth"
.venv/bin/python -W ignore -c "import z3, cvc5, irispie, jsonschema; print('setup ok', z3.get_version_string())"
