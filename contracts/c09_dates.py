"""C09 - periods behave as calendar-consistent integers, spans as their ranges.

Contracts on the real functions of irispie/dates.py.  Abstract value of a period: (class, serial in Z).
Every postcondition is transcribed from the property statement; instances enumerate the six concrete
period classes (dynamic dispatch is finite)."""
from pyvc.prove import contract
from pyvc.libmodels import z_ymd2ord, z_valid_date, z_days_before_year, z_is_leap, MAX_ORD
import datetime
import irispie.dates as D
from irispie import wrongdoings as W

REG = [D.YearlyPeriod, D.HalfyearlyPeriod, D.QuarterlyPeriod, D.MonthlyPeriod]
CAL = REG + [D.DailyPeriod]
ALL = CAL + [D.IntegerPeriod]
PAIRS = [(a, b) for a in ALL for b in ALL if a is not b]
P = "irispie.dates:"


def per(K, cls, name="serial", lo=None, hi=None):
    if cls is D.DailyPeriod and lo is None:
        lo, hi = 1, MAX_ORD
    return K.obj(cls, serial=K.int(name, lo, hi))


def ordinal(K, y, m, d):
    if K.symbolic:
        return z_ymd2ord(y, m, d)
    return datetime.date(y, m, d).toordinal()


def valid(K, y, m, d):
    if K.symbolic:
        return z_valid_date(y, m, d)
    try:
        datetime.date(y, m, d)
        return True
    except (ValueError, TypeError):
        return False


# ------------------------------------------------------------------------------ arithmetic
@contract("C09", targets=[P + "Period.__add__", P + "Period.__init__"], instances=ALL)
def period_add(K, cls):
    p = per(K, cls)
    n = K.int("n", -10**6, 10**6)
    r = K.binop("+", p, n)
    K.ensure("add.class", K.cls_of(r) is cls)
    K.ensure("add.serial", K.attr(r, "serial") == K.attr(p, "serial") + n)
    r2 = K.binop("+", n, p)
    K.ensure("radd.class", K.cls_of(r2) is cls)
    K.ensure("radd.serial", K.attr(r2, "serial") == K.attr(p, "serial") + n)
    K.ensure("frame.self_unchanged", K.attr(p, "serial") == K.attr(p, "serial"))


@contract("C09", targets=[P + "Period.__sub__", P + "Period._sub_period", P + "_check_periods_decorator", P + "_is_period"], instances=ALL)
def period_sub(K, cls):
    p = per(K, cls, "s1")
    q = per(K, cls, "s2")
    n = K.int("n", -10**6, 10**6)
    r = K.binop("-", p, n)
    K.ensure("sub_int.class", K.cls_of(r) is cls)
    K.ensure("sub_int.serial", K.attr(r, "serial") == K.attr(p, "serial") - n)
    d = K.binop("-", p, q)
    K.ensure("sub_period.is_int_distance", d == K.attr(p, "serial") - K.attr(q, "serial"))


@contract("C09", targets=[P + "Period.__add__", P + "Period.__sub__", P + "Period.__eq__"], instances=ALL)
def period_group_laws(K, cls):
    """p+(q-p)==q and (p+n)-p==n, evaluated through the real operators."""
    p = per(K, cls, "s1")
    q = per(K, cls, "s2")
    n = K.int("n", -10**6, 10**6)
    back = K.binop("+", p, K.binop("-", q, p))
    K.ensure("p+(q-p)==q", K.truth(K.compare("==", back, q)))
    K.ensure("(p+n)-p==n", K.binop("-", K.binop("+", p, n), p) == n)
    K.ensure("p-n==p+(-n)", K.truth(K.compare("==", K.binop("-", p, n), K.binop("+", p, -n))))


CMP = ["==", "!=", "<", "<=", ">", ">="]


@contract("C09", targets=[P + "Period.__eq__", P + "Period.__ne__", P + "Period.__lt__", P + "Period.__le__",
                          P + "Period.__gt__", P + "Period.__ge__", P + "_check_periods"], instances=ALL)
def period_order(K, cls):
    p = per(K, cls, "s1")
    q = per(K, cls, "s2")
    a, b = K.attr(p, "serial"), K.attr(q, "serial")
    spec = {"==": a == b, "!=": a != b, "<": a < b, "<=": a <= b, ">": a > b, ">=": a >= b}
    for op in CMP:
        r = K.truth(K.compare(op, p, q))
        K.ensure(f"order[{op}]==integer order on serials", r == spec[op])


@contract("C09", targets=[P + "Period.__hash__", P + "Period.__index__"], instances=ALL)
def period_hash(K, cls):
    p = per(K, cls, "s1")
    q = per(K, cls, "s2")
    hp = K.builtin("hash", p)
    hq = K.builtin("hash", q)
    K.ensure("eq=>hash_eq", K.Implies(K.truth(K.compare("==", p, q)), hp == hq))
    K.ensure("index==serial", K.method(p, "__index__") == K.attr(p, "serial"))


@contract("C09", targets=[P + "_check_periods", P + "Period._sub_period", P + "Span.__init__", P + "periods_from_until"], instances=PAIRS)
def mixing_frequencies_rejected(K, a, b):
    p = per(K, a, "s1")
    q = per(K, b, "s2")
    for op in CMP:
        K.raises(W.IrisPieError, lambda: K.compare(op, p, q), f"mixed[{op}]")
    K.raises(W.IrisPieError, lambda: K.binop("-", p, q), "mixed[-]")
    K.raises(W.IrisPieError, lambda: K.call(D.Span, p, q), "mixed[Span]")
    K.raises(W.IrisPieError, lambda: K.call(D.periods_from_until, p, q), "mixed[periods_from_until]")


# ------------------------------------------------------------------------------ year / segment
@contract("C09", targets=[P + "RegularPeriodMixin.to_year_segment", P + "RegularPeriodMixin.from_year_segment",
                          P + "_serial_from_ysf", P + "RegularPeriodMixin.get_year"], instances=REG)
def regular_year_segment(K, cls):
    F = int(cls.frequency)
    p = per(K, cls)
    s = K.attr(p, "serial")
    y, seg = K.method(p, "to_year_segment")
    K.ensure("ys.decomposition", K.And(y * F + seg - 1 == s, 1 <= seg, seg <= F))
    K.ensure("year_property", K.getattr(p, "year") == y)
    K.ensure("segment_property", K.getattr(p, "segment") == seg)
    K.ensure("period_property", K.getattr(p, "period") == seg)
    K.ensure("get_year", K.method(p, "get_year") == y)
    back = K.call(cls.from_year_segment, y, seg)
    K.ensure("from(to(p))==p", K.And(K.cls_of(back) is cls, K.attr(back, "serial") == s))
    yy = K.int("year", -10**5, 10**5)
    ss = K.int("seg", 1, F)
    fwd = K.call(cls.from_year_segment, yy, ss)
    y2, s2 = K.method(fwd, "to_year_segment")
    K.ensure("to(from(y,s))==(y,s)", K.And(y2 == yy, s2 == ss))
    e = K.call(cls.from_year_segment, yy, "end")
    K.ensure("from(y,'end') is the last segment", K.attr(e, "serial") == yy * F + F - 1)


@contract("C09", targets=[P + "RegularPeriodMixin.to_year_segment"], instances=REG)
def regular_consecutive_tile_year_segments(K, cls):
    """p+1 has (y, s+1) or (y+1, 1): consecutive serials enumerate consecutive segments."""
    F = int(cls.frequency)
    p = per(K, cls)
    y, seg = K.method(p, "to_year_segment")
    y1, seg1 = K.method(K.binop("+", p, 1), "to_year_segment")
    K.ensure("successor", K.ite(seg < F, K.And(y1 == y, seg1 == seg + 1), K.And(y1 == y + 1, seg1 == 1)))


@contract("C09", targets=[P + "RegularPeriodMixin.to_ymd", P + "RegularPeriodMixin.to_year_segment"],
          instances=[(c, pos) for c in REG for pos in ("start", "middle", "end")])
def regular_calendar_dates(K, cls, pos):
    """Year/segment accessors agree with the calendar date of every position."""
    F = int(cls.frequency)
    p = per(K, cls, "serial", 1 * F, 9999 * F + F - 1)      # supported calendar: years 1..9999
    y, m, d = K.method(p, "to_ymd", position=pos)
    K.ensure("valid_calendar_date", valid(K, y, m, d))
    K.ensure("year_agrees", y == K.getattr(p, "year"))
    K.ensure("segment_agrees_with_month", K.call(cls.month_to_segment, m) == K.getattr(p, "segment"))


@contract("C09", targets=[P + "RegularPeriodMixin.to_ymd", P + "Period.__add__"], instances=REG)
def regular_periods_tile_calendar(K, cls):
    """end(p) + 1 day == start(p+1); start(p) <= middle(p) <= end(p): no gap, no overlap."""
    F = int(cls.frequency)
    p = per(K, cls, "serial", 1 * F, 9999 * F + F - 2)
    ys, ms, ds = K.method(p, "to_ymd", position="start")
    ym, mm, dm = K.method(p, "to_ymd", position="middle")
    ye, me, de = K.method(p, "to_ymd", position="end")
    nxt = K.binop("+", p, 1)
    yn, mn, dn = K.method(nxt, "to_ymd", position="start")
    K.ensure("start<=middle<=end", K.And(ordinal(K, ys, ms, ds) <= ordinal(K, ym, mm, dm),
                                         ordinal(K, ym, mm, dm) <= ordinal(K, ye, me, de)))
    K.ensure("end(p)+1day==start(p+1)", K.And(valid(K, ye, me, de), valid(K, yn, mn, dn),
                                              ordinal(K, ye, me, de) + 1 == ordinal(K, yn, mn, dn)))


@contract("C09", targets=[P + "DailyPeriod.to_year_segment", P + "DailyPeriod.from_year_segment", P + "DailyPeriod.to_ymd",
                          P + "DailyPeriod.year", P + "DailyPeriod.segment", P + "DailyPeriod.get_year"], instances=[()])
def daily_year_segment(K):
    cls = D.DailyPeriod
    p = per(K, cls)
    s = K.attr(p, "serial")
    y, m, d = K.method(p, "to_ymd")
    K.ensure("to_ymd is the calendar date of the ordinal", K.And(valid(K, y, m, d), ordinal(K, y, m, d) == s))
    yy, seg = K.method(p, "to_year_segment")
    K.ensure("year==calendar year", yy == y)
    K.ensure("segment==day of year", seg == s - ordinal(K, y, 1, 1) + 1)
    K.ensure("year_property", K.getattr(p, "year") == y)
    K.ensure("segment_property", K.getattr(p, "segment") == seg)
    K.ensure("get_year", K.method(p, "get_year") == y)
    back = K.call(cls.from_year_segment, yy, seg)
    K.ensure("from(to(p))==p", K.And(K.cls_of(back) is cls, K.attr(back, "serial") == s))


@contract("C09", targets=[P + "DailyPeriod.to_ymd", P + "Period.__add__"], instances=[()])
def daily_periods_tile_calendar(K):
    """Consecutive daily periods are consecutive calendar days (ordinal + 1), each a valid date."""
    p = per(K, D.DailyPeriod, "serial", 1, MAX_ORD - 1)
    y, m, d = K.method(p, "to_ymd")
    y1, m1, d1 = K.method(K.binop("+", p, 1), "to_ymd")
    K.ensure("next day", K.And(valid(K, y1, m1, d1), ordinal(K, y1, m1, d1) == ordinal(K, y, m, d) + 1))


@contract("C09", targets=[P + "IntegerPeriod.from_year_segment"], instances=[()])
def integer_year_segment(K):
    seg = K.int("seg")
    r = K.call(D.IntegerPeriod.from_year_segment, None, seg)
    K.ensure("serial==segment", K.And(K.cls_of(r) is D.IntegerPeriod, K.attr(r, "serial") == seg))


# ------------------------------------------------------------------------------ keyword shifts
@contract("C09", targets=[P + "Period.shift", P + "RegularPeriodMixin.create_soy", P + "RegularPeriodMixin.create_eoy",
                          P + "RegularPeriodMixin.create_eopy", P + "RegularPeriodMixin.create_tty"], instances=REG)
def regular_keyword_shifts(K, cls):
    F = int(cls.frequency)
    p = per(K, cls)
    s = K.attr(p, "serial")
    y, seg = K.method(p, "to_year_segment")
    k = K.int("k", -10**6, 10**6)
    r = K.method(p, "shift", k)
    K.ensure("shift(k)==p+k", K.And(K.cls_of(r) is cls, K.attr(r, "serial") == s + k))
    r = K.method(p, "shift")
    K.ensure("shift()==p-1", K.attr(r, "serial") == s - 1)
    r = K.method(p, "shift", "yoy")
    y2, s2 = K.method(r, "to_year_segment")
    K.ensure("yoy: same segment one year back", K.And(K.cls_of(r) is cls, y2 == y - 1, s2 == seg))
    for kw in ("soy", "boy"):
        r = K.method(p, "shift", kw)
        y2, s2 = K.method(r, "to_year_segment")
        K.ensure(f"{kw}: first segment of the same year", K.And(K.cls_of(r) is cls, y2 == y, s2 == 1))
    r = K.method(p, "shift", "eopy")
    y2, s2 = K.method(r, "to_year_segment")
    K.ensure("eopy: last segment of the previous year", K.And(K.cls_of(r) is cls, y2 == y - 1, s2 == F))
    r = K.method(p, "create_eoy")
    y2, s2 = K.method(r, "to_year_segment")
    K.ensure("eoy: last segment of the same year", K.And(y2 == y, s2 == F))
    r = K.method(p, "shift", "tty")
    if K.is_none(r):
        K.ensure("tty: None only in the first segment", seg == 1)
    else:
        K.ensure("tty: previous period within the year", K.And(seg > 1, K.cls_of(r) is cls, K.attr(r, "serial") == s - 1))


@contract("C09", targets=[P + "Period.shift", P + "DailyPeriod.create_soy", P + "DailyPeriod.create_eoy",
                          P + "DailyPeriod.create_eopy", P + "DailyPeriod.create_tty"], instances=[()])
def daily_keyword_shifts(K):
    cls = D.DailyPeriod
    p = per(K, cls, "serial", 366, MAX_ORD)       # year >= 2 so that the previous year exists
    s = K.attr(p, "serial")
    y, m, d = K.method(p, "to_ymd")
    r = K.method(p, "shift", "soy")
    K.ensure("soy: 1 January of the same year", K.And(K.cls_of(r) is cls, K.attr(r, "serial") == ordinal(K, y, 1, 1)))
    r = K.method(p, "shift", "eopy")
    K.ensure("eopy: 31 December of the previous year", K.And(K.cls_of(r) is cls, K.attr(r, "serial") == ordinal(K, y - 1, 12, 31),
                                                            K.attr(r, "serial") == ordinal(K, y, 1, 1) - 1))
    r = K.method(p, "create_eoy")
    K.ensure("eoy: 31 December of the same year", K.attr(r, "serial") == ordinal(K, y, 12, 31))
    r = K.method(p, "shift", "yoy")
    K.ensure("yoy: frequency-specific number of periods (365)", K.attr(r, "serial") == s - 365)
    r = K.method(p, "shift", "tty")
    first = K.And(m == 1, d == 1)
    if K.is_none(r):
        K.ensure("tty: None only on 1 January", first)
    else:
        K.ensure("tty: previous day within the year", K.And(K.Not(first), K.attr(r, "serial") == s - 1))


# ------------------------------------------------------------------------------ spans
def span_of(K, cls, step_lo=-6, step_hi=6, lo=-60, hi=60):
    if cls is D.DailyPeriod:
        lo, hi = 730000, 730200
    a = K.obj(cls, serial=K.int("start", lo, hi))
    b = K.obj(cls, serial=K.int("end", lo, hi))
    step = K.int("step", step_lo, step_hi)
    K.assume(step != 0)
    sp = K.call(D.Span, a, b, step)
    return sp, K.attr(a, "serial"), K.attr(b, "serial"), step


def spec_len(K, a, b, step):
    """Number of k>=0 such that a+k*step lies between a and b (inclusive) in the direction of step."""
    up = K.ite(b < a, 0, K_floordiv(K, b - a, step) + 1)
    down = K.ite(b > a, 0, K_floordiv(K, a - b, -step) + 1)
    return K.ite(step > 0, up, down)


def K_floordiv(K, x, y):
    """x // y for x >= 0, y > 0 (truncation == floor)."""
    if K.symbolic:
        return x / y
    return x // y


@contract("C09", targets=[P + "Span.__init__", P + "Span._serials", P + "Span.__len__", P + "_sign",
                          P + "Span.start", P + "Span.end", P + "Span.step"], instances=ALL)
def span_len(K, cls):
    sp, a, b, step = span_of(K, cls)
    K.ensure("start", K.attr(K.getattr(sp, "start"), "serial") == a)
    K.ensure("end", K.attr(K.getattr(sp, "end"), "serial") == b)
    K.ensure("step", K.getattr(sp, "step") == step)
    n = K.length(sp)
    K.ensure("len==count of start+k*step up to end", n == spec_len(K, a, b, step))
    K.ensure("len>=0", n >= 0)
    # maximality: the next element would pass the end
    K.ensure("maximal", K.Implies(n > 0, K.ite(step > 0, a + n * step > b, a + n * step < b)))


@contract("C09", targets=[P + "Span.__getitem__", P + "Span.__iter__", P + "Span._class"], instances=ALL)
def span_index_iter(K, cls):
    sp, a, b, step = span_of(K, cls)
    n = K.length(sp)
    i = K.int("i", -40, 40)
    K.assume(K.And(0 <= i, i < n))
    e = K.index(sp, i)
    K.ensure("span[i] == start+i*step", K.And(K.cls_of(e) is cls, K.attr(e, "serial") == a + i * step))
    K.ensure("span[i] within [start,end]", K.ite(step > 0, K.And(a <= K.attr(e, "serial"), K.attr(e, "serial") <= b),
                                                 K.And(b <= K.attr(e, "serial"), K.attr(e, "serial") <= a)))
    en = K.index(sp, i - n)
    K.ensure("span[i-len] == span[i]", K.attr(en, "serial") == a + i * step)
    tup = K.builtin("tuple", sp)
    K.ensure("len(tuple(span))==len(span)", K.length(tup) == n)
    t = K.index(tup, i)
    K.ensure("tuple(span)[i]==span[i]", K.And(K.cls_of(t) is cls, K.attr(t, "serial") == a + i * step))


@contract("C09", targets=[P + "Span.__getitem__"], instances=ALL)
def span_index_out_of_range(K, cls):
    sp, a, b, step = span_of(K, cls)
    n = K.length(sp)
    i = K.int("i", -40, 40)
    K.assume(K.Or(i >= n, i < -n))
    K.raises(IndexError, lambda: K.index(sp, i), "IndexError outside the span")


@contract("C09", targets=[P + "Span.shift", P + "Span.shift_start", P + "Span.shift_end", P + "Span.__add__",
                          P + "Span.__sub__", P + "Span.__eq__"], instances=ALL)
def span_shifts(K, cls):
    sp, a, b, step = span_of(K, cls)
    k = K.int("k", -30, 30)

    def view(s):
        return (K.attr(K.getattr(s, "start"), "serial"), K.attr(K.getattr(s, "end"), "serial"), K.getattr(s, "step"))
    plus = K.binop("+", sp, k)
    K.ensure("span+k", K.And(view(plus)[0] == a + k, view(plus)[1] == b + k, view(plus)[2] == step))
    K.ensure("span+k leaves span", K.And(view(sp)[0] == a, view(sp)[1] == b, view(sp)[2] == step))
    minus = K.binop("-", sp, k)
    K.ensure("span-k", K.And(view(minus)[0] == a - k, view(minus)[1] == b - k, view(minus)[2] == step))
    K.ensure("len(span+k)==len(span)", K.length(plus) == K.length(sp))
    K.ensure("(span+k)-k == span", K.truth(K.compare("==", K.binop("-", plus, k), sp)))
    K.method(sp, "shift", k)
    K.ensure("shift(k) in place", K.And(view(sp)[0] == a + k, view(sp)[1] == b + k, view(sp)[2] == step))
    K.method(sp, "shift_start", k)
    K.ensure("shift_start(k) moves only the start", K.And(view(sp)[0] == a + 2 * k, view(sp)[1] == b + k, view(sp)[2] == step))
    K.method(sp, "shift_end", k)
    K.ensure("shift_end(k) moves only the end", K.And(view(sp)[0] == a + 2 * k, view(sp)[1] == b + 2 * k, view(sp)[2] == step))
    K.ensure("class kept", K.And(K.cls_of(K.getattr(sp, "start")) is cls, K.cls_of(K.getattr(sp, "end")) is cls))


@contract("C09", targets=[P + "Span.reverse", P + "Span.reversed"], instances=ALL)
def span_reversal(K, cls):
    """reversed(span) enumerates the same periods in the opposite order (end reachable from start)."""
    sp, a, b, step = span_of(K, cls)
    n = K.length(sp)
    K.assume(n > 0)
    K.assume(a + (n - 1) * step == b)        # the end period is enumerated (aligned span); see known finding C09-reverse-misaligned
    rv = K.method(sp, "reversed")
    K.ensure("reversed leaves the original", K.And(K.attr(K.getattr(sp, "start"), "serial") == a, K.getattr(sp, "step") == step))
    K.ensure("len(reversed)==len", K.length(rv) == n)
    i = K.int("i", -40, 40)
    K.assume(K.And(0 <= i, i < n))
    K.ensure("reversed[i]==span[len-1-i]", K.attr(K.index(rv, i), "serial") == a + (n - 1 - i) * step)
    K.method(sp, "reverse")
    K.ensure("reverse in place", K.And(K.attr(K.getattr(sp, "start"), "serial") == b, K.attr(K.getattr(sp, "end"), "serial") == a,
                                       K.getattr(sp, "step") == -step))


@contract("C09", targets=[P + "Span.resolve", P + "ContextualPeriod.resolve", P + "ContextualPeriod.__add__",
                          P + "ContextualPeriod.__sub__", P + "Span.__init__"], instances=[(c, w) for c in ALL for w in ("both", "start", "end", "none")])
def span_resolve(K, cls, which):
    """Open ends resolve against the context's start/end plus the accumulated offset; fixed ends stay."""
    lo, hi = (-60, 60) if cls is not D.DailyPeriod else (730000, 730200)
    cs = K.obj(cls, serial=K.int("ctx_start", lo, hi))
    ce = K.obj(cls, serial=K.int("ctx_end", lo, hi))
    ctx = K.call(D.ResolutionContext, cs, ce)
    a = K.obj(cls, serial=K.int("start", lo, hi))
    b = K.obj(cls, serial=K.int("end", lo, hi))
    k = K.int("k", -20, 20)
    step = K.int("step", -3, 3)
    K.assume(step != 0)
    first = None if which in ("both", "start") else a
    last = None if which in ("both", "end") else b
    sp = K.call(D.Span, first, last, step)
    K.ensure("needs_resolve iff an end is open", K.attr(sp, "needs_resolve") == (which != "none"))
    if which != "none":
        K.ensure("len of unresolved span is None", K.is_none(K.method(sp, "__len__")))
    sp = K.binop("+", sp, k) if which != "none" else sp
    r = K.method(sp, "resolve", ctx)
    off = k if which != "none" else 0
    # an open from-period is where the span sets out in its own direction: the context's start going forward, its end going backward
    exp_start = K.ite(step > 0, K.attr(cs, "serial"), K.attr(ce, "serial")) + off if first is None else K.attr(a, "serial") + off
    exp_end = K.ite(step > 0, K.attr(ce, "serial"), K.attr(cs, "serial")) + off if last is None else K.attr(b, "serial") + off
    K.ensure("resolved start", K.And(K.cls_of(K.getattr(r, "start")) is cls, K.attr(K.getattr(r, "start"), "serial") == exp_start))
    K.ensure("resolved end", K.And(K.cls_of(K.getattr(r, "end")) is cls, K.attr(K.getattr(r, "end"), "serial") == exp_end))
    K.ensure("resolved step", K.getattr(r, "step") == step)
    K.ensure("resolved span needs no resolve", K.attr(r, "needs_resolve") == False)   # noqa: E712


@contract("C09", targets=[P + "periods_from_until"], instances=ALL)
def periods_from_until(K, cls):
    lo, hi = (-60, 60) if cls is not D.DailyPeriod else (730000, 730200)
    a = K.obj(cls, serial=K.int("start", lo, hi))
    b = K.obj(cls, serial=K.int("end", lo, hi))
    tup = K.call(D.periods_from_until, a, b)
    n = K.length(tup)
    K.ensure("len", n == K.ite(K.attr(b, "serial") >= K.attr(a, "serial"), K.attr(b, "serial") - K.attr(a, "serial") + 1, 0))
    i = K.int("i", 0, 200)
    K.assume(i < n)
    e = K.index(tup, i)
    K.ensure("item", K.And(K.cls_of(e) is cls, K.attr(e, "serial") == K.attr(a, "serial") + i))


# ------------------------------------------------------------------------------ canary (vacuity guard)
@contract("C09", targets=[P + "Period.__add__"], instances=[(D.QuarterlyPeriod,)], canary=True)
def canary_wrong_add(K, cls):
    p = per(K, cls)
    n = K.int("n", -100, 100)
    r = K.binop("+", p, n)
    K.ensure("WRONG: p+n has serial+n+1", K.attr(r, "serial") == K.attr(p, "serial") + n + 1)


SLICES = [(None, None, -1), (1, None, None), (None, -1, None), (None, None, 2), (1, 5, 2), (-3, None, None),
          (None, None, -2), (5, 1, -1), (-2, 0, -1), (2, 2, None), (None, 3, None), (-1, None, -3)]


@contract("C09", targets=[P + "Span.__getitem__"], instances=[(c, sl) for c in (D.QuarterlyPeriod, D.IntegerPeriod, D.DailyPeriod) for sl in SLICES])
def span_slice(K, cls, sl):
    """span[a:b:c] == tuple(span)[a:b:c] for every span (slice shapes enumerated, span symbolic)."""
    sp, a, b, step = span_of(K, cls)
    got = K.index(sp, slice(*sl))
    want = K.index(K.builtin("tuple", sp), slice(*sl))
    n = K.length(want)
    K.ensure("len(span[sl])==len(tuple(span)[sl])", K.length(got) == n)
    j = K.int("j", 0, 40)
    K.assume(j < n)
    K.ensure("span[sl][j]==tuple(span)[sl][j]", K.And(K.cls_of(K.index(got, j)) is cls,
                                                       K.attr(K.index(got, j), "serial") == K.attr(K.index(want, j), "serial")))


@contract("C09", targets=[P + "Span.reverse", P + "Span.reversed"], instances=[(D.QuarterlyPeriod,)])
def span_reversal_any_alignment(K, cls):
    """Same as span_reversal without the alignment precondition.  Fails on the unchanged tree for spans whose
    end is not start+k*step: recorded as known finding C09-reverse-misaligned."""
    sp, a, b, step = span_of(K, cls)
    n = K.length(sp)
    K.assume(n > 0)
    rv = K.method(sp, "reversed")
    K.ensure("len(reversed)==len", K.length(rv) == n)
    i = K.int("i", -40, 40)
    K.assume(K.And(0 <= i, i < n, i < K.length(rv)))
    K.ensure("reversed[i]==span[len-1-i] (any alignment)", K.attr(K.index(rv, i), "serial") == a + (n - 1 - i) * step)


from pyvc.bounded import bounded


@bounded("C09", bound="spans with start,end in -4..4 (all six classes: integer and quarterly), step in +-1..3; slices with start/stop in {None,-5..5}, step in {None,+-1,+-2,+-3}")
def span_slices_native(B):
    """Stand-in for slice shapes that the proof enumerates only partially: span[sl] == tuple(span)[sl]."""
    vals = [None] + list(range(-5, 6))
    steps = [None, 1, -1, 2, -2, 3, -3]
    for cls in (D.IntegerPeriod, D.QuarterlyPeriod):
        for a in range(-4, 5, 2):
            for b in range(-4, 5):
                for st in (1, -1, 2, -3):
                    sp = D.Span(cls(a), cls(b), st)
                    tup = tuple(sp)
                    for s0 in vals:
                        for s1 in vals:
                            for s2 in steps:
                                B.case()
                                sl = slice(s0, s1, s2)
                                got = sp[sl]
                                want = tup[sl]
                                if tuple(x.serial for x in got) != tuple(x.serial for x in want):
                                    B.fail("span[slice] != tuple(span)[slice]", {"class": cls.__name__, "start": a, "end": b, "step": st, "slice": [s0, s1, s2]})
                                    return


@contract("C09", targets=[P + "ContextualPeriod.__add__", P + "ContextualPeriod.__sub__", P + "ContextualPeriod.resolve",
                          P + "ContextualPeriod.__init__", P + "ContextualPeriod.__bool__"],
          instances=[(c, w) for c in ALL for w in ("start_date", "end_date")])
def contextual_period_state(K, cls, which):
    """State contract of an open end: (resolve_from, offset) after any + / - is (same, offset +/- k) whatever the
    accumulated offset was; resolve returns context.<which> + offset.  (Covers sequences of shifts by induction.)"""
    off = K.int("offset", -50, 50)
    k = K.int("k", -50, 50)
    cp = K.obj(D.ContextualPeriod, _resolve_from=which, _offset=off)
    plus = K.binop("+", cp, k)
    K.ensure("(+k).offset == offset+k", K.And(K.cls_of(plus) is D.ContextualPeriod, K.attr(plus, "_offset") == off + k,
                                               K.attr(plus, "_resolve_from") == which))
    minus = K.binop("-", cp, k)
    K.ensure("(-k).offset == offset-k", K.And(K.cls_of(minus) is D.ContextualPeriod, K.attr(minus, "_offset") == off - k,
                                               K.attr(minus, "_resolve_from") == which))
    K.ensure("receiver unchanged", K.attr(cp, "_offset") == off)
    lo, hi = (-60, 60) if cls is not D.DailyPeriod else (730000, 730200)
    cs = K.obj(cls, serial=K.int("ctx_start", lo, hi))
    ce = K.obj(cls, serial=K.int("ctx_end", lo, hi))
    ctx = K.call(D.ResolutionContext, cs, ce)
    r = K.method(cp, "resolve", ctx)
    base = K.attr(cs, "serial") if which == "start_date" else K.attr(ce, "serial")
    K.ensure("resolve == context end + offset", K.And(K.cls_of(r) is cls, K.attr(r, "serial") == base + off))
    K.ensure("needs_resolve", K.And(K.getattr(cp, "needs_resolve") == True, K.truth(cp) == False))   # noqa: E712
    # two successive shifts of an open-ended span accumulate
    k2 = K.int("k2", -50, 50)
    sp = K.call(D.Span, None, None)
    K.method(sp, "shift", k)
    K.method(sp, "shift", k2)
    rs = K.method(sp, "resolve", ctx)
    K.ensure("span.shift(k); span.shift(k2); resolve", K.And(K.attr(K.getattr(rs, "start"), "serial") == K.attr(cs, "serial") + k + k2,
                                                             K.attr(K.getattr(rs, "end"), "serial") == K.attr(ce, "serial") + k + k2))


# ------------------------------------------------------------------------------ span constructors written as operators
@contract("C09", targets=[P + "_SpannableMixin.__rshift__", P + "_SpannableMixin.__lshift__", P + "_SpannableMixin.__rrshift__",
                          P + "_SpannableMixin.__rlshift__", P + "_SpannableMixin.__pow__", P + "Span.__init__", P + "Span._serials"],
          instances=[(c, s) for c in ALL for s in ("forward", "backward")])
def spans_written_with_operators(K, cls, direction):
    """a >> b runs forward from a to b, a << b backward from b's right operand ... down to a; p ** n is the span of |n|
    periods that starts at p and runs in the direction of the sign of n (a single period for |n| == 1, empty for 0)."""
    lo, hi = (-60, 60) if cls is not D.DailyPeriod else (730000, 730200)
    a = K.obj(cls, serial=K.int("a", lo, hi))
    b = K.obj(cls, serial=K.int("b", lo, hi))
    sa, sb = K.attr(a, "serial"), K.attr(b, "serial")
    if direction == "forward":
        sp = K.binop(">>", a, b)
        K.ensure(">>: start, end, step", K.And(K.attr(K.getattr(sp, "start"), "serial") == sa,
                                                K.attr(K.getattr(sp, "end"), "serial") == sb, K.getattr(sp, "step") == 1))
        K.ensure(">>: length", K.length(sp) == K.ite(sb >= sa, sb - sa + 1, 0))
        op = K.binop(">>", a, None)
        K.ensure(">>: open end", K.And(K.attr(op, "needs_resolve") == True, K.getattr(op, "step") == 1))   # noqa: E712
        op = K.binop(">>", None, b)
        K.ensure(">>: open start", K.And(K.attr(op, "needs_resolve") == True, K.getattr(op, "step") == 1,   # noqa: E712
                                         K.attr(K.getattr(op, "end"), "serial") == sb))
    else:
        sp = K.binop("<<", a, b)
        K.ensure("<<: start, end, step", K.And(K.attr(K.getattr(sp, "start"), "serial") == sb,
                                                K.attr(K.getattr(sp, "end"), "serial") == sa, K.getattr(sp, "step") == -1))
        K.ensure("<<: length", K.length(sp) == K.ite(sb >= sa, sb - sa + 1, 0))
        op = K.binop("<<", None, b)
        K.ensure("<<: open", K.And(K.attr(op, "needs_resolve") == True, K.getattr(op, "step") == -1,   # noqa: E712
                                   K.attr(K.getattr(op, "start"), "serial") == sb))
    n = K.int("n", 2, 40)
    signed = n if direction == "forward" else -n
    sp = K.binop("**", a, signed)
    sgn = 1 if direction == "forward" else -1
    K.ensure("**: starts at the period", K.attr(K.getattr(sp, "start"), "serial") == sa)
    K.ensure("**: direction", K.getattr(sp, "step") == sgn)
    K.ensure("**: number of periods", K.length(sp) == n)
    K.ensure("**: last period", K.attr(K.getattr(sp, "end"), "serial") == sa + sgn * (n - 1))
    i = K.int("i", 0, 40)
    K.assume(i < n)
    e = K.index(sp, i)
    K.ensure("**: i-th period", K.And(K.cls_of(e) is cls, K.attr(e, "serial") == sa + sgn * i))
    one = K.binop("**", a, sgn)
    K.ensure("** one period is the period itself", K.And(K.cls_of(one) is cls, K.attr(one, "serial") == sa))
    K.ensure("** zero is the empty span", K.length(K.binop("**", a, 0)) == 0)


@contract("C09", targets=[P + "Span.resolve", P + "ContextualPeriod.resolve", P + "Span.__init__", P + "_check_periods"],
          instances=[(a, b, w) for (a, b) in PAIRS for w in ("start", "end")])
def resolving_against_another_frequency_is_rejected(K, a, b, which):
    """A span with one fixed end cannot be resolved against a context of another frequency."""
    fixed = per(K, a, "fixed")
    lo, hi = (-60, 60) if b is not D.DailyPeriod else (730000, 730200)
    cs = K.obj(b, serial=K.int("ctx_start", lo, hi))
    ce = K.obj(b, serial=K.int("ctx_end", lo, hi))
    ctx = K.call(D.ResolutionContext, cs, ce)
    sp = K.call(D.Span, None, fixed) if which == "start" else K.call(D.Span, fixed, None)
    K.raises(W.IrisPieError, lambda: K.method(sp, "resolve", ctx), "resolve[mixed]")


# ------------------------------------------------------------------------------ the same enumeration through the helper and through distances
@contract("C09", targets=[P + "periods_from_until", P + "_check_periods"], instances=ALL)
def periods_from_until_in_either_direction(K, cls):
    """periods_from_until(a, b, step) is the enumeration a Span with the same end points and step gives: a, a+step, ... up to
    b - forward or backward."""
    lo, hi = (-60, 60) if cls is not D.DailyPeriod else (730000, 730200)
    a = K.int("start", lo, hi)
    b = K.int("end", lo, hi)
    step = K.int("step", -4, 4)
    K.assume(step != 0)
    tup = K.call(D.periods_from_until, K.obj(cls, serial=a), K.obj(cls, serial=b), step)
    n = K.length(tup)
    K.ensure("as many periods as the span with these end points and step", n == spec_len(K, a, b, step))
    i = K.int("i", 0, 200)
    K.assume(i < n)
    e = K.index(tup, i)
    K.ensure("i-th period is start + i*step", K.And(K.cls_of(e) is cls, K.attr(e, "serial") == a + i * step))


@contract("C09", targets=[P + "Span.__sub__", P + "_is_period"], instances=[(c, "span - period") for c in ALL])
def distances_between_a_span_and_a_period(K, cls, which):
    """span - p (documented: "the distances in periods from each period within the span to the specified Period") is the
    range of t - p for the periods t the span enumerates: one per period, in order.  (p - span is not a documented
    operation: Period.__sub__ rejects it before Span.__rsub__ is consulted.)"""
    sp, a, b, step = span_of(K, cls)
    p = K.int("p", -60, 60) if cls is not D.DailyPeriod else K.int("p", 730000, 730200)
    per_ = K.obj(cls, serial=p)
    r = K.binop("-", sp, per_) if which == "span - period" else K.binop("-", per_, sp)
    n = K.length(sp)
    K.ensure("one distance per period of the span", K.length(r) == n)
    i = K.int("i", 0, 200)
    K.assume(i < n)
    t = a + i * step
    K.ensure("i-th distance", K.index(r, i) == (t - p if which == "span - period" else p - t))
