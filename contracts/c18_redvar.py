"""C18 - reduced-form VAR estimates are the least-squares solution and reproduce the data.

As for C14, what is under contract is the irispie code around the numerical kernel: lag stacking, selection of the
periods with complete data, the normal equations handed to numpy.linalg.solve (ASSUMED contract), the split of the
coefficient matrix into A, B, c, residuals, residual covariance, fitted periods, writing the residuals back, the
companion form and what is derived from it.  Dimensions (variables, order, periods) and the missing-value pattern are
fixed per instance; every data VALUE is symbolic."""
import itertools
import numpy as np
from pyvc.prove import contract
from pyvc.bounded import bounded
import irispie as ir
import irispie.dates as D
from irispie.red_vars import _estimators as EST
from irispie.red_vars import _variants as VAR
from irispie.red_vars import _simulators as SIM
from irispie.red_vars import _invariants as RINV
from irispie.fords import least_squares as LS
from irispie.dataslates.main import Dataslate

PE = "irispie.red_vars._estimators:"
PV = "irispie.red_vars._variants:"
PS = "irispie.red_vars._simulators:"
PI = "irispie.red_vars._invariants:"


def _setup(order, nexo, intercept, T):
    """real RedVAR, databox and estimation dataslate (built natively exactly as RedVAR.estimate does)"""
    endo = ("a", "b")
    exo = tuple(f"x{i}" for i in range(nexo))
    m = ir.RedVAR(endo, exogenous_names=exo or None, order=order, intercept=intercept)
    span = ir.qq(2000, 1) >> (ir.qq(2000, 1) + T - 1)
    db = ir.Databox()
    for n in endo + exo:
        db[n] = ir.Series(periods=span, values=np.arange(1.0, T + 1.0))
    short_span, long_span = EST._GET_SPANS_DISPATCH["long"](span)
    ds = Dataslate.from_databox_for_slatable(m.slatable_for_estimate(), db, short_span, num_variants=1)
    ds_v = next(iter(ds.iter_variants()))
    return m, ds, ds_v


def _instances(tier):
    out = []
    for order, nexo, icpt, dof in itertools.product((1, 2), (0, 1), (True, False), (False, True)):
        T = 2 * order + nexo + 2 + 2          # span periods: enough complete periods for the normal equations to be regular and a positive number of degrees of freedom
        slow = order == 2 and nexo == 1        # 20-30 s per normal-equation obligation: thorough tier only
        if slow == (tier == "thorough"):
            out.append((order, nexo, icpt, dof, T, ()))
    if tier == "quick":
        out += [(1, 0, True, False, 7, (3,)), (2, 0, True, True, 10, (4,)), (1, 1, True, False, 8, (0, 5))]      # periods (columns) with a missing endogenous observation
    return out


@contract("C18", targets=[PE + "_estimate_variant", PE + "_get_estimation_data", PE + "get_where_observations", PE + "_write_residual_estimates",
                          "irispie.fords.least_squares:ordinary_least_squares", "irispie.fords.covariances:symmetrize", PV + "Variant.__init__", PV + "System.__init__"],
          instances=_instances("quick"), thorough=_instances("thorough"), cross=3, opts={"max_paths": 300})
def estimate_is_the_least_squares_solution(K, order, nexo, intercept, dof, T, missing):
    m, ds, ds_v = _setup(order, nexo, intercept, T)
    inv = m._invariant
    yq, xq, rq = list(inv.get_endogenous_qids()), list(inv.get_exogenous_qids()), list(inv.get_residual_qids())
    native = ds_v.get_data_variant()
    nrows, ncols = native.shape
    K.ensure("dataslate: `order` columns of initial condition followed by one column per period of the span", K.And(ncols == T + order, len(ds_v.base_periods) == T))
    T = ncols               # from here on: columns of the data array (columns < order are the initial condition)
    pattern = [[(r == yq[0] and c in missing) for c in range(ncols)] for r in range(nrows)]
    X = K.array_cells([[K.nan_cell() if pattern[r][c] else K.real(f"d_{r}_{c}", sample=(-3, 3)) for c in range(ncols)] for r in range(nrows)])
    X0 = K.snapshot(X)
    dsl = K.lift(ds_v)
    K.set_variant_data(dsl, ds_v, X)
    v = K.call(EST._estimate_variant, K.lift(inv), dsl, prior_obs=None, dof_correction=dof, omit_missing=True)
    n = len(yq)
    val = lambda r, c: K.cell_val(K.cell(X0, r, c))      # noqa: E731
    # periods (columns >= order) whose regressors and regressand are all observed
    def complete(t):
        cols = [(q, t - i) for q in yq for i in range(0, order + 1)] + [(q, t) for q in xq]
        return not any(pattern[r][c] for r, c in cols)
    W = [t for t in range(order, T) if complete(t)]
    sysm = K.attr(v, "system")
    A, B, c, cov = K.attr(sysm, "A"), K.attr(sysm, "B"), K.attr(sysm, "c"), K.attr(sysm, "cov_residuals")
    K.ensure("shapes of A and B", K.And(K.shape(A) == (n, n * order), K.shape(B) == (n, nexo)))
    K.ensure("intercept is estimated iff requested", (not K.is_none(c)) == intercept)
    a = lambda i, j: K.cell_val(K.cell(A, i, j))      # noqa: E731
    b = lambda i, j: K.cell_val(K.cell(B, i, j))      # noqa: E731
    cc = (lambda i: K.cell_val(K.cell(c, i))) if intercept else (lambda i: 0)
    fitted = lambda i, t: sum(a(i, l * n + j) * val(yq[j], t - 1 - l) for l in range(order) for j in range(n)) + sum(b(i, j) * val(xq[j], t) for j in range(nexo)) + cc(i)      # noqa: E731
    U = K.attr(v, "residual_estimates")
    K.ensure("one residual per endogenous variable and period after the initial condition", K.shape(U) == (n, T - order))
    for t in W:
        for i in range(n):
            u = K.cell(U, i, t - order)
            K.ensure(f"period {t}, equation {i}: fitted value plus stored residual reproduces the observation",
                     K.And(K.Not(K.cell_is_nan(u)), K.real_eq(fitted(i, t) + K.cell_val(u), val(yq[i], t))))
            K.ensure(f"period {t}, equation {i}: the residual is also written to the residual series of the dataslate", K.cell_eq(K.cell(X, rq[i], t), u))
    for t in range(order, T):
        if t not in W:
            regs_missing = any(pattern[q][t - 1 - l] for q in yq for l in range(order)) or any(pattern[q][t] for q in xq)
            for i in range(n):
                K.ensure(f"period {t} has incomplete data: equation {i} has a residual iff its own observation and every regressor exist",
                         K.cell_is_nan(K.cell(U, i, t - order)) == (regs_missing or pattern[yq[i]][t]))
    # normal equations on exactly the complete periods: residuals orthogonal to every regressor
    uu = lambda i, t: K.cell_val(K.cell(U, i, t - order))      # noqa: E731
    regs = [(f"lag {l + 1} of variable {j}", (lambda t, l=l, j=j: val(yq[j], t - 1 - l))) for l in range(order) for j in range(n)] \
        + [(f"exogenous {j}", (lambda t, j=j: val(xq[j], t))) for j in range(nexo)] + ([("intercept", lambda t: 1)] if intercept else [])
    for i in range(n):
        for label, z in regs:
            K.ensure(f"normal equation: residual of equation {i} orthogonal to {label} over the complete periods", K.real_eq(sum(uu(i, t) * z(t) for t in W), 0))
    # residual covariance: second moment of the residuals over the fitted periods
    K.ensure("fitted periods are exactly the periods with complete data",
             [K.attr(p, "serial") for p in K.items(K.attr(v, "fitted_periods"))] == [ds_v.base_periods[t - order].serial for t in W])
    for i in range(n):
        for j in range(n):
            second = sum(uu(i, t) * uu(j, t) for t in W)
            cij = K.cell_val(K.cell(cov, i, j))
            if not dof:
                K.ensure(f"cov[{i},{j}] is the second moment of the residuals", K.real_eq(cij * len(W), second))
            else:
                # degrees of freedom: fitted periods minus the coefficients estimated per equation (lags, exogenous, intercept)
                d = len(W) - (n * order + nexo + int(intercept))
                K.ensure(f"cov[{i},{j}] is the second moment divided by the degrees of freedom", K.real_eq(cij * d, second))


# ------------------------------------------------------------------------------ companion form, mean, autocovariances
def _mk_variant(K, n, order, intercept, nexo=0):
    A = K.array("A", (n, n * order), nan=False)
    B = K.array("B", (n, nexo), nan=False) if nexo else (K.array_cells([[] for _ in range(n)]) if False else np.zeros((n, 0)))
    c = K.array("c", (n,), nan=False) if intercept else None
    S = K.array("S", (n, n), nan=False)
    v = K.call(VAR.Variant, A=A, B=B, c=c, cov_residuals=S)
    a = lambda i, j: K.cell_val(K.cell(A, i, j))      # noqa: E731
    return v, A, c, S, a


def _companion_spec(a, n, order):
    """T = [A; I 0] as numbers/terms"""
    m = n * order
    return [[a(i, j) if i < n else (1 if j == i - n else 0) for j in range(m)] for i in range(m)]


@contract("C18", targets=[PV + "Variant._populate_companion_T", PV + "Variant.companion_T", PV + "Variant._get_companion_P", PV + "Variant._get_companion_K",
                          PV + "Variant._get_companion_solution", PV + "System.num_endogenous", PV + "System.order", PV + "System.num_lagged_endogenous"],
          instances=[(n, p, i) for n in (1, 2) for p in (1, 2, 3) for i in (True, False)])
def companion_form_of_the_var(K, n, order, intercept):
    """xi_t = (y_t, y_{t-1}, ..., y_{t-p+1}):  xi_t = T xi_{t-1} + K + P u_t  with T = [A_1 ... A_p; I 0], K = (c, 0), P = (I, 0)'."""
    v, A, c, S, a = _mk_variant(K, n, order, intercept)
    m = n * order
    sol = K.method(v, "_get_companion_solution")
    T, P, Kv = K.attr(sol, "T"), K.attr(sol, "P"), K.attr(sol, "K")
    spec = _companion_spec(a, n, order)
    K.ensure("shapes", K.And(K.shape(T) == (m, m), K.shape(P) == (m, n), K.shape(Kv) == (m,)))
    K.ensure("T = [A; I 0]", K.And(*[K.real_eq(K.cell_val(K.cell(T, i, j)), spec[i][j]) for i in range(m) for j in range(m)]))
    K.ensure("P = (I, 0)'", K.And(*[K.real_eq(K.cell_val(K.cell(P, i, j)), 1 if i == j else 0) for i in range(m) for j in range(n)]))
    K.ensure("K = (c, 0)", K.And(*[K.real_eq(K.cell_val(K.cell(Kv, i)), (K.cell_val(K.cell(c, i)) if intercept and i < n else 0)) for i in range(m)]))


@contract("C18", targets=[PV + "Variant.get_mean"], instances=[(n, p) for n in (1, 2) for p in (1, 2)], opts={"max_paths": 50})
def mean_is_the_fixed_point(K, n, order):
    """The reported mean mu satisfies mu = (A_1 + ... + A_p) mu + c (numpy.linalg.solve: assumed contract)."""
    v, A, c, S, a = _mk_variant(K, n, order, True)
    K.assume(K.Or(*[K.cell_val(K.cell(c, i)) != 0 for i in range(n)]))
    mu = K.method(v, "get_mean")
    K.ensure("shape", K.shape(mu) == (n,))
    mv = [K.cell_val(K.cell(mu, i)) for i in range(n)]
    for i in range(n):
        K.ensure(f"mean of variable {i} is reproduced by the VAR", K.real_eq(mv[i], sum(a(i, l * n + j) * mv[j] for l in range(order) for j in range(n)) + K.cell_val(K.cell(c, i))))
    v2, *_ = _mk_variant(K, n, order, False)
    mu2 = K.method(v2, "get_mean")
    K.ensure("no intercept: zero mean", K.And(K.shape(mu2) == (n,), *[K.real_eq(K.cell_val(K.cell(mu2, i)), 0) for i in range(n)]))


@contract("C18", targets=[PV + "Variant.get_acov", PV + "Variant._get_companion_sigma"], instances=[(1, 1, 2), (2, 1, 1), (1, 2, 2), (2, 2, 0)], cross=0, opts={"max_paths": 50})
def autocovariances_are_those_of_the_companion_form(K, n, order, up_to):
    """get_acov(up_to_order=k): Omega solves the Lyapunov equation of the companion form, Omega = T Omega T' + diag(S, 0)
    (scipy: assumed contract; here: the ARGUMENTS handed to it are the companion matrices), and the j-th reported
    matrix is the leading n x n block of T^j Omega, i.e. cov(y_t, y_{t-j})."""
    v, A, c, S, a = _mk_variant(K, n, order, True)
    m = n * order
    acov = list(K.items(K.method(v, "get_acov", up_to_order=up_to)))
    K.ensure("one matrix per order 0..k", len(acov) == up_to + 1)
    if not K.symbolic:
        return
    lyaps = getattr(K.ctx, "lyaps", [])
    K.ensure("exactly one Lyapunov equation is solved", len(lyaps) == 1)
    if len(lyaps) != 1:
        return
    Al, Ql, X = lyaps[0]
    spec = _companion_spec(a, n, order)
    from pyvc.interp import to_z3
    tz = lambda x: to_z3(x) if not hasattr(x, "sort") else x      # noqa: E731
    K.ensure("the transition matrix handed to the Lyapunov solver is the companion matrix", K.And(*[K.real_eq(tz(Al[i][j]), spec[i][j]) for i in range(m) for j in range(m)]))
    K.ensure("the covariance handed to it is diag(S, 0)", K.And(*[K.real_eq(tz(Ql[i][j]), (K.cell_val(K.cell(S, i, j)) if i < n and j < n else 0)) for i in range(m) for j in range(m)]))
    cur = [[X[i][j].t for j in range(m)] for i in range(m)]
    for k, M in enumerate(acov):
        K.ensure(f"order {k}: leading block of T^{k} Omega", K.And(K.shape(M) == (n, n), *[K.real_eq(K.cell_val(K.cell(M, i, j)), cur[i][j]) for i in range(n) for j in range(n)]))
        cur = [[sum(spec[i][p] * cur[p][j] for p in range(m) if not (isinstance(spec[i][p], int) and spec[i][p] == 0)) for j in range(m)] for i in range(m)]


# ------------------------------------------------------------------------------ simulation with the estimated residuals
from irispie.fords import simulators as FSIM
from irispie.frames import SingleFrame


def _sim_setup(order, nexo, T):
    endo = ("a", "b")
    exo = tuple(f"x{i}" for i in range(nexo))
    m = ir.RedVAR(endo, exogenous_names=exo or None, order=order, intercept=True)
    long_span = ir.qq(2000, 1) >> (ir.qq(2000, 1) + T + 3 * order + 4)
    rng = np.random.default_rng(0)
    db = ir.Databox()
    for n in endo + exo:
        db[n] = ir.Series(periods=long_span, values=rng.normal(size=len(long_span)))
    out = m.estimate(db, long_span)
    span = tuple((ir.qq(2000, 1) + order + 1) >> (ir.qq(2000, 1) + order + T))
    slatable = m.slatable_for_simulate(residuals_from_data=True)
    ds = Dataslate.from_databox_for_slatable(slatable, out, span, num_variants=1)
    frame = SingleFrame(start=span[0], end=span[-1])
    frame.resolve_columns(ds.start)
    m_v = next(iter(m.iter_variants()))
    ds_v = next(iter(ds.iter_variants()))
    return m, m_v, ds, ds_v, frame


@contract("C18", targets=[PS + "_simulate_exogenous_impact", "irispie.fords.simulators:simulate_flat", "irispie.fords.simulators:get_init_xi", PI + "Invariant._populate_solution_vectors",
                          PV + "Variant._get_companion_solution"], instances=[(1, 0, 2), (2, 0, 2), (1, 1, 2), (2, 1, 2), (3, 0, 1)], cross=2, opts={"max_paths": 400})
def simulation_step_is_the_var_equation(K, order, nexo, T):
    """One pass of the flat simulator over T periods with residuals read from the data: in every simulated period
    y_t = A_1 y_{t-1} + ... + A_p y_{t-p} + B x_t + c + u_t  (lags inside the simulated span are the simulated values),
    and nothing but the endogenous variables in the simulated periods is written.  By induction over the periods,
    simulating with the estimated residuals from the observed initial condition reproduces the data the residuals
    were computed from (estimate: fitted + residual == observation)."""
    m, m_v, ds, ds_v, frame = _sim_setup(order, nexo, T)
    inv = m._invariant
    yq, xq, rq = list(inv.get_endogenous_qids()), list(inv.get_exogenous_qids()), list(inv.get_residual_qids())
    n = len(yq)
    native = ds_v.get_data_variant()
    nrows, ncols = native.shape
    X = K.array("X", (nrows, ncols), nan=False)
    X0 = K.snapshot(X)
    A = K.array("A", (n, n * order), nan=False)
    B = K.array("B", (n, nexo), nan=False) if nexo else np.zeros((n, 0))
    c = K.array("c", (n,), nan=False)
    mv = K.lift(m_v)
    var0 = K.lift(m_v._variants[0])
    K.setattr(mv, "_variants", [var0])
    sysm = K.lift(m_v._variants[0].system)
    K.setattr(var0, "system", sysm)
    K.setattr(var0, "_companion_T", None)
    K.setattr(sysm, "A", A)
    K.setattr(sysm, "B", B)
    K.setattr(sysm, "c", c)
    dsl = K.lift(ds_v)
    K.set_variant_data(dsl, ds_v, X)
    impact = K.call(SIM._simulate_exogenous_impact, mv, dsl) if nexo else None
    K.call(FSIM.simulate_flat, mv, dsl, K.lift(frame), deviation=False, ignore_shocks=False, exogenous_impact=impact)
    cols = list(range(ncols))[frame.simulation_slice]
    K.ensure("the simulated columns are the periods of the span", len(cols) == T)
    g = lambda r, t: K.cell_val(K.cell(X, r, t))      # noqa: E731
    a = lambda i, j: K.cell_val(K.cell(A, i, j))      # noqa: E731
    for t in cols:
        for i in range(n):
            rhs = sum(a(i, l * n + j) * g(yq[j], t - 1 - l) for l in range(order) for j in range(n)) + K.cell_val(K.cell(c, i)) + g(rq[i], t) \
                + sum(K.cell_val(K.cell(B, i, j)) * g(xq[j], t) for j in range(nexo))
            K.ensure(f"period column {t}, variable {i}: the VAR equation with the residual from the data", K.real_eq(g(yq[i], t), rhs))
    r = K.int("r", 0, nrows - 1)
    cc = K.int("col", 0, ncols - 1)
    written = K.Or(*[K.And(r == yq[i], cc == t) for t in cols for i in range(n)])
    K.ensure("nothing but the endogenous variables in the simulated periods is written", K.Or(written, K.cell_eq(K.cell(X, r, cc), K.cell(X0, r, cc))))


# ------------------------------------------------------------------------------ native replay on real estimates (bounded stand-in, NOT a proof)
@bounded("C18", bound="2 endogenous variables, orders 1-3, 0-1 exogenous variables, intercept on/off, dof_correction on/off, 24 quarterly periods, with and without one missing observation; random data (seeded) and one noise-free data set per order")
def estimate_and_simulate_native(B):
    """RedVAR.estimate / simulate / get_mean / get_acov / get_eigenvalues through the public API, against numpy: normal
    equations on exactly the complete periods, fitted + residual == data, covariance, noise-free data return the VAR,
    simulation with the estimated residuals returns the data, companion-form moments."""
    rng = np.random.default_rng(B.rng.randint(0, 10 ** 6))
    span = ir.qq(2000, 1) >> ir.qq(2005, 4)
    T = len(span)
    for order in (1, 2, 3):
        for nexo in (0, 1):
            for icpt in (True, False):
                for dof in (False, True):
                    for missing in ((), (9,)):
                        B.case()
                        cfg = {"order": order, "exogenous": nexo, "intercept": icpt, "dof_correction": dof, "missing_at": list(missing)}
                        db = ir.Databox()
                        for nme in ("a", "b"):
                            v = rng.normal(size=T)
                            for mi in missing:
                                if nme == "a":
                                    v[mi] = np.nan
                            db[nme] = ir.Series(periods=span, values=v)
                        for i in range(nexo):
                            db[f"x{i}"] = ir.Series(periods=span, values=rng.normal(size=T))
                        try:
                            m = ir.RedVAR(("a", "b"), exogenous_names=tuple(f"x{i}" for i in range(nexo)) or None, order=order, intercept=icpt)
                            out = m.estimate(db, span, dof_correction=dof)
                            S = m.get_system_matrices()
                        except Exception as ex:
                            B.fail(f"estimate: exception {type(ex).__name__}: {ex}", cfg)
                            return
                        A, Bm, c, cov = S.A, S.B, S.c, S.cov_residuals
                        c = np.zeros(2) if c is None else np.asarray(c).flatten()
                        Y = np.vstack([db[nme].get_data(span).T for nme in ("a", "b")])
                        X = np.vstack([db[f"x{i}"].get_data(span).T for i in range(nexo)]) if nexo else np.zeros((0, T))
                        U = np.vstack([out["res_" + nme].get_data(span).T for nme in ("a", "b")])
                        W = [t for t in range(order, T) if np.all(np.isfinite(Y[:, t - order:t + 1])) and np.all(np.isfinite(X[:, t]))]
                        Z = np.vstack([np.vstack([Y[:, [t - i for t in W]] for i in range(1, order + 1)]), X[:, W], np.ones((1 if icpt else 0, len(W)))])
                        fit = A @ Z[:2 * order] + (Bm @ X[:, W] if nexo else 0) + c.reshape(-1, 1)
                        if not np.allclose(fit + U[:, W], Y[:, W], atol=1e-9):
                            B.fail("fitted equation plus stored residual does not reproduce the fitted observations", cfg)
                            return
                        if np.abs(U[:, W] @ Z.T).max() > 1e-8 * max(1.0, np.abs(Z).max()) * len(W):
                            B.fail("residuals are not orthogonal to the regressors over the complete periods (normal equations)", cfg)
                            return
                        fitted = m._variants[0].fitted_periods
                        if [p.serial for p in fitted] != [span[t].serial for t in W]:
                            B.fail("fitted periods are not exactly the periods with complete data", dict(cfg, got=[str(p) for p in fitted]))
                            return
                        second = U[:, W] @ U[:, W].T
                        ratios = second / np.where(np.abs(cov) > 1e-14, cov, np.nan)
                        d = np.nanmean(ratios)
                        want_d = len(W) - ((2 * order + nexo + int(icpt)) if dof else 0)
                        if not np.allclose(cov * d, second, atol=1e-9) or not np.allclose(cov, cov.T) or abs(d - want_d) > 1e-6:
                            B.fail("residual covariance is not the (dof-corrected) second moment of the residuals", dict(cfg, divisor=float(d), fitted=len(W)))
                            return
                        if not missing:
                            try:
                                sim = m.simulate(out, span[order:])
                            except Exception as ex:
                                B.fail(f"simulate: exception {type(ex).__name__}: {ex}", cfg)
                                return
                            Ys = np.vstack([sim[nme].get_data(span).T for nme in ("a", "b")])
                            if not np.allclose(Ys[:, order:], Y[:, order:], atol=1e-8):
                                B.fail("simulating over the estimation span with the estimated residuals does not return the data", dict(cfg, max_abs_diff=float(np.nanmax(np.abs(Ys[:, order:] - Y[:, order:])))))
                                return
                        # companion-form moments
                        n, mm = 2, 2 * order
                        Tc = np.vstack([A, np.eye(mm - n, mm)])
                        ev = sorted(np.linalg.eigvals(Tc), key=lambda z: (round(z.real, 9), round(z.imag, 9)))
                        try:
                            got_ev = m.get_eigenvalues()
                            got_ev = sorted([complex(z) for z in got_ev], key=lambda z: (round(z.real, 9), round(z.imag, 9)))
                        except Exception as ex:
                            B.fail(f"get_eigenvalues: exception {type(ex).__name__}: {ex}", cfg)
                            return
                        if len(got_ev) != len(ev) or not np.allclose(got_ev, ev, atol=1e-8):
                            B.fail("eigenvalues are not those of the companion matrix", cfg)
                            return
                        if max(abs(z) for z in ev) < 0.98:
                            mu = np.asarray(m.get_mean()).flatten()
                            want = np.linalg.solve(np.eye(n) - sum(A[:, i * n:(i + 1) * n] for i in range(order)), c)
                            if not np.allclose(mu, want, atol=1e-8):
                                B.fail("mean is not the fixed point of the VAR", dict(cfg, got=mu.tolist(), want=want.tolist()))
                                return
                            ac = m.get_acov(up_to_order=1)
                            Sig = np.zeros((mm, mm))
                            Sig[:n, :n] = cov
                            Om = Sig.copy()
                            for _ in range(4000):
                                Om = Tc @ Om @ Tc.T + Sig
                            if not (np.allclose(np.asarray(ac[0]), Om[:n, :n], atol=1e-6) and np.allclose(np.asarray(ac[1]), (Tc @ Om)[:n, :n], atol=1e-6)):
                                B.fail("autocovariances are not those of the companion form", cfg)
                                return
        # noise-free data generated by a VAR return that VAR
        B.case()
        n = 2
        A_true = np.hstack([np.array([[0.5, 0.1], [-0.2, 0.3]]) / (i + 1) for i in range(order)])
        c_true = np.array([1.0, -0.5])
        Y = np.zeros((n, T))
        Y[:, :order] = rng.normal(size=(n, order))
        for t in range(order, T):
            Y[:, t] = A_true @ np.concatenate([Y[:, t - i] for i in range(1, order + 1)]) + c_true
        Y = Y + 0.0
        db = ir.Databox()
        for i, nme in enumerate(("a", "b")):
            db[nme] = ir.Series(periods=span, values=Y[i, :].copy())
        try:
            m = ir.RedVAR(("a", "b"), order=order, intercept=True)
            m.estimate(db, span[:3 * order + 6])
            S = m.get_system_matrices()
        except np.linalg.LinAlgError:
            continue
        except Exception as ex:
            B.fail(f"estimate on noise-free data: exception {type(ex).__name__}: {ex}", {"order": order})
            return
        if not (np.allclose(S.A, A_true, atol=1e-5) and np.allclose(np.asarray(S.c).flatten(), c_true, atol=1e-5)):
            B.fail("noise-free data generated by a VAR do not return that VAR", {"order": order, "A": np.asarray(S.A).tolist(), "A_true": A_true.tolist()})
            return
    # two variants of the data: each variant is estimated and simulated on its own
    B.case()
    db = ir.Databox()
    for nme in ("a", "b"):
        db[nme] = ir.Series(num_variants=2, periods=span, values=rng.normal(size=(T, 2)))
    try:
        m = ir.RedVAR(("a", "b"), order=2, intercept=True)
        out = m.estimate(db, span, num_variants=2)
        sim = m.simulate(out, span[2:])
    except Exception as ex:
        B.fail(f"two variants: exception {type(ex).__name__}: {ex}", {})
        return
    for nme in ("a", "b"):
        got, want = sim[nme].get_data(span[2:]), db[nme].get_data(span[2:])
        if got.shape != want.shape or not np.allclose(got, want, atol=1e-8):
            B.fail("two variants: simulating with the estimated residuals does not return the data of every variant", {"name": nme, "max_abs_diff": float(np.abs(got - want).max()) if got.shape == want.shape else None})
            return
    return {"exhaustive_within_bound": False}


# ------------------------------------------------------------------------------ prior (dummy) observations
from irispie.red_vars import prior_obs as PO
PP = "irispie.red_vars.prior_obs:"


def _minnesota_spec(n, order, nexo, icpt, rho, mu, kappa):
    """dummy observations of the Minnesota prior: for every variable i and lag l = 1..p one observation in which only
    lag l of variable i is 'observed', with weight mu * l**kappa (the prior tightens with the lag; lag 1 has weight mu),
    the regressand being mu*rho for the first lag of the variable itself and 0 otherwise; exogenous and intercept 0"""
    cols = n * order
    lhs = np.zeros((n, cols))
    rhs = np.zeros((n * order + nexo + int(icpt), cols))
    for l in range(1, order + 1):
        for i in range(n):
            k = (l - 1) * n + i
            rhs[k, k] = mu * l ** kappa
            if l == 1:
                lhs[i, k] = mu * rho
    return lhs, rhs


def _mean_spec(n, order, nexo, icpt, mean, mu):
    """one dummy observation (only with an intercept): every lag and the regressand equal mu*mean, the intercept regressor mu"""
    cols = int(icpt)
    lhs = np.zeros((n, cols))
    rhs = np.zeros((n * order + nexo + int(icpt), cols))
    if icpt:
        lhs[:, 0] = mu * np.asarray(mean)
        rhs[:n * order, 0] = np.tile(mu * np.asarray(mean), order)
        rhs[-1, 0] = mu
    return lhs, rhs


@contract("C18", targets=[PP + "MinnesotaPriorObs.generate_y0", PP + "MinnesotaPriorObs.generate_y1", PP + "MinnesotaPriorObs.generate_x", PP + "MinnesotaPriorObs.generate_k",
                          PP + "MeanPriorObs.generate_y0", PP + "MeanPriorObs.generate_y1", PP + "MeanPriorObs.generate_x", PP + "MeanPriorObs.generate_k",
                          PP + "PriorObs.generate_lhs", PP + "PriorObs.generate_rhs", PP + "arrays_from_prior_obs", PP + "_ensure_array"],
          instances=[(order, nexo, icpt, kappa) for order in (1, 2, 3) for nexo in (0, 1) for icpt in (True, False) for kappa in (0, 1, 2)], cross=1)
def prior_observations_have_the_documented_layout(K, order, nexo, icpt, kappa):
    n = 2
    from irispie.red_vars._dimensions import Dimensions
    dims = Dimensions(num_endogenous=n, order=order, has_intercept=icpt, num_exogenous=nexo)
    rho, mu, mean, mu_m = 0.75, 2.0, [1.0, -2.0], 0.5
    pri = [PO.MinnesotaPriorObs(rho=rho, mu=mu, kappa=kappa), PO.MeanPriorObs(mean=np.array(mean), mu=mu_m)]
    lhs, rhs = K.call(PO.arrays_from_prior_obs, [K.lift(p) for p in pri], dims, 1)
    l1, r1 = _minnesota_spec(n, order, nexo, icpt, rho, mu, kappa)
    l2, r2 = _mean_spec(n, order, nexo, icpt, mean, mu_m)
    wl, wr = np.hstack([l1, l2]), np.hstack([r1, r2])
    K.ensure("shapes: one column per dummy observation", K.And(K.shape(lhs) == wl.shape, K.shape(rhs) == wr.shape))
    K.ensure("regressands of the dummy observations", K.And(*[K.real_eq(K.cell_val(K.cell(lhs, i, j)), float(wl[i, j])) for i in range(wl.shape[0]) for j in range(wl.shape[1])]))
    K.ensure("regressors of the dummy observations (lag l weighted by l**kappa, l = 1..p)", K.And(*[K.real_eq(K.cell_val(K.cell(rhs, i, j)), float(wr[i, j])) for i in range(wr.shape[0]) for j in range(wr.shape[1])]))


@contract("C18", targets=[PE + "_estimate_variant", PP + "arrays_from_prior_obs"], instances=[(1, 0, True), (2, 0, True), (1, 1, False)], cross=2, opts={"max_paths": 300})
def estimate_with_prior_observations_is_least_squares_on_the_stacked_sample(K, order, nexo, icpt):
    """With prior dummy observations the estimate is the least-squares solution of the sample (complete periods) stacked
    with the dummy observations: residuals of sample AND dummy observations together are orthogonal to every regressor."""
    T = 2 * order + nexo + 4
    m, ds, ds_v = _setup(order, nexo, icpt, T)
    inv = m._invariant
    yq, xq = list(inv.get_endogenous_qids()), list(inv.get_exogenous_qids())
    n = len(yq)
    native = ds_v.get_data_variant()
    nrows, ncols = native.shape
    X = K.array_cells([[K.real(f"d_{r}_{c}", sample=(-3, 3)) for c in range(ncols)] for r in range(nrows)])
    X0 = K.snapshot(X)
    dsl = K.lift(ds_v)
    K.set_variant_data(dsl, ds_v, X)
    kappa, rho, mu = 1, 0.75, 2.0
    pri = [PO.MinnesotaPriorObs(rho=rho, mu=mu, kappa=kappa)]
    v = K.call(EST._estimate_variant, K.lift(inv), dsl, prior_obs=[K.lift(p) for p in pri], dof_correction=False, omit_missing=True)
    sysm = K.attr(v, "system")
    A, B, c = K.attr(sysm, "A"), K.attr(sysm, "B"), K.attr(sysm, "c")
    val = lambda r, cc: K.cell_val(K.cell(X0, r, cc))      # noqa: E731
    beta = lambda i, k: (K.cell_val(K.cell(A, i, k)) if k < n * order else K.cell_val(K.cell(B, i, k - n * order)) if k < n * order + nexo else K.cell_val(K.cell(c, i)))      # noqa: E731
    nreg = n * order + nexo + int(icpt)
    W = list(range(order, ncols))
    z = lambda k, t: (val(yq[k % n], t - 1 - k // n) if k < n * order else val(xq[k - n * order], t) if k < n * order + nexo else 1)      # noqa: E731
    dl, dr = _minnesota_spec(n, order, nexo, icpt, rho, mu, kappa)
    for i in range(n):
        for k in range(nreg):
            sample = sum((val(yq[i], t) - sum(beta(i, q) * z(q, t) for q in range(nreg))) * z(k, t) for t in W)
            dummy = sum((float(dl[i, d]) - sum(beta(i, q) * float(dr[q, d]) for q in range(nreg) if dr[q, d])) * float(dr[k, d]) for d in range(dl.shape[1]) if dr[k, d])
            K.ensure(f"normal equation of equation {i}, regressor {k}, over sample and dummy observations", K.real_eq(sample + dummy, 0))


# ------------------------------------------------------------------------------ every variant is simulated with its own system
@contract("C18", targets=[PS + "_simulate", PS + "_simulate_exogenous_impact", "irispie.has_variants:Mixin.iter_variants", "irispie.has_variants:Mixin.new_with_shallow_variants"],
          instances=[(2, False), (3, False), (2, True)], cross=0, opts={"max_paths": 200})
def each_variant_is_simulated_with_its_own_estimates(K, nv, with_exogenous):
    """_simulate hands the flat simulator, for variant i, a single-variant view of the model whose system is the i-th
    estimate and the i-th variant of the data (the simulator reads the solution from that view) - and, with exogenous
    variables, the impact P_i (B_i x_i) computed from the i-th estimate and the i-th variant of the exogenous data."""
    span = ir.qq(2000, 1) >> ir.qq(2003, 4)
    rng = np.random.default_rng(3)
    db = ir.Databox()
    names = ("a", "b") + (("x",) if with_exogenous else ())
    for nme in names:
        db[nme] = ir.Series(num_variants=nv, periods=span, values=rng.normal(size=(len(span), nv)))
    m = ir.RedVAR(("a", "b"), order=1, intercept=True, **({"exogenous_names": ("x",)} if with_exogenous else {}))
    out = m.estimate(db, span, num_variants=nv)
    K.ensure("the estimates of the variants differ (otherwise the contract says nothing)", all(not np.allclose(m._variants[0].system.A, m._variants[i].system.A) for i in range(1, nv)))
    ml = K.lift(m)
    sim_span = tuple(span[2:6])
    calls = K.capture(FSIM, "simulate_flat", lambda: K.call(SIM._simulate, ml, K.lift(out), sim_span, residuals_from_data=True, draw_residuals=None,
                                                            progress_bar_settings=dict(title="")))
    K.ensure("one simulator call per variant", len(calls) == nv)
    for i, (args, kwargs) in enumerate(calls):
        view = args[0]
        vs = list(K.items(K.attr(view, "_variants")))
        K.ensure(f"call {i}: the model view holds exactly one variant", len(vs) == 1)
        got = K.attr(K.attr(vs[0], "system"), "A") if len(vs) == 1 else None
        K.ensure(f"call {i}: ... and it is the {i}-th estimate", got is not None and np.allclose(np.asarray(K.concrete_array(got)), m._variants[i].system.A))
        if with_exogenous:
            impact = kwargs.get("exogenous_impact")
            Bi = np.asarray(m._variants[i].system.B, dtype=float).reshape(2, -1)
            have = None if impact is None else np.asarray(K.concrete_array(impact), dtype=float)
            K.ensure(f"call {i}: an exogenous impact is handed over, one column per period of the simulated array", have is not None and have.ndim == 2 and have.shape[0] == 2)
            if have is not None and have.ndim == 2:
                # the simulated array starts one period (the initial condition of an order-1 VAR) before the span
                xs = np.asarray(db["x"].get_data(tuple(span[1:6]), i), dtype=float).reshape(1, -1)
                K.ensure(f"call {i}: the impact is B_{i} x_{i} of THIS variant in the rows of the current-dated variables",
                         have.shape[1] == xs.shape[1] and np.allclose(have[:2, :], Bi @ xs, equal_nan=True))


# ------------------------------------------------------------------------------ what estimate() returns, also into a databox that already holds results
@contract("C18", targets=[PE + "Inlay.estimate", "irispie.dataslates.main:Dataslate.to_databox", "irispie.databoxes.main:Databox.__or__"],
          instances=[(None,), ("stale",)], cross=0, opts={"max_paths": 400, "inline": ("irispie.series.main:Series.trim",)})     # concrete data: trim is executed, not summarised
def estimate_returns_the_fresh_residuals(K, target):
    """estimate(..., target_db=t): the returned databox holds the residuals of THIS estimation (whatever t held under the
    same names), the input series of the span, and everything else t held; t itself is not modified."""
    span = ir.qq(2000, 1) >> ir.qq(2001, 4)
    rng = np.random.default_rng(11)
    db = ir.Databox()
    db["a"] = ir.Series(periods=span, values=rng.normal(size=len(span)))
    m = ir.RedVAR(("a",), order=1, intercept=True)
    fresh = [float(v) for v in np.arange(1, len(span) + 5) / 16]          # residuals "estimated" for the columns of the dataslate
    seen = []

    def estimate_variant(invariant, dataslate_v, **k):
        names = list(K.items(K.attr(K.attr(dataslate_v, "_invariant"), "names")))
        arr = K.method(dataslate_v, "get_data_variant")
        ncol = K.shape(arr)[1]
        seen.append(ncol)
        row = names.index("res_a")
        for c in range(ncol):
            K.setitem(arr, (row, c), fresh[c])
        return K.obj(VAR.Variant)
    tgt = None
    if target == "stale":
        tgt = K.call(ir.Databox)
        stale = K.lift(ir.Series(periods=span, values=np.full(len(span), 99.0)))
        K.setitem(tgt, "res_a", stale)
        K.setitem(tgt, "other", 7)
    ml = K.lift(m)
    out = K.stubbed(EST._estimate_variant, estimate_variant, "the estimator of one variant has its own contracts; here it is represented by known residuals",
                    lambda: K.call(EST.Inlay.estimate, ml, K.lift(db), span, **({"target_db": tgt} if tgt is not None else {})))
    K.ensure("one estimation, on an array of the periods the span needs", len(seen) == 1 and seen[0] in (len(span), len(span) + 1))
    res = K.index(out, "res_a")
    rd = np.asarray(K.concrete_array(K.attr(res, "data")), dtype=float).ravel()
    K.ensure("the residual series returned is the one of this estimation", len(seen) == 1 and len(rd) == seen[0] and all(abs(v - f) < 1e-12 for v, f in zip(rd, fresh)))
    K.ensure("no stale value survives", not any(abs(v - 99.0) < 1e-9 for v in rd))
    if tgt is not None:
        K.ensure("what else the target held is carried over", K.index(out, "other") == 7)
        K.ensure("the target databox itself still holds its own series", K.index(tgt, "res_a") is stale and out is not tgt)


# ------------------------------------------------------------------------------ every variant of the input data reaches its own estimation
# estimate() reads the data of variant i through Dataslate.from_databox / Databox.iter_variants; the contract is the
# databox -> dataslate -> databox round trip of C19 with two variants, registered here as the input step of estimate.
from contracts.c19_databox import databox_dataslate_roundtrip as _roundtrip   # noqa: E402

contract("C18", name="every_variant_of_the_data_reaches_its_own_estimation",
         targets=["irispie.dataslates.main:Dataslate.from_databox", "irispie.databoxes.main:Databox.iter_variants",
                  "irispie.series.main:Series.iter_data_variants_from_until"],
         instances=[(2, None)], opts={"max_paths": 8000})(_roundtrip)


# ------------------------------------------------------------------------------ eigenvalues: of the companion matrix, and what is derived from them
@contract("C18", targets=[PV + "Variant._populate_eigenvalues", PV + "Variant.eigenvalues", PV + "Variant.max_abs_eigenvalue", PV + "Variant.is_stable",
                          PV + "_tuple_from_flat_array", PV + "_number_from_numpy", PV + "Variant.companion_T"],
          instances=[(1, 2, (0.5, -0.25)), (2, 1, (1.5, 0.25)), (2, 2, (0.5, -0.9, 0.1, 0.2)), (1, 1, (1.0,)), (1, 2, (-1.0, 0.25))], cross=0, opts={"max_paths": 200})   # incl. a root ON the unit circle: not stable
def eigenvalues_are_those_of_the_companion_matrix(K, n, order, answer):
    """The reported eigenvalues are what the eigenvalue kernel returns FOR THE COMPANION MATRIX (the matrix the companion
    contract proves to be [A_1 ... A_p; I 0]); the largest modulus and the stability flag are derived from exactly those
    values (stable iff every eigenvalue is inside the unit circle).  numpy.linalg.eigvals itself is external."""
    v, A, c, S, a = _mk_variant(K, n, order, True)
    m = n * order
    spec = _companion_spec(a, n, order)
    asked = []

    def eigvals(T):
        asked.append(T)
        return np.array(answer, dtype=float)
    ev = K.stubbed(np.linalg.eigvals, eigvals, "numpy.linalg.eigvals: external kernel, represented by a given answer for the matrix it is asked about",
                   lambda: K.getattr(v, "eigenvalues"))
    K.ensure("the kernel is asked once", len(asked) == 1)
    if len(asked) == 1:
        T = asked[0]
        K.ensure("... about the companion matrix", K.And(K.shape(T)[0] == m, K.shape(T)[1] == m, *[K.real_eq(K.cell_val(K.cell(T, i, j)), spec[i][j]) for i in range(m) for j in range(m)]))
    K.ensure("the eigenvalues reported are the kernel's answer", tuple(float(x) for x in K.items(ev)) == tuple(float(x) for x in answer))
    big = max(abs(x) for x in answer)
    mx = K.stubbed(np.linalg.eigvals, eigvals, "as above", lambda: K.getattr(v, "max_abs_eigenvalue"))
    K.ensure("largest modulus", float(mx) == float(big))
    st = K.stubbed(np.linalg.eigvals, eigvals, "as above", lambda: K.getattr(v, "is_stable"))
    K.ensure("stable iff every eigenvalue lies inside the unit circle", bool(st) == (big < 1))
    K.ensure("the kernel is not asked again for what is already known", len(asked) == 1)
