"""C14 - trend filters return the optimum of their problem; trend plus gap is the data.

What is under contract is the irispie code AROUND the two numerical kernels: it builds the linear system of the
constrained Hodrick-Prescott filter and the quadratic programme of the l1 filter, hands them to numpy.linalg.solve /
daqp.solve, and assembles trend and gap from the answer.  The kernels themselves (LAPACK, daqp) are outside the
verifier's reach and enter through ASSUMED CONTRACTS (see pyvc/ndarray.py: linalg_solve, pyvc/libmodels.py: daqp_solve):
"the returned x solves A x = b and is the only solution" and "the returned x is a KKT point of the box-constrained QP".
Under those assumptions the contracts below prove, over the reals and for every data vector, smoothing parameter,
observation pattern and constraint value, that the returned trend satisfies the first-order optimality conditions
of the documented optimisation problem, that constraints are met exactly, that trend + gap is the data, etc.
The number of periods is FIXED per instance (the real code builds the matrices with Python loops over it), so the
result is 'for all values, for each listed dimension', not 'for all dimensions'."""
import itertools
from fractions import Fraction
import numpy as np
from pyvc.prove import contract
from pyvc.bounded import bounded
import irispie.dates as D
from irispie.series import _hp as HP
from irispie.series import _ell_one as L1
from irispie.series.main import Series

PH = "irispie.series._hp:"
PL = "irispie.series._ell_one:"
FILT = HP._ConstrainedHodrickPrescottFilter


# ------------------------------------------------------------------------------ independent specification helpers
def second_differences(n):
    """rows of the second-difference operator: (D2 x)_i = x_i - 2 x_{i+1} + x_{i+2}"""
    return [[{0: 1, 1: -2, 2: 1}.get(t - i, 0) for t in range(n)] for i in range(n - 2)]


def first_differences(n):
    return [[{0: -1, 1: 1}.get(t - i, 0) for t in range(n)] for i in range(n - 1)]


def gram(rows, n):
    return [[sum(r[t] * r[s] for r in rows) for s in range(n)] for t in range(n)]


def nullspace(E, n):
    """basis (lists of Fractions) of {v : E v = 0} by Gaussian elimination (E concrete)"""
    M = [[Fraction(x) for x in row] for row in E]
    piv = []
    r = 0
    for c in range(n):
        p = next((i for i in range(r, len(M)) if M[i][c] != 0), None)
        if p is None:
            continue
        M[r], M[p] = M[p], M[r]
        M[r] = [x / M[r][c] for x in M[r]]
        for i in range(len(M)):
            if i != r and M[i][c] != 0:
                M[i] = [a - M[i][c] * b for a, b in zip(M[i], M[r])]
        piv.append(c)
        r += 1
    free = [c for c in range(n) if c not in piv]
    basis = []
    for f in free:
        v = [Fraction(0)] * n
        v[f] = Fraction(1)
        for i, c in enumerate(piv):
            v[c] = -M[i][f]
        basis.append(v)
    return basis


def constraint_matrix(n, lev, chg):
    E = []
    for j in lev:
        E.append([1 if t == j else 0 for t in range(n)])
    for j in chg:
        E.append([1 if t == j else -1 if t == j - 1 else 0 for t in range(n)])
    return E


def _patterns(n, limit=None):
    # at least two observations: with fewer the minimiser is not unique (any line through the point) and numpy raises LinAlgError
    pats = [p for p in itertools.product((False, True), repeat=n) if sum(not x for x in p) >= 2]
    return pats if limit is None else pats[:limit]


# ------------------------------------------------------------------------------ the HP system and its solution
def _hp_instances():
    out = []
    for n in (3, 4, 5):
        for pat in _patterns(n):
            out.append((n, pat, (), (), False))
    # constraints (level / change positions), some with missing observations, log and no log
    out += [(4, (False,) * 4, (1,), (), False), (5, (False, True, False, False, True), (0, 4), (), False),
            (5, (False,) * 5, (), (2,), False), (5, (False, False, True, False, False), (1,), (3, 4), False),
            (6, (False, True, True, False, False, False), (5,), (1,), False),
            (4, (False,) * 4, (), (), True), (5, (False, False, True, False, False), (4,), (), True), (5, (False,) * 5, (), (1,), True),
            (7, (False, True, False, False, True, True, False), (), (), False)]
    return out


@contract("C14", targets=[PH + "_ConstrainedHodrickPrescottFilter.filter_data", PH + "_ConstrainedHodrickPrescottFilter.__init__",
                          PH + "_ConstrainedHodrickPrescottFilter._create_plain_filter_matrix", PH + "_ConstrainedHodrickPrescottFilter._add_level_constraints",
                          PH + "_ConstrainedHodrickPrescottFilter._add_change_constraints", PH + "_ConstrainedHodrickPrescottFilter._add_eye_for_observations",
                          PH + "_ConstrainedHodrickPrescottFilter._extend_data"],
          instances=_hp_instances(), opts={"max_paths": 400})
def hp_trend_is_the_constrained_optimum(K, n, pattern, lev, chg, log):
    """First-order optimality of  J(t) = sum_{observed}(z - t)^2 + smooth * sum (D2 t)^2  subject to the level and
    change constraints (z = data, or log data): feasibility, and the gradient of J is orthogonal to every direction that
    keeps the constraints (J is convex, so this characterises the minimiser)."""
    lam = K.real("smooth", positive=True, sample=(0.5, 200))
    y = K.array_pattern("y", pattern)
    obs = [j for j in range(n) if not pattern[j]]
    if log:
        for j in obs:
            K.assume(K.cell_val(K.cell(y, j)) > 0)
    lv = K.array("level", (len(lev), 1), nan=False) if lev else None
    ch = K.array("change", (len(chg), 1), nan=False) if chg else None
    if log:
        for i in range(len(lev)):
            K.assume(K.cell_val(K.cell(lv, i, 0)) > 0)
        for i in range(len(chg)):
            K.assume(K.cell_val(K.cell(ch, i, 0)) > 0)
    hp = K.call(FILT, n, lam, level_where=list(lev) or None, change_where=list(chg) or None, log=log)
    trend, gap = K.call(FILT.filter_data, hp, y, level_data=lv, change_data=ch)
    K.ensure("shapes: one row per period, one column", K.And(K.shape(trend) == (n, 1), K.shape(gap) == (n, 1)))
    tr = [K.cell(trend, t, 0) for t in range(n)]
    gp = [K.cell(gap, t, 0) for t in range(n)]
    ycells = [K.cell(y, t) for t in range(n)]
    lvv = [K.cell_val(K.cell(lv, i, 0)) for i in range(len(lev))]
    chv = [K.cell_val(K.cell(ch, i, 0)) for i in range(len(chg))]
    optimality_conditions(K, n, pattern, lev, chg, log, lam, ycells, tr, gp, lvv, chv)


def optimality_conditions(K, n, pattern, lev, chg, log, lam, ycells, tr, gp, lvv, chv):
    """The postcondition shared by the array-level and the series-level contracts (cells of data, trend and gap over
    the n periods of the filter span; level/change constraint values at positions lev/chg)."""
    obs = [j for j in range(n) if not pattern[j]]
    K.ensure("the trend has a value in every period (missing observations are bridged)", K.And(*[K.Not(K.cell_is_nan(c)) for c in tr]))
    tv = [K.cell_val(c) for c in tr]
    if log:
        K.ensure("log=True: the trend is positive", K.And(*[v > 0 for v in tv]))
        tz = [K.log(v) for v in tv]
        z = {j: K.log(K.cell_val(ycells[j])) for j in obs}
        lvz = [K.log(v) for v in lvv]
        chz = [K.log(v) for v in chv]
    else:
        tz = tv
        z = {j: K.cell_val(ycells[j]) for j in obs}
        lvz, chz = lvv, chv
    for i, j in enumerate(lev):
        K.ensure(f"level constraint at position {j} is met exactly", K.real_eq(tz[j], lvz[i]))
    for i, j in enumerate(chg):
        K.ensure(f"change constraint at position {j} is met exactly", K.real_eq(tz[j] - tz[j - 1], chz[i]))
    G = gram(second_differences(n), n)
    grad = [(-(z[t] - tz[t]) if t in z else 0) + lam * sum(G[t][s] * tz[s] for s in range(n) if G[t][s]) for t in range(n)]    # half the gradient
    for v in nullspace(constraint_matrix(n, lev, chg), n):
        lhs = sum(K.frac(c) * g for c, g in zip(v, grad) if c != 0)
        K.ensure(f"gradient of the HP objective vanishes along the feasible direction {[str(c) for c in v]}", K.real_eq(lhs, 0))
    for t in range(n):
        if pattern[t]:
            K.ensure(f"no observation at {t}: the gap is missing", K.cell_is_nan(gp[t]))
        elif log:
            K.ensure(f"observed at {t}: trend * gap == data (log filter)", K.And(K.Not(K.cell_is_nan(gp[t])), K.real_eq(tv[t] * K.cell_val(gp[t]), K.cell_val(ycells[t]))))
        else:
            K.ensure(f"observed at {t}: trend + gap == data", K.And(K.Not(K.cell_is_nan(gp[t])), K.real_eq(tv[t] + K.cell_val(gp[t]), K.cell_val(ycells[t]))))


@contract("C14", targets=[PH + "_ConstrainedHodrickPrescottFilter.filter_data"], instances=[(n, log) for n in (3, 4, 5, 6, 8) for log in (False, True)])
def hp_returns_a_straight_line_unchanged(K, n, log):
    """A fully observed straight line (log=True: a geometric path) satisfies the system the code builds, for every
    smoothing parameter; by the assumed uniqueness of the solver's answer it is returned unchanged, with a zero gap
    (log=True: a unit gap)."""
    lam = K.real("smooth", positive=True, sample=(0.5, 200))
    a = K.real("a", sample=(1, 5))
    b = K.real("b", sample=(0.1, 1))
    if log:
        # y_t = exp(a + b t): a line in logs
        y = K.derived_array((n,), lambda t: K.real_cell(K.exp(a + b * t)))
    else:
        y = K.derived_array((n,), lambda t: K.real_cell(a + b * t))
    hp = K.call(FILT, n, lam, log=log)
    trend, gap = K.call(FILT.filter_data, hp, y)
    K.solve_unique("straight line", [[a + b * t] for t in range(n)])
    for t in range(n):
        tc, gc = K.cell(trend, t, 0), K.cell(gap, t, 0)
        want = K.exp(a + b * t) if log else a + b * t
        K.ensure(f"trend at {t} is the line itself", K.And(K.Not(K.cell_is_nan(tc)), K.real_eq(K.cell_val(tc), want)))
        K.ensure(f"gap at {t} is {'one' if log else 'zero'}", K.And(K.Not(K.cell_is_nan(gc)), K.real_eq(K.cell_val(gc), 1 if log else 0)))


# ------------------------------------------------------------------------------ constraints taken from series
@contract("C14", targets=[PH + "_prepare_constraints", PH + "_remove_first_date_change"],
          instances=[(pat,) for n in (1, 2, 3, 4) for pat in itertools.product((False, True), repeat=n)], opts={"max_paths": 200})
def constraints_are_the_observed_points_of_the_constraint_series(K, pattern):
    """_prepare_constraints: the positions are exactly the periods of the filter span where the constraint series has
    a value, with those values in the same order; _remove_first_date_change drops a change constraint dated at the
    first period (there is no previous period to take the change from) and nothing else."""
    n = len(pattern)
    start = K.int("from", 8000, 8100)
    col = K.array_pattern("c", pattern)
    where_spec = [j for j in range(n) if not pattern[j]]
    # the constraint series covers exactly the filter span here (alignment of get_data_from_until is a C10 contract)
    if where_spec:
        first, last = where_spec[0], where_spec[-1]
        data2 = K.derived_array((last - first + 1, 1), lambda r, c: K.cell(col, first + r))
        s = K.obj(Series, start=K.obj(D.QuarterlyPeriod, serial=start + first), data=data2, data_type=np.float64, metadata={}, __description__="")
    else:
        s = K.obj(Series, start=None, data=K.derived_array((0, 1), lambda r, c: K.nan_cell()), data_type=np.float64, metadata={}, __description__="")
    from_until = (K.obj(D.QuarterlyPeriod, serial=start), K.obj(D.QuarterlyPeriod, serial=start + n - 1))
    data, where = K.call(HP._prepare_constraints, s, from_until)
    if not where_spec:
        K.ensure("no observed constraint: empty positions", K.length(where) == 0)
        return
    K.ensure("positions are the observed periods, in order", _same_ints(K, K.items(where), where_spec))
    K.ensure("one data row per position", K.shape(data) == (len(where_spec), 1))
    for i, j in enumerate(where_spec):
        K.ensure(f"row {i} is the constraint value at position {j}", K.cell_eq(K.cell(data, i, 0), K.cell(col, j)))
    data2, where2 = K.call(HP._remove_first_date_change, data, where)
    rest = [j for j in where_spec if j != 0]
    if not rest:
        K.ensure("nothing left: both are None", K.And(K.is_none(data2), K.is_none(where2)) if where_spec else True)
    else:
        K.ensure("change positions without the first period", _same_ints(K, K.items(where2), rest))
        K.ensure("one data row per remaining position", K.shape(data2) == (len(rest), 1))
        for i, j in enumerate(rest):
            K.ensure(f"remaining row {i} is the constraint value at position {j}", K.cell_eq(K.cell(data2, i, 0), K.cell(col, j)))


def _same_ints(K, items, want):
    items = list(items)
    if len(items) != len(want):
        return False
    return K.And(True, *[K.scalar(a) == b for a, b in zip(items, want)])


# ------------------------------------------------------------------------------ series level: spans, clipping, constraint series
from contracts.c10_series import V, state


def _col_series(K, name, cls, start, pattern, positive=False):
    """single-variant series on [start + first observed, start + last observed] following `pattern` (True = missing)"""
    obs = [j for j, m in enumerate(pattern) if not m]
    col = K.array_pattern(name, pattern)
    if positive:
        for j in obs:
            K.assume(K.cell_val(K.cell(col, j)) > 0)
    if not obs:
        return None, col
    first, last = obs[0], obs[-1]
    data = K.derived_array((last - first + 1, 1), lambda r, c: K.cell(col, first + r))
    return K.obj(Series, start=K.obj(cls, serial=start + first), data=data, data_type=np.float64, metadata={}, __description__=""), col


def _series_instances():
    F = False
    T = True
    out = []
    for cls in (D.QuarterlyPeriod, D.YearlyPeriod):
        out += [(cls, (F, F, F, F), "none", (), (), False), (cls, (F, T, F, F, F), "none", (), (), False)]
    Q = D.QuarterlyPeriod
    out += [(Q, (F, F, T, F), "wider", (), (), False),           # span extends one period beyond the data on both sides
            (Q, (F, F, F, F, F), "inside", (), (), False),        # span strictly inside the data: output clipped only
            (Q, (F, T, F, F, F), "inside", (), (), False),
            (Q, (F, F, F, F, F), "inside_descending", (), (), False),      # the same periods written latest-first: a span only says WHICH periods
            (Q, (F, F, F, F), "none", (2,), (), False), (Q, (F, F, F, F), "none", (), (1,), False), (Q, (F, F, F, F, F), "none", (0,), (0, 3), False),
            (Q, (F, F, F), "level_beyond", (), (), False)]         # a level constraint one period after the data extends the filter span
    return out


@contract("C14", targets=[PH + "hpf", PH + "_data_hpf", PH + "_prepare_constraints", PH + "_remove_first_date_change", PH + "_get_default_smooth",
                          "irispie.dates:get_encompassing_span", "irispie.series.main:Series.iter_own_data_variants_from_until"],
          instances=_series_instances(),
          # log=True at series level is not instantiated: its queries are unstable (13 s alone, timeout under load); log is covered by the array-level contract
          opts={"max_paths": 600})
def hpf_on_series(K, cls, pattern, span_kind, lev, chg, log):
    """hpf(x, span=, smooth=, level=, change=, log=) on series: the filter runs on the span that encompasses the data,
    the requested span and the constraint series; the returned trend (every period of the requested span) and gap
    (observed periods only) satisfy the optimality conditions there; the requested span only clips the output."""
    n = len(pattern)
    F = int(cls.frequency)
    start = K.int("start", 1990 * F, 2030 * F)
    lam = K.real("smooth", positive=True, sample=(0.5, 200))
    x, xcol = _col_series(K, "y", cls, start, pattern, positive=log)
    e0, m, full = start, n, list(pattern)         # filter span [e0, e0+m-1] and its observation pattern
    span = None
    out0, outn = start, n                         # requested span (output) as offset/length in serials
    if span_kind == "wider":
        e0, m, full = start - 1, n + 2, [True] + list(pattern) + [True]
        span = K.call(D.Span, K.obj(cls, serial=start - 1), K.obj(cls, serial=start + n))
        out0, outn = start - 1, n + 2
    elif span_kind == "inside":
        span = K.call(D.Span, K.obj(cls, serial=start + 1), K.obj(cls, serial=start + n - 2))
        out0, outn = start + 1, n - 2
    elif span_kind == "inside_descending":
        span = K.call(D.Span, K.obj(cls, serial=start + n - 2), K.obj(cls, serial=start + 1), -1)
        out0, outn = start + 1, n - 2
    lev, chg = list(lev), list(chg)
    level = change = None
    lvv = chv = []
    if span_kind == "level_beyond":
        e0, m, full = start, n + 1, list(pattern) + [True]
        lev = [n]
    if lev:
        lpat = [j not in lev for j in range(m)]
        level, lcol = _col_series(K, "level", cls, e0, lpat, positive=log)
        lvv = [K.cell_val(K.cell(lcol, j)) for j in lev]
    if chg:
        cpat = [j not in chg for j in range(m)]
        change, ccol = _col_series(K, "change", cls, e0, cpat, positive=log)
    eff_chg = [j for j in chg if j != 0]          # a change constraint at the first period of the filter span has no predecessor
    if chg:
        chv = [K.cell_val(K.cell(ccol, j)) for j in eff_chg]
    kw = dict(smooth=lam, log=log, level=level, change=change)
    if span is not None:
        kw["span"] = span
    trend, gap = K.call(HP.hpf, x, **kw)
    ts, td = state(K, trend)
    gs, gd = state(K, gap)
    K.ensure("trend and gap are single-variant series of the same frequency",
             K.And(K.shape(td)[1] == 1, K.shape(gd)[1] == 1, K.cls_of(K.attr(trend, "start")) is cls, K.cls_of(K.attr(gap, "start")) is cls))
    off = 1 if span_kind == "wider" else 0
    ycells = [(K.cell(xcol, j - off) if 0 <= j - off < n else K.nan_cell()) for j in range(m)]
    if span_kind in ("none", "wider", "level_beyond"):
        # the whole filter span is visible in the output (level_beyond: the output span is the data span, the trend at
        # the extra period is not returned - see below)
        vis = m if span_kind != "level_beyond" else n
        tr = [V(K, ts, td, e0 + j, 0) for j in range(vis)]
        gp = [V(K, gs, gd, e0 + j, 0) for j in range(vis)]
        if span_kind == "level_beyond":
            # the trend value at the constrained extra period is the constraint itself
            tr.append(K.real_cell(lvv[0]))
            gp.append(K.nan_cell())
        optimality_conditions(K, m, full, lev, eff_chg, log, lam, ycells, tr, gp, lvv, chv)
        t = K.int("t", 1989 * F, 2032 * F)
        K.ensure("nothing outside the requested span", K.Implies(K.Or(t < out0, t >= out0 + outn), K.And(K.cell_is_nan(V(K, ts, td, t, 0)), K.cell_is_nan(V(K, gs, gd, t, 0)))))
    else:
        # 'inside': the same call without span (the whole data span) gives the same numbers on the requested span
        kw.pop("span")
        trend2, gap2 = K.call(HP.hpf, x, **kw)
        ts2, td2 = state(K, trend2)
        gs2, gd2 = state(K, gap2)
        for j in range(n):
            inside = 1 <= j <= n - 2
            a, b = V(K, ts, td, start + j, 0), V(K, ts2, td2, start + j, 0)
            g1, g2 = V(K, gs, gd, start + j, 0), V(K, gs2, gd2, start + j, 0)
            if inside:
                K.ensure(f"period {j} inside the span: trend as filtered on the whole data", K.cell_eq(a, b))
                K.ensure(f"period {j} inside the span: gap as filtered on the whole data", K.cell_eq(g1, g2))
            else:
                K.ensure(f"period {j} outside the span is clipped", K.And(K.cell_is_nan(a), K.cell_is_nan(g1)))


# ------------------------------------------------------------------------------ the l1 trend filter
def _difference_rows(order, n):
    return first_differences(n) if order == 1 else second_differences(n)


@contract("C14", targets=[PL + "_first_order_matrix_setup", PL + "_second_order_matrix_setup", PL + "_MATRIX_SETUP_DISPATCH"],
          instances=[(o, n) for o in (1, 2) for n in (3, 4, 5, 7)])
def difference_operator_of_the_given_order(K, order, n):
    """D is the (n-order) x n difference operator of the given order: (D x)_i = +-(x_{i+1} - x_i), resp.
    +-(x_i - 2 x_{i+1} + x_{i+2})."""
    d, Dm = K.call(L1._MATRIX_SETUP_DISPATCH[order], n)
    want = _difference_rows(order, n)
    K.ensure("shape", K.shape(Dm) == (n - order, n))
    # the sign convention of D is immaterial for the filter (only |D trend| enters): either sign, but one sign throughout
    same = K.And(*[K.real_eq(K.cell_val(K.cell(Dm, i, t)), want[i][t]) for i in range(n - order) for t in range(n)])
    flipped = K.And(*[K.real_eq(K.cell_val(K.cell(Dm, i, t)), -want[i][t]) for i in range(n - order) for t in range(n)])
    K.ensure("entries of the difference operator (up to one global sign)", K.Or(same, flipped))


@contract("C14", targets=[PL + "lonf", PL + "_lonf_for_variant", PL + "_first_order_matrix_setup", PL + "_second_order_matrix_setup",
                          "irispie.series.main:Series.iter_own_data_variants_from_until", "irispie.series.main:_from_start_and_values"],
          instances=[(1, 3, 1, 0), (1, 4, 1, 0), (2, 4, 1, 0), (2, 5, 1, 0), (1, 3, 2, 0), (2, 4, 2, 0), (1, 3, 1, 1), (2, 4, 1, 2)], opts={"max_paths": 600})
def lonf_trend_is_the_l1_optimum(K, order, n, nv, margin):
    """lonf(x, order, smooth) for a fully observed series of n periods and nv variants: trend and gap have the span
    and the variants of the input, trend + gap is the data, and the trend satisfies the optimality conditions of
        minimise 1/2 sum (y_t - trend_t)^2 + smooth * sum |(D trend)_i|
    (D the difference operator of the given order): y - trend == D'v for some v with |v_i| <= smooth,
    v_i == smooth where (D trend)_i > 0 and v_i == -smooth where (D trend)_i < 0.  daqp.solve enters through its
    assumed contract; the witness v is the solver's answer."""
    cls = D.QuarterlyPeriod
    lam = K.real("smooth", positive=True, sample=(0.2, 3))
    if margin:
        # the series is longer than the filtered span by `margin` periods on each side: only the span is filtered, and
        # the results are dated by the span, not by the series
        s0 = K.int("start", 8000, 8100)
        full = K.array("y", (n + 2 * margin, nv), nan=False)
        x = K.obj(Series, start=K.obj(cls, serial=s0), data=full, data_type=np.float64, metadata={}, __description__="")
        start = s0 + margin
        y0 = K.snapshot(K.array_view(full, margin, 0)) if K.symbolic else full[margin:, :].copy()
        span = K.call(D.Span, K.obj(cls, serial=start), K.obj(cls, serial=start + n - 1))
        trend, gap = K.call(L1.lonf, x, order, lam, span=span)
    else:
        start = K.int("start", 8000, 8100)
        data = K.array("y", (n, nv), nan=False)
        y0 = K.snapshot(data)
        x = K.obj(Series, start=K.obj(cls, serial=start), data=data, data_type=np.float64, metadata={}, __description__="")
        trend, gap = K.call(L1.lonf, x, order, lam)
    ts, td = state(K, trend)
    gs, gd = state(K, gap)
    K.ensure("trend and gap keep the variants of the input", K.And(K.shape(td)[1] == nv, K.shape(gd)[1] == nv))
    rows = _difference_rows(order, n)
    for c in range(min(nv, K.shape(td)[1] if isinstance(K.shape(td)[1], int) else nv)):
        tr = [V(K, ts, td, start + t, c) for t in range(n)]
        gp = [V(K, gs, gd, start + t, c) for t in range(n)]
        K.ensure(f"variant {c}: trend and gap have a value in every period", K.And(*[K.Not(K.cell_is_nan(v)) for v in tr + gp]))
        tv, gv = [K.cell_val(v) for v in tr], [K.cell_val(v) for v in gp]
        yv = [K.cell_val(K.cell(y0, t, c)) for t in range(n)]
        K.ensure(f"variant {c}: trend + gap == data", K.And(*[K.real_eq(tv[t] + gv[t], yv[t]) for t in range(n)]))
        dt = [sum(r[t] * tv[t] for t in range(n) if r[t]) for r in rows]
        # existence of the dual certificate v: gap == D'v, |v| <= smooth, sign conditions
        if K.symbolic:
            import z3
            v = [z3.Real(f"v!{c}_{i}") for i in range(n - order)]
            cert = z3.And(*[gv[t] == sum(rows[i][t] * v[i] for i in range(n - order) if rows[i][t]) for t in range(n)],
                          *[z3.And(v[i] <= lam, v[i] >= -lam, z3.Implies(dt[i] > 0, v[i] == lam), z3.Implies(dt[i] < 0, v[i] == -lam)) for i in range(n - order)])
            K.ensure(f"variant {c}: the trend satisfies the optimality conditions of the l1 filter of order {order}", z3.Exists(v, cert))
        else:
            # natively: solve D' v = gap for v (D' has full column rank) and test the conditions with a tolerance
            Dm = np.array(rows, dtype=float)
            vv, *_ = np.linalg.lstsq(Dm.T, np.array(gv), rcond=None)
            ok = np.allclose(Dm.T @ vv, gv, atol=1e-6) and np.all(np.abs(vv) <= lam + 1e-6) and all(
                (abs(dt[i]) <= 1e-6) or (dt[i] > 0 and abs(vv[i] - lam) <= 1e-5) or (dt[i] < 0 and abs(vv[i] + lam) <= 1e-5) for i in range(n - order))
            K.ensure(f"variant {c}: the trend satisfies the optimality conditions of the l1 filter of order {order}", bool(ok))
    t = K.int("t", 7990, 8120)
    K.ensure("nothing outside the span of the input", K.Implies(K.Or(t < start, t >= start + n), K.And(K.cell_is_nan(V(K, ts, td, t, 0)), K.cell_is_nan(V(K, gs, gd, t, 0)))))


@contract("C14", targets=[PH + "hpf", PH + "_data_hpf", PH + "_ConstrainedHodrickPrescottFilter._add_eye_for_observations"],
          instances=[(3, ((False,) * 3, (False,) * 3)), (4, ((False,) * 4, (False,) * 4)), (4, ((False, True, False, False), (False,) * 4)), (4, ((False,) * 4, (False, False, True, False))),
                     (5, ((False, True, False, True, False), (False, False, False, True, False)))], opts={"max_paths": 600})
def hpf_filters_every_variant(K, n, patterns):
    """A series with two variants: each variant is filtered on its own - with ITS OWN pattern of missing observations
    (nothing computed for one variant is reused for another) and the same smoothing parameter - and trend and gap keep
    both variants."""
    cls = D.QuarterlyPeriod
    start = K.int("start", 8000, 8100)
    lam = K.real("smooth", positive=True, sample=(0.5, 200))
    data = K.array_cells([[K.nan_cell() if patterns[c][t] else K.real(f"y_{t}_{c}", sample=(-3, 3)) for c in range(2)] for t in range(n)])
    y0 = K.snapshot(data)
    x = K.obj(Series, start=K.obj(cls, serial=start), data=data, data_type=np.float64, metadata={}, __description__="")
    trend, gap = K.call(HP.hpf, x, smooth=lam)
    ts, td = state(K, trend)
    gs, gd = state(K, gap)
    K.ensure("trend and gap keep the variants of the input", K.And(K.shape(td)[1] == 2, K.shape(gd)[1] == 2))
    for c in range(2):
        ycells = [K.cell(y0, t, c) for t in range(n)]
        tr = [V(K, ts, td, start + t, c) for t in range(n)]
        gp = [V(K, gs, gd, start + t, c) for t in range(n)]
        optimality_conditions(K, n, patterns[c], (), (), False, lam, ycells, tr, gp, [], [])


# ------------------------------------------------------------------------------ native replay on longer series (bounded stand-in, NOT a proof)
@bounded("C14", bound="hpf: 40 random series of 6-40 periods (yearly/quarterly/monthly), 1-2 variants, up to 30% interior missing values, 0-2 level and 0-2 change constraints, log on/off, spans inside/equal/wider than the data; lonf: 20 random fully observed series of 5-30 periods, orders 1 and 2, 1-2 variants")
def filters_native(B):
    """The optimality conditions of the contracts, evaluated in floating point on the real hpf / lonf for series far
    longer than the dimensions the contracts fix."""
    import irispie as ir
    rng = B.rng
    for k in range(40):
        B.case()
        cls = rng.choice([D.YearlyPeriod, D.QuarterlyPeriod, D.MonthlyPeriod])
        F = int(cls.frequency)
        n = rng.randint(6, 40)
        nv = rng.randint(1, 2)
        log = rng.random() < 0.3
        start = cls(2000 * F + rng.randint(0, 7))
        vals = np.array([[rng.uniform(1.0, 5.0) for _ in range(nv)] for _ in range(n)])
        for t in range(1, n - 1):
            if rng.random() < 0.3 * (k % 2):
                vals[t, :] = np.nan
        x = Series(start=start, values=vals.copy())
        lam = rng.choice([0.5, 10.0, 1600.0])
        lev = sorted(rng.sample(range(n), rng.randint(0, 2)))
        chg = sorted(rng.sample(range(1, n), rng.randint(0, 2)))
        kw = dict(smooth=lam, log=log)
        lv = {j: rng.uniform(1.0, 5.0) for j in lev}
        cv = {j: (rng.uniform(0.9, 1.1) if log else rng.uniform(-0.5, 0.5)) for j in chg}
        if lev:
            lser = Series(num_variants=1)
            for j, v in lv.items():
                lser[start + j] = v
            kw["level"] = lser
        if chg:
            cser = Series(num_variants=1)
            for j, v in cv.items():
                cser[start + j] = v
            kw["change"] = cser
        E = np.array(constraint_matrix(n, lev, chg), dtype=float).reshape(-1, n)
        if E.shape[0] and np.linalg.matrix_rank(E) < E.shape[0]:
            continue            # dependent constraints (levels at j-1 and j plus a change at j): contradictory or redundant, the problem is not well posed
        try:
            trend, gap = ir.hpf(x, **kw)
        except np.linalg.LinAlgError:
            continue            # a singular system is rejected by the solver, not answered wrongly
        except Exception as ex:
            B.fail(f"hpf: exception {type(ex).__name__}: {ex}", {"n": n, "level": lev, "change": chg, "log": log})
            return
        if E.shape[0]:
            _, sv, vt = np.linalg.svd(E)
            rank = int((sv > 1e-10).sum())
            null = vt[rank:].T
        else:
            null = np.eye(n)
        G = np.array(gram(second_differences(n), n), dtype=float)
        for c in range(nv):
            tr = trend.get_data_from_until((start, start + n - 1))[:, c]
            gp = gap.get_data_from_until((start, start + n - 1))[:, c]
            y = vals[:, c]
            obs = ~np.isnan(y)
            tz, z = (np.log(tr), np.log(np.where(obs, y, 1.0))) if log else (tr, np.where(obs, y, 0.0))
            grad = np.where(obs, tz - z, 0.0) + lam * (G @ tz)
            scale = max(1.0, lam) * max(1.0, np.abs(tz).max())
            bad = None
            if np.isnan(tr).any():
                bad = "trend has missing values"
            elif lev and not np.allclose([tz[j] for j in lev], [np.log(lv[j]) if log else lv[j] for j in lev], atol=1e-8):
                bad = "level constraint not met"
            elif chg and not np.allclose([tz[j] - tz[j - 1] for j in chg], [np.log(cv[j]) if log else cv[j] for j in chg], atol=1e-8):
                bad = "change constraint not met"
            elif not np.all(np.abs(null.T @ grad) <= 1e-7 * scale):
                bad = "gradient of the HP objective does not vanish along the feasible directions"
            elif not np.array_equal(np.isnan(gp), ~obs):
                bad = "gap is not defined exactly where the data are"
            elif not np.allclose((tr * gp if log else tr + gp)[obs], y[obs], rtol=1e-9):
                bad = "trend and gap do not reproduce the data"
            if bad:
                B.fail("hpf: " + bad, {"class": cls.__name__, "n": n, "variant": c, "smooth": lam, "level": lv, "change": cv, "log": log, "data": vals[:, c].tolist()})
                return
    for k in range(20):
        B.case()
        n = rng.randint(5, 30)
        nv = rng.randint(1, 2)
        order = 1 + k % 2
        lam = rng.choice([0.1, 1.0, 5.0])
        vals = np.array([[rng.uniform(-3.0, 3.0) for _ in range(nv)] for _ in range(n)])
        x = Series(start=D.QuarterlyPeriod(8000 + k), values=vals.copy())
        trend, gap = ir.lonf(x, order, lam)
        if trend.data.shape != (n, nv) or gap.data.shape != (n, nv):
            B.fail("lonf: trend/gap do not have the periods and variants of the input", {"n": n, "variants": nv, "trend_shape": list(trend.data.shape)})
            return
        Dm = np.array(_difference_rows(order, n), dtype=float)
        for c in range(nv):
            tr, gp, y = trend.data[:, c], gap.data[:, c], vals[:, c]
            vv, *_ = np.linalg.lstsq(Dm.T, gp, rcond=None)
            dt = Dm @ tr
            ok = np.allclose(tr + gp, y, atol=1e-9) and np.allclose(Dm.T @ vv, gp, atol=1e-6) and np.all(np.abs(vv) <= lam + 1e-5) and all(
                (abs(dt[i]) <= 1e-5) or (dt[i] > 0 and abs(vv[i] - lam) <= 1e-4) or (dt[i] < 0 and abs(vv[i] + lam) <= 1e-4) for i in range(n - order))
            if not ok:
                B.fail("lonf: trend + gap != data or the l1 optimality conditions fail", {"n": n, "order": order, "smooth": lam, "variant": c, "data": y.tolist()})
                return
    return {"exhaustive_within_bound": False}


@contract("C14", targets=[PH + "_ConstrainedHodrickPrescottFilter.filter_data"], instances=[()], canary=True)
def canary_trend_equals_data(K):
    """Deliberately wrong: 'the trend is the data itself' must be refuted with a replayable input (guards against a
    vacuous assumption in the solver contract)."""
    lam = K.real("smooth", positive=True, sample=(0.5, 200))
    y = K.array_pattern("y", (False, False, False))
    hp = K.call(FILT, 3, lam)
    trend, gap = K.call(FILT.filter_data, hp, y)
    K.ensure("WRONG: trend == data", K.real_eq(K.cell_val(K.cell(trend, 1, 0)), K.cell_val(K.cell(y, 1))))
