"""C02 - Jacobians from algorithmic differentiation equal the true derivatives.

Ghost invariant D(a) of an Atom a: a.diff is the derivative of a.value with respect to the seed direction
(with respect to the logarithm for log-variables: diff = _diff * value).  Every forward-mode rule of the real
Atom class is proved to preserve D against the calculus table written here (the oracle); placement maps are
proved to send the derivative w.r.t. occurrence k of equation e to (row(e), column(token))."""
import numpy as np
from fractions import Fraction
from pyvc.prove import contract
from pyvc.bounded import bounded
from irispie.aldi import differentiators as AD
from irispie.aldi import adaptations as AA

PA = "irispie.aldi.differentiators:"
Atom = AD.Atom


def atom(K, name, positive=False, nonzero=False, logly=False):
    """An atom satisfying D: returns (atom, value f, true derivative f').  For a log-variable the stored seed s is
    the derivative w.r.t. log f, so f' = s * f."""
    f = K.real(name, positive=positive, nonzero=nonzero, sample=(0.5, 2.0) if positive else None)
    fp = K.real(name + "_d")
    if logly:
        return K.call(Atom.no_context, f, fp, True), f, fp * f
    return K.call(Atom.no_context, f, fp, False), f, fp


def val(K, a):
    return K.scalar(K.getattr(a, "value"))


def dif(K, a):
    return K.scalar(K.getattr(a, "diff"))


def check(K, label, r, value, diff):
    K.ensure(f"{label}: value", K.real_eq(val(K, r), value))
    K.ensure(f"{label}: diff is the derivative", K.real_eq(dif(K, r), diff))
    K.ensure(f"{label}: result is a plain (non-log) atom", K.attr(r, "_logly") == False)   # noqa: E712


BIN = ["add", "sub", "mul", "truediv", "pow"]


@contract("C02", targets=[PA + "Atom.__add__", PA + "Atom.__sub__", PA + "Atom.__mul__", PA + "Atom.__truediv__", PA + "Atom.__pow__", PA + "Atom._power",
                          PA + "Atom._exponential", PA + "Atom.no_context", PA + "Atom.value", PA + "Atom.diff"],
          instances=[(o, la, lb) for o in BIN for la in (False, True) for lb in (False, True)])
def binary_rule_atom_atom(K, op, la, lb):
    a, f, fp = atom(K, "f", positive=op == "pow", logly=la)
    b, g, gp = atom(K, "g", nonzero=op == "truediv", logly=lb)
    if op == "add":
        check(K, "f+g", K.binop("+", a, b), f + g, fp + gp)
    elif op == "sub":
        check(K, "f-g", K.binop("-", a, b), f - g, fp - gp)
    elif op == "mul":
        check(K, "f*g", K.binop("*", a, b), f * g, fp * g + f * gp)
    elif op == "truediv":
        check(K, "f/g", K.binop("/", a, b), f / g, (fp * g - f * gp) / (g * g))
    else:
        check(K, "f**g", K.binop("**", a, b), K.pow(f, g), g * K.pow(f, g - 1) * fp + K.pow(f, g) * K.log(f) * gp)


@contract("C02", targets=[PA + "Atom.__add__", PA + "Atom.__radd__", PA + "Atom.__sub__", PA + "Atom.__rsub__", PA + "Atom.__mul__", PA + "Atom.__rmul__",
                          PA + "Atom.__truediv__", PA + "Atom.__rtruediv__", PA + "Atom.__pow__", PA + "Atom.__neg__", PA + "Atom.__pos__"], instances=[(False,), (True,)])
def rules_atom_number(K, logly):
    a, f, fp = atom(K, "f", logly=logly)
    c = K.real("c")
    check(K, "f+c", K.binop("+", a, c), f + c, fp)
    check(K, "c+f", K.binop("+", c, a), c + f, fp)
    check(K, "f-c", K.binop("-", a, c), f - c, fp)
    check(K, "c-f", K.binop("-", c, a), c - f, -fp)
    check(K, "f*c", K.binop("*", a, c), f * c, fp * c)
    check(K, "c*f", K.binop("*", c, a), c * f, c * fp)
    check(K, "-f", K.method(a, "__neg__"), -f, -fp)
    p = K.method(a, "__pos__")
    K.ensure("+f", K.And(K.real_eq(val(K, p), f), K.real_eq(dif(K, p), fp)))
    if K.branch(c != 0):
        check(K, "f/c", K.binop("/", a, c), f / c, fp / c)
    if K.branch(f != 0):
        check(K, "c/f", K.binop("/", c, a), c / f, -c * fp / (f * f))
    if K.branch(f > 0):
        check(K, "f**c", K.binop("**", a, c), K.pow(f, c), c * K.pow(f, c - 1) * fp)


@contract("C02", targets=[PA + "Atom.log", PA + "Atom.exp", PA + "Atom.sqrt", PA + "Atom.logistic", "irispie.aldi.adaptations:log", "irispie.aldi.adaptations:exp",
                          "irispie.aldi.adaptations:sqrt", "irispie.aldi.adaptations:logistic"], instances=[(f, l) for f in ("log", "exp", "sqrt", "logistic") for l in (False, True)])
def unary_function_rules(K, fname, logly):
    """Functions offered in equations dispatch (aldi.adaptations) to the Atom method, which applies the chain rule."""
    a, f, fp = atom(K, "f", positive=fname in ("log", "sqrt"), logly=logly)
    r = K.call(getattr(AA, fname), a)
    if fname == "log":
        check(K, "log f", r, K.log(f), fp / f)
    elif fname == "exp":
        check(K, "exp f", r, K.exp(f), K.exp(f) * fp)
    elif fname == "sqrt":
        check(K, "sqrt f", r, K.sqrt(f), fp / (2 * K.sqrt(f)))
    else:
        s = K.expit(f)
        check(K, "logistic f", r, s, s * (1 - s) * fp)


@contract("C02", targets=[PA + "Atom.maximum", "irispie.aldi.adaptations:maximum"], instances=[(k, l) for k in ("number", "atom") for l in (False, True)], opts={"max_paths": 2000})
def maximum_rule(K, floor_kind, logly):
    """max(f, floor) away from the kink f == floor: derivative of the larger argument."""
    a, f, fp = atom(K, "f", logly=logly)
    if floor_kind == "number":
        g = K.real("c")
        gp = 0
        floor = g
    else:
        floor, g, gp = atom(K, "g", logly=logly)
    K.assume(f != g)
    r = K.call(AA.maximum, a, floor)
    K.ensure("max: value", K.real_eq(val(K, r), K.ite(f > g, f, g)))
    K.ensure("max: diff is the derivative of the active argument", K.real_eq(dif(K, r), K.ite(f > g, fp, gp)))


@contract("C02", targets=[PA + "Atom.in_context", PA + "Atom.value", PA + "Atom.diff", PA + "Atom.zero"], instances=[(False,), (True,)])
def context_atom_and_log_variables(K, logly):
    """An atom bound to the data array reads value = data[row, column+offset]; for a log-variable the derivative is
    taken with respect to the logarithm: diff = seed * value."""
    rows = K.int("rows", 1, None, sample=(1, 4))
    cols = K.int("cols", 1, None, sample=(1, 6))
    X = K.array("X", (rows, cols), nan=False)
    r = K.int("r", 0, None, sample=(0, 3))
    c = K.int("c", 0, None, sample=(0, 3))
    off = K.int("off", 0, None, sample=(0, 2))
    K.assume(K.And(r < rows, c + off < cols))
    seed = K.real("seed")
    a = K.call(Atom.in_context, diff=seed, data_index=(r, c), logly=logly)
    K.with_class_attrs(Atom, {"_data_context": X, "_column_offset": off},
                       lambda: (K.ensure("value read from the data array", K.real_eq(val(K, a), K.cell_val(K.cell(X, r, c + off)))),
                                K.ensure("diff w.r.t. the variable (its log for log-variables)",
                                         K.real_eq(dif(K, a), seed * K.cell_val(K.cell(X, r, c + off)) if logly else seed))))
    z = K.call(Atom.zero, (1, 1))
    K.ensure("Atom.zero is the additive neutral atom", K.real_eq(val(K, z), 0))


@contract("C02", targets=[PA + "Atom.__mul__"], instances=[()], canary=True)
def canary_wrong_product_rule(K):
    a, f, fp = atom(K, "f")
    b, g, gp = atom(K, "g")
    r = K.binop("*", a, b)
    K.ensure("WRONG: (fg)' = f'g'", K.real_eq(dif(K, r), fp * gp))


# ------------------------------------------------------------------------------ placement maps (bounded stand-ins, NOT proofs)
@bounded("C02", bound="all equation/wrt shapes with <= 3 equations, <= 3 wrt tokens each over a pool of 4 tokens, all subsets/orders of <= 4 lhs columns (maps.py); stacked-time _populate_map with <= 2 equations, columns_to_eval subsets of {0,1,2}")
def placement_maps_native(B):
    """ArrayMap.static / create_eid_to_rhs_offset / VectorMap.static / stacked-time _populate_map send diff-array cell
    (offset[e]+k, j) to Jacobian cell (row(e) [+ num_eids*j], column(token [shifted by column j])) and nothing else."""
    import itertools
    from irispie.aldi import maps as MP
    from irispie.incidences.main import Token
    from irispie.stacked_time._jacobians import Jacobian as STJ
    pool = [Token(0, 0), Token(0, -1), Token(1, 0), Token(2, 1)]
    wrt_lists = [()] + [c for r in (1, 2, 3) for c in itertools.permutations(pool, r)]
    wrt_lists = wrt_lists[::3]
    for neq in (1, 2, 3):
        for combo in itertools.islice(itertools.product(wrt_lists, repeat=neq), 0, None, 7 if neq == 3 else 1):
            eids = tuple(range(10, 10 + neq))[::-1]
            e2w = dict(zip(eids, combo))
            off = MP.create_eid_to_rhs_offset(eids, e2w)
            want_off, acc = {}, 0
            for e in eids:
                want_off[e] = acc
                acc += len(e2w[e])
            B.case()
            if off != want_off:
                B.fail("create_eid_to_rhs_offset is not the exclusive prefix sum", {"eids": eids, "wrt": combo, "got": off})
                return
            for ncols in (1, 3, 4):
                for lhs_cols in itertools.islice(itertools.permutations(pool, ncols), 0, None, 5):
                    for lco in (0, 2):
                        B.case()
                        am = MP.ArrayMap.static(eids, e2w, list(lhs_cols), off, rhs_column=0, lhs_column_offset=lco)
                        got = sorted(zip(am.lhs[0], am.lhs[1], am.rhs[0], am.rhs[1]))
                        want = sorted((row, lco + lhs_cols.index(t), off[e] + k, 0)
                                      for row, e in enumerate(eids) for k, t in enumerate(e2w[e]) if t in lhs_cols)
                        if got != want:
                            B.fail("ArrayMap.static places a derivative in the wrong cell", {"eids": eids, "wrt": combo, "lhs_cols": lhs_cols, "got": got, "want": want})
                            return
            vm = MP.VectorMap.static(eids)
            if (vm.lhs, vm.rhs) != ((list(range(neq)),), (list(eids),)):
                B.fail("VectorMap.static", {"eids": eids})
                return
    # stacked-time map: three nested loops with the KeyError path for tokens that are not unknowns
    for neq in (1, 2):
        for combo in itertools.product(wrt_lists[:8], repeat=neq):
            eids = list(range(neq))
            e2w = dict(zip(eids, combo))
            if not any(combo):
                continue
            for cols_to_eval in ((0,), (0, 1), (1, 2), (0, 1, 2)):
                for lhs_cols in (tuple(pool), (Token(0, 0), Token(0, 1), Token(1, 1), Token(2, 2), Token(1, 0)), (Token(2, 1),)):
                    B.case()
                    j = STJ.__new__(STJ)
                    j._columns_to_eval = np.array(cols_to_eval, dtype=int)
                    want = sorted((en + neq * jc, lhs_cols.index(t.shifted(int(c))), sum(len(e2w[e]) for e in eids[:en]) + k, jc)
                                  for en, e in enumerate(eids) for k, t in enumerate(e2w[e]) for jc, c in enumerate(cols_to_eval)
                                  if t.shifted(int(c)) in lhs_cols)
                    try:
                        j._populate_map(eids, e2w, list(lhs_cols), None)
                        got = sorted(zip(j._map.lhs[0], j._map.lhs[1], j._map.rhs[0], j._map.rhs[1]))
                    except ValueError:
                        got = []          # zip(*[]) with no entries at all: no unknown occurs in any equation
                    if got != want:
                        B.fail("stacked-time _populate_map places a derivative in the wrong cell", {"wrt": combo, "cols": cols_to_eval, "lhs_cols": lhs_cols, "got": got, "want": want})
                        return


FD_SOURCE = r"""
!transition_variables
    k, c, r
!log_variables
    c
!transition_shocks
    ek, ec
!measurement_variables
    obs_c, obs_k
!measurement_shocks
    wc
!parameters
    al, be
!transition_equations
    k = al*k[-1] + 0.2*k[+1]*c^be + sqrt(r[-2]) + ek;
    log(c) = be*log(c[-1]) + 0.1*maximum(k, 0.3*r) + ec;
    r = 0.5*r[-1] + exp(0.1*k)/c[-1] + 1;
!measurement_equations
    obs_c = 100*(log(c) - log(c[-1])) + wc;
    obs_k = k[-1]*c + r[-2]^2;
"""


@bounded("C02", bound="one nonlinear model (3 transition + 2 measurement equations, leads, lags up to 2, a log-variable, ^, sqrt, exp, maximum, lagged transition variables in measurement equations) at 3 evaluation points")
def systemize_against_finite_differences(B):
    """A, B, D, F, G, J of systemize() equal central finite differences of hand-coded residuals, each placed in the
    row of its equation and the column of its occurrence (w.r.t. the log for the log-variable)."""
    import math
    import irispie as ir
    from irispie.incidences.main import Token
    logs = {"c"}
    tres = (lambda v, p: -v("k", 0) + p["al"] * v("k", -1) + 0.2 * v("k", 1) * v("c", 0) ** p["be"] + math.sqrt(v("r", -2)) + v("ek", 0),
            lambda v, p: -math.log(v("c", 0)) + p["be"] * math.log(v("c", -1)) + 0.1 * max(v("k", 0), 0.3 * v("r", 0)) + v("ec", 0),
            lambda v, p: -v("r", 0) + 0.5 * v("r", -1) + math.exp(0.1 * v("k", 0)) / v("c", -1) + 1)
    mres = (lambda v, p: -v("obs_c", 0) + 100 * (math.log(v("c", 0)) - math.log(v("c", -1))) + v("wc", 0),
            lambda v, p: -v("obs_k", 0) + v("k", -1) * v("c", 0) + v("r", -2) ** 2)
    for point in ({"k": 0.7, "c": 2.0, "r": 1.5}, {"k": 1.9, "c": 0.6, "r": 4.0}, {"k": 0.2, "c": 1.3, "r": 2.5}):
        B.case()
        P = dict(al=0.8, be=0.5)
        L = dict(point, obs_c=0.0, obs_k=1.0, ek=0.0, ec=0.0, wc=0.0)
        m = ir.Simultaneous.from_string(FD_SOURCE, linear=False)
        m.assign(**P)
        m.assign(**{n: v for n, v in L.items() if n[0] not in "ew"})
        system = m.systemize()
        n2q = m.create_name_to_qid()
        vec = m._invariant.dynamic_descriptor.system_vectors
        xi, u, y, w = (list(getattr(vec, a)) for a in ("transition_variables", "transition_shocks", "measurement_variables", "measurement_shocks"))
        exp = {"A": np.zeros((3, len(xi))), "B": np.zeros((3, len(xi))), "D": np.zeros((3, len(u))),
               "F": np.zeros((2, len(y))), "G": np.zeros((2, len(xi))), "J": np.zeros((2, len(w)))}

        def occ(f):
            seen = []

            def v(n, s):
                if (n, s) not in seen:
                    seen.append((n, s))
                return L[n]
            f(v, P)
            return seen

        def deriv(f, o):
            n0, s0 = o
            h = 1e-6 * max(abs(L[n0]), 1)
            mk = lambda d: (lambda n, s: L[n] + (d if (n, s) == o else 0))      # noqa: E731
            d = (f(mk(h), P) - f(mk(-h), P)) / (2 * h)
            return d * L[n0] if n0 in logs else d
        for row, f in enumerate(tres):
            for o in occ(f):
                tok, d = Token(n2q[o[0]], o[1]), deriv(f, o)
                if tok in u:
                    exp["D"][row, u.index(tok)] += d
                elif tok in xi:
                    exp["A"][row, xi.index(tok)] += d
                elif tok.shifted(1) in xi:
                    exp["B"][row, xi.index(tok.shifted(1))] += d
                else:
                    B.fail("occurrence has no column in A or B", {"equation": row, "occurrence": o})
                    return
        for row, f in enumerate(mres):
            for o in occ(f):
                tok, d = Token(n2q[o[0]], o[1]), deriv(f, o)
                if tok in w:
                    exp["J"][row, w.index(tok)] += d
                elif tok in y:
                    exp["F"][row, y.index(tok)] += d
                elif tok in xi:
                    exp["G"][row, xi.index(tok)] += d
                else:
                    B.fail("occurrence in a measurement equation has no column in G", {"equation": row, "occurrence": o})
                    return
        for n in exp:
            act = np.asarray(getattr(system, n))[:exp[n].shape[0], :]
            if act.shape != exp[n].shape or not np.all(np.abs(act - exp[n]) < 1e-5 * np.maximum(1, np.abs(exp[n]))):
                B.fail(f"systemize matrix {n} differs from the true derivatives", {"point": point, "got": act.tolist(), "want": exp[n].tolist()})
                return


@bounded("C02", bound="functions offered in equations without an Atom rule: abs, normal_cdf, normal_pdf, minimum, round-trip through aldi.adaptations")
def unsupported_functions_are_rejected(B):
    """A function offered in equations is either differentiated correctly or rejected: calling the dispatcher of a
    function that has no Atom method on an Atom must raise, never return a number or an Atom with a wrong diff."""
    a = Atom.no_context(2.0, 1.0, False)
    for name in AA._ELEMENTWISE_FUNCTIONS:
        B.case()
        if hasattr(Atom, name):
            continue
        try:
            r = getattr(AA, name)(a)
        except Exception:
            continue
        B.fail(f"{name}(Atom) is neither differentiated by a rule nor rejected", {"function": name, "result": repr(r)})
        return


# ------------------------------------------------------------------------------ two-sided finite differences of user functions
from irispie.aldi import finite_differentiators as FD
PF = "irispie.aldi.finite_differentiators:"
FD_TARGETS = [PF + n for n in ("finite_differentiator", "_calculate_finite_derivatives", "_partial_times_inner", "_partial_two_sided_derivative",
                               "_plus_epsilon", "_get_epsilon", "_collect_arg_values", "_collect_arg_diffs")]


def _step(K, v):
    """the documented step: 1e-6 * max(|v|, 1)"""
    if not K.symbolic:
        return max(abs(v), 1) * 1e-6
    a = K.ite(v >= 0, v, -v)
    return K.ite(a >= 1, a, 1) * K.frac(Fraction(1e-6))      # the double nearest to 1e-6, exactly


@contract("C02", targets=FD_TARGETS, instances=[("generic", False), ("quadratic", False), ("generic", True), ("quadratic", True)], opts={"max_paths": 400})
def user_function_two_sided_differences(K, kind, logly):
    """A user context function f(x, y, c) applied to two expressions (atoms satisfying D) and a plain number:
    value = f(values); diff = sum over the atom arguments of the two-sided difference quotient of f in that argument
    (step 1e-6*max(|v|,1), all other arguments at their values) times the argument's diff.  For a quadratic f the
    quotient IS the partial derivative, so the result satisfies D exactly."""
    a, f, fp = atom(K, "f", positive=logly, logly=logly)          # a log-variable passed straight into the user function: fp is d f / d log f
    b, g, gp = atom(K, "g")
    c = K.real("c", sample=(-3, 3))
    if kind == "quadratic":
        q = [K.real(f"q{i}", sample=(-2, 2)) for i in range(7)]
        U = lambda x, y, z: q[0] * x * x + q[1] * x * y + q[2] * y * y + q[3] * x * z + q[4] * y + q[5] * z * z + q[6]     # noqa: E731
    elif K.symbolic:
        import z3
        Uf = z3.Function("user_f", z3.RealSort(), z3.RealSort(), z3.RealSort(), z3.RealSort())
        U = lambda x, y, z: Uf(*[K.frac(v) if isinstance(v, (int, float)) else v for v in (x, y, z)])     # noqa: E731
    else:
        import math
        U = lambda x, y, z: math.sin(x) * y + math.exp(0.1 * z * x) - y * y * z     # noqa: E731
    wrapped = K.call(FD.finite_differentiator, K.callable(U))
    r = K.call(wrapped, a, b, c)
    ef, eg = _step(K, f), _step(K, g)
    K.ensure("value is f at the argument values", K.real_eq(val(K, r), U(f, g, c)))
    quot = (U(f + ef, g, c) - U(f - ef, g, c)) / (2 * ef) * fp + (U(f, g + eg, c) - U(f, g - eg, c)) / (2 * eg) * gp
    K.ensure("diff is the sum of two-sided difference quotients times the inner derivatives (the plain number contributes nothing)",
             K.real_eq(dif(K, r), quot))
    if kind == "quadratic":
        true = (2 * q[0] * f + q[1] * g + q[3] * c) * fp + (q[1] * f + 2 * q[2] * g + q[4]) * gp
        K.ensure("quadratic user function: diff is the exact derivative", K.real_eq(dif(K, r), true))
    K.ensure("result is a plain (non-log) atom", K.attr(r, "_logly") == False)     # noqa: E712
    K.ensure("the arguments are left untouched", K.And(K.real_eq(val(K, a), f), K.real_eq(val(K, b), g), K.real_eq(dif(K, a), fp), K.real_eq(dif(K, b), gp)))


@contract("C02", targets=[PA + "Atom.__add__", PA + "Atom.__sub__", PA + "Atom.__mul__", PA + "Atom.__truediv__", PA + "Atom.__neg__", PA + "Atom.diff", PA + "Atom.value"],
          instances=[(o,) for o in ("add", "sub", "mul", "truediv", "radd", "rmul", "neg")], opts={"max_paths": 400})
def operators_do_not_modify_their_operands(K, op):
    """Derivative seeds are arrays shared with the differentiation context (one array per variable occurrence, reused
    in every evaluation): an operator must build its result in fresh arrays and leave value and diff of both operands
    as they were - otherwise the first Jacobian evaluation is right and every later one is wrong."""
    n = 2
    xv, xd, yv, yd = (K.array(nm, (n,), nan=False) for nm in ("x", "xd", "y", "yd"))
    snaps = [K.snapshot(v) for v in (xv, xd, yv, yd)]
    for j in range(n):
        K.assume(K.cell_val(K.cell(yv, j)) != 0)
    a = K.call(Atom.no_context, xv, xd, False)
    b = K.call(Atom.no_context, yv, yd, False)
    k = K.real("k", nonzero=True)
    r = {"add": lambda: K.binop("+", a, b), "sub": lambda: K.binop("-", a, b), "mul": lambda: K.binop("*", a, b), "truediv": lambda: K.binop("/", a, b),
         "radd": lambda: K.binop("+", k, a), "rmul": lambda: K.binop("*", k, a), "neg": lambda: K.method(a, "__neg__")}[op]()
    rd = K.getattr(r, "diff")
    x0, xd0, y0, yd0 = snaps           # the state before the operation
    want = {"add": lambda j: cv(K, xd0, j) + cv(K, yd0, j), "sub": lambda j: cv(K, xd0, j) - cv(K, yd0, j),
            "mul": lambda j: cv(K, xd0, j) * cv(K, y0, j) + cv(K, x0, j) * cv(K, yd0, j),
            "truediv": lambda j: (cv(K, xd0, j) * cv(K, y0, j) - cv(K, x0, j) * cv(K, yd0, j)) / (cv(K, y0, j) * cv(K, y0, j)),
            "radd": lambda j: cv(K, xd0, j), "rmul": lambda j: k * cv(K, xd0, j), "neg": lambda j: -cv(K, xd0, j)}[op]
    for j in range(n):
        K.ensure(f"column {j}: diff of the result (computed from the operands as they were)", K.real_eq(K.cell_val(K.cell(rd, j)), want(j)))
    for nm, arr, s0 in zip(("x.value", "x.diff", "y.value", "y.diff"), (xv, xd, yv, yd), snaps):
        K.ensure(f"{nm} is left as it was", K.And(*[K.cell_eq(K.cell(arr, j), K.cell(s0, j)) for j in range(n)]))
    # (x + number reuses x's diff array for the result: sharing is harmless as long as no operator writes in place,
    #  which is what the clauses above establish - so sharing itself is not demanded to be absent)


def cv(K, arr, j):
    return K.cell_val(K.cell(arr, j))


@contract("C02", targets=FD_TARGETS, instances=[(2,), (3,)], opts={"max_paths": 400})
def user_function_differences_on_arrays(K, n):
    """Array-valued evaluation (stacked time evaluates every column at once): the perturbed argument lists must be
    independent copies - the values handed in are not modified and the plus/minus evaluations see different data.
    f is linear, so the element-wise quotient is the exact derivative."""
    xv = K.array("x", (n,), nan=False)
    xd = K.array("xd", (n,), nan=False)
    yv = K.array("y", (n,), nan=False)
    yd = K.array("yd", (n,), nan=False)
    x0, y0 = K.snapshot(xv), K.snapshot(yv)
    a = K.call(Atom.no_context, xv, xd, False)
    b = K.call(Atom.no_context, yv, yd, False)
    c1 = K.real("c1", sample=(-2, 2))
    c2 = K.real("c2", sample=(-2, 2))
    U = K.callable(lambda x, y: K.binop("+", K.binop("*", x, c1), K.binop("*", y, c2)))
    r = K.call(K.call(FD.finite_differentiator, U), a, b)
    rv, rd = K.getattr(r, "value"), K.getattr(r, "diff")
    for j in range(n):
        x_j, y_j = K.cell_val(K.cell(x0, j)), K.cell_val(K.cell(y0, j))
        K.ensure(f"column {j}: value", K.real_eq(K.cell_val(K.cell(rv, j)), c1 * x_j + c2 * y_j))
        K.ensure(f"column {j}: diff is the derivative", K.real_eq(K.cell_val(K.cell(rd, j)), c1 * K.cell_val(K.cell(xd, j)) + c2 * K.cell_val(K.cell(yd, j))))
        K.ensure(f"column {j}: the argument values are not modified", K.And(K.cell_eq(K.cell(xv, j), K.cell(x0, j)), K.cell_eq(K.cell(yv, j), K.cell(y0, j))))


# ------------------------------------------------------------------------------ steady-state Jacobians (levels and changes)
from irispie.steadiers import _jacobian as SJ
from irispie.aldi.maps import ArrayMap


class _DiffContext:
    """harness stand-in for aldi Context: eval_diff_to_array(steady_array, column) returns the stacked derivative rows
    of the equations evaluated at that column - a different array for every column"""

    def __init__(self, table):
        self.table = table

    def eval_diff_to_array(self, steady_array, column_offset):
        return self.table(column_offset)


@contract("C02", targets=["irispie.steadiers._jacobian:NonflatSteadyJacobian.eval", "irispie.steadiers._jacobian:FlatSteadyJacobian.eval",
                          "irispie.jacobians.base:_Jacobian._create_jacobian_matrix", "irispie.jacobians.base:DenseJacobian._initialize_jacobian_matrix"],
          instances=[("nonflat",), ("flat",)], cross=0)
def steady_jacobian_blocks(K, which):
    """The non-flat steady system stacks the equations evaluated at t and at t+k; its unknowns are levels L and
    changes d with x[t+s] = L + s*d.  Given the stacked derivative rows D(col) delivered by the aldi context
    (column 0: seeds 1 = d/dL at t; column 1: seeds `shift`), the Jacobian must be
        [ P(D0(t))      P(D1(t))                 ]
        [ P(D0(t+k))    P(D1(t+k)) + k*P(D0(t+k)) ]
    where P is the placement of derivative rows into (equation, unknown) cells: the second block row holds the
    derivatives of the equations AT t+k (the evaluation point moves with the residual), and d(x[t+k+s])/dd = s + k."""
    import z3
    col = K.int("column", 0, 20)
    k = K.int("k", 1, 5)
    # two equations, two unknowns; equation 0 depends on both, equation 1 on the second only: 3 derivative rows
    lhs = (np.array([0, 0, 1]), np.array([0, 1, 1]))
    rhs = (np.array([0, 1, 2]), np.array([0, 0, 0]))
    ncols = 2 if which == "nonflat" else 1
    if K.symbolic:
        dfun = z3.Function("D", z3.IntSort(), z3.IntSort(), z3.IntSort(), z3.RealSort())
        zi = lambda v: z3.IntVal(v) if isinstance(v, int) else (v.t if hasattr(v, "t") else v)      # noqa: E731
        table = lambda c: K.derived_array((3, ncols), lambda r, j: K.real_cell(dfun(zi(r), zi(j), zi(c))))      # noqa: E731
        Dv = lambda r, j, c: dfun(zi(r), zi(j), zi(c))      # noqa: E731
    else:
        table = lambda c: np.array([[np.sin(1.0 + r + 3 * j + 0.7 * c) for j in range(ncols)] for r in range(3)])      # noqa: E731
        Dv = lambda r, j, c: float(np.sin(1.0 + r + 3 * j + 0.7 * c))      # noqa: E731
    cls = SJ.NonflatSteadyJacobian if which == "nonflat" else SJ.FlatSteadyJacobian
    me = K.obj(cls, _aldi_context=K.obj(_DiffContext, table=K.callable(table)), _map=K.obj(ArrayMap, lhs=lhs, rhs=rhs), _shape=(2, 2),
               NONFLAT_STEADY_SHIFT=k)
    J = K.call(cls.eval, me, None, col)
    place = {(0, 0): 0, (0, 1): 1, (1, 1): 2}        # (equation, unknown) -> derivative row
    if which == "flat":
        K.ensure("shape", K.shape(J) == (2, 2))
        for i in range(2):
            for j in range(2):
                want = Dv(place[(i, j)], 0, col) if (i, j) in place else 0
                K.ensure(f"cell ({i},{j}) is the derivative of equation {i} w.r.t. unknown {j} at the evaluation column", K.real_eq(K.cell_val(K.cell(J, i, j)), want))
        return
    K.ensure("shape: two block rows (t, t+k) by two block columns (levels, changes)", K.shape(J) == (4, 4))
    for blk, c in ((0, col), (1, col + k)):
        for i in range(2):
            for j in range(2):
                d0 = Dv(place[(i, j)], 0, c) if (i, j) in place else 0
                d1 = Dv(place[(i, j)], 1, c) if (i, j) in place else 0
                K.ensure(f"block row {blk}: d equation {i} / d level {j} is taken at its own evaluation column", K.real_eq(K.cell_val(K.cell(J, 2 * blk + i, j)), d0))
                K.ensure(f"block row {blk}: d equation {i} / d change {j} is taken at its own evaluation column (plus k * level derivative at t+k)",
                         K.real_eq(K.cell_val(K.cell(J, 2 * blk + i, 2 + j)), d1 + (k * d0 if blk else 0)))


NONFLAT_SOURCE = r"""
!transition_variables
    x, z
!log_variables
    z
!parameters
    c, g
!transition_equations
    x*x[-1] + 0.1*x[+1]^2 = c + 0.2*z;
    z*z[-1] = g*z[+1]^1.5 + x;
"""


@bounded("C02", bound="one nonlinear non-flat model (2 equations, a log-variable, leads and lags) at 3 level/change points with nonzero changes, plus the zero-change point; central differences of the evaluator's own eval_func")
def nonflat_steady_jacobian_against_finite_differences(B):
    """The steady-state Jacobian returned by the real NonflatSteadyEvaluator.eval_jacob equals central finite
    differences of the residual function it is the Jacobian of (eval_func), in levels and changes, for plain and
    log-variables, at points where the steady changes are not zero."""
    import irispie as ir
    from irispie.steadiers.evaluators import NonflatSteadyEvaluator
    for (Lx, Dx, Lz, Dz) in ((2.0, 0.0, 1.5, 1.0), (2.0, 0.3, 1.5, 1.04), (1.2, -0.2, 0.8, 0.97), (3.0, 0.5, 2.0, 1.1)):
        B.case()
        m = ir.Simultaneous.from_string(NONFLAT_SOURCE, flat=False)
        m.assign(c=5.0, g=0.9, x=(Lx, Dx), z=(Lz, Dz))
        names = m.get_names()
        qids = tuple(names.index(n) for n in ("x", "z"))
        eqs = tuple(m.get_steady_equation_objects())[:2]
        ev = NonflatSteadyEvaluator(qids, qids, eqs, m.get_quantities(), m._variants[0], context=m.get_context(), iter_printer_settings={"every": 10 ** 9})
        guess = np.array(ev.get_init_guess(), dtype=float).flatten() if hasattr(ev, "get_init_guess") else None
        if guess is None:
            B.fail("evaluator offers no initial guess", {})
            return
        J = np.array(ev.eval_jacob(guess), dtype=float)
        fd = np.zeros_like(J)
        for j in range(len(guess)):
            h = 1e-6 * max(abs(guess[j]), 1)
            gp, gm = guess.copy(), guess.copy()
            gp[j] += h
            gm[j] -= h
            fd[:, j] = (np.array(ev.eval_func(gp)).flatten() - np.array(ev.eval_func(gm)).flatten()) / (2 * h)
        if J.shape != fd.shape or not np.all(np.abs(J - fd) < 1e-5 * np.maximum(1, np.abs(fd))):
            B.fail("non-flat steady Jacobian differs from the derivative of the steady residuals", {"levels_changes": [Lx, Dx, Lz, Dz], "eval_jacob": J.tolist(), "finite_differences": fd.round(6).tolist()})
            return


@contract("C02", targets=["irispie.aldi.adaptations:minimum"] + ([PA + "Atom.minimum"] if hasattr(Atom, "minimum") else []), instances=[(False,), (True,)], opts={"max_paths": 2000})
def minimum_is_differentiated_correctly_or_rejected(K, logly):
    """minimum(f, c) offered in equations: either the differentiator has a rule for it and the rule is right (value
    min(f, c), derivative of the active argument), or the call on an expression is rejected with an exception - never
    a wrong value.  (Which of the two holds is decided by whether Atom defines `minimum`.)"""
    a, f, fp = atom(K, "f", logly=logly)
    c = K.real("c")
    K.assume(f != c)
    if hasattr(Atom, "minimum"):
        r = K.call(AA.minimum, a, c)
        K.ensure("min: value", K.real_eq(val(K, r), K.ite(f < c, f, c)))
        K.ensure("min: diff is the derivative of the active argument", K.real_eq(dif(K, r), K.ite(f < c, fp, 0)))
    else:
        K.raises(TypeError, lambda: K.call(AA.minimum, a, c), "no rule for minimum: rejected")


# ------------------------------------------------------------------------------ stacked-time Jacobian with the first-order terminal condition
STACKED_SRC = r"""
!transition_variables
    x, z, w
!transition_shocks
    ex
!parameters
    a, b
!log_variables
    z
!transition_equations
    x = a*x[-1] + b*x[+2] + 0.1*(z[+1] - 1) + ex;
    log(z) = 0.5*log(z[-1]) + 0.2*x - 0.1*w[+1];
    w = 0.4*w[-1] + 0.3*x^2 + 0.1*x;
"""


def _capture_stacked_evaluator(num_periods):
    """the evaluator (eval_func, eval_jacob, init_guess, data) that Simultaneous.simulate(method='stacked_time') hands to
    the Newton solver, captured by wrapping the solver"""
    import io, contextlib
    import irispie as ir
    from irispie.stacked_time import simulators as SS
    m = ir.Simultaneous.from_string(STACKED_SRC)
    m.assign(a=0.3, b=0.2, x=0, z=1, w=0)
    captured = {}
    original = SS._nq.damped_newton

    def capturing(*, eval_func, eval_jacob, init_guess, args, **kwargs):
        captured.update(eval_func=eval_func, eval_jacob=eval_jacob, init_guess=np.copy(init_guess), data=np.copy(args[0]))
        return original(eval_func=eval_func, eval_jacob=eval_jacob, init_guess=init_guess, args=args, **kwargs)
    with contextlib.redirect_stdout(io.StringIO()):
        m.solve()
        start = ir.qq(2020, 1)
        span = start >> (start + num_periods - 1)
        db = m.build_steady_paths(span)
        db["ex"][start] = 0.5
        db["x"][start - 1] = 0.2
        db["w"][start - 1] = -0.1
        db["z"][start - 1] = 1.1
        SS._nq.damped_newton = capturing
        try:
            m.simulate(db, span, method="stacked_time")
        finally:
            SS._nq.damped_newton = original
    return m, captured


@bounded("C02", bound="one nonlinear model with leads of one and two periods and a log-variable, simulated over 3 and 5 periods; Jacobian (terminal-condition correction included) at 2 random points per horizon against central differences of the evaluator's own residual function")
def stacked_time_jacobian_against_finite_differences(B):
    """The stacked-time Jacobian handed to the Newton solver - including the correction for the first-order terminal
    condition (leads beyond the last simulated period are functions of the last simulated state) - equals the derivative
    of the stacked residuals with respect to the unknowns (logs of log-variables)."""
    rng = np.random.default_rng(B.rng.randint(0, 10 ** 6))
    for num_periods in (3, 5):
        m, cap = _capture_stacked_evaluator(num_periods)
        if not cap:
            B.fail("the stacked-time simulator did not call the Newton solver", {"periods": num_periods})
            return
        for _ in range(2):
            B.case()
            guess = cap["init_guess"] + 0.1 * rng.standard_normal(cap["init_guess"].shape)
            J = cap["eval_jacob"](guess, np.copy(cap["data"]))
            J = J.toarray() if hasattr(J, "toarray") else np.asarray(J)
            fd = np.zeros_like(J)
            h = 1e-6
            for i in range(guess.size):
                gp, gm = guess.copy(), guess.copy()
                gp[i] += h
                gm[i] -= h
                fd[:, i] = (np.asarray(cap["eval_func"](gp, np.copy(cap["data"])), dtype=float) - np.asarray(cap["eval_func"](gm, np.copy(cap["data"])), dtype=float)) / (2 * h)
            bad = np.argwhere(np.abs(J - fd) > 1e-6 * np.maximum(1, np.abs(fd)))
            if J.shape != fd.shape or len(bad):
                r, c = (int(bad[0][0]), int(bad[0][1])) if len(bad) else (None, None)
                B.fail("stacked-time Jacobian differs from the derivative of the stacked residuals", {"periods": num_periods, "row": r, "column": c,
                                                                                                         "jacobian": None if r is None else float(J[r, c]), "finite_difference": None if r is None else float(fd[r, c]),
                                                                                                         "mismatching_cells": int(len(bad))})
                return
    return {"exhaustive_within_bound": False}


from irispie.fords import terminators as TM
from irispie.fords import solutions as FSOL


@contract("C02", targets=["irispie.fords.terminators:Terminator.__init__", "irispie.fords.terminators:Terminator.terminate_simulation", "irispie.fords.simulators:get_init_xi"],
          instances=[((5, 6, 7),), ((3, 4),)], cross=0, opts={"max_paths": 200})
def terminal_condition_rows_match_the_terminal_unknowns(K, columns):
    """First-order terminal condition, relative to a GIVEN solution (T, K symbolic): the values of the current-dated
    transition variables j periods after the last simulated period are rows of T^j xi_last + (T^{j-1} + ... + I) K.
    (1) terminate_simulation writes exactly these values (in logs for log-variables) into the terminal columns and
    nothing else; (2) the k-th terminal unknown of the Jacobian, Token(qid, column), is paired - through
    _terminal_column_index[k] - with the row of the stacked [T; T^2; ...] that belongs to THAT variable and THAT column:
    this pairing is what the terminal correction of the Jacobian multiplies with."""
    import irispie as ir
    m = ir.Simultaneous.from_string(STACKED_SRC)
    m.assign(a=0.3, b=0.2, x=0, z=1, w=0)
    m.solve()
    m_v = next(iter(m.iter_variants()))
    eqs = m_v.get_dynamic_equation_objects(kind=ir.equations.TRANSITION_EQUATION) if hasattr(ir, "equations") else None
    from irispie import equations as _EQ
    eqs = m_v.get_dynamic_equation_objects(kind=_EQ.TRANSITION_EQUATION)
    vec = m_v._get_dynamic_solution_vectors()
    nxi = len(vec.transition_variables)
    T = K.array("T", (nxi, nxi), nan=False)
    Kv = K.array("Kvec", (nxi,), nan=False)
    sol = K.obj(FSOL.Solution, **{n: None for n in FSOL.Solution.__slots__})
    K.setattr(sol, "T", T)
    K.setattr(sol, "K", Kv)
    term = K.stubbed(type(m_v)._gets_solution, lambda self, **kw: sol, "the first-order solution is given (C01 is not applicable): symbolic T and K",
                     lambda: K.call(TM.Terminator, K.lift(m_v), tuple(columns), eqs))
    last = columns[-1]
    max_lead = m_v.max_lead
    curr_qids, curr_idx = vec.get_curr_transition_indexes()
    curr_qids, curr_idx = list(curr_qids), list(curr_idx)
    t = lambda i, j: K.cell_val(K.cell(T, i, j))      # noqa: E731
    # powers of T and cumulated constants, computed here
    P = [[[(1 if i == j else 0) for j in range(nxi)] for i in range(nxi)]]
    C = [[0 for _ in range(nxi)]]
    for _ in range(max_lead):
        prev, prevc = P[-1], C[-1]
        P.append([[sum(t(i, k) * prev[k][j] for k in range(nxi)) for j in range(nxi)] for i in range(nxi)])
        C.append([sum(t(i, k) * prevc[k] for k in range(nxi)) + K.cell_val(K.cell(Kv, i)) for i in range(nxi)])
    spots = list(K.items(K.attr(term, "terminal_wrt_spots")))
    index = list(K.items(K.attr(term, "_terminal_column_index")))
    TT = K.attr(term, "_curr_TT")
    K.ensure("one stack row per current-dated variable and lead", K.shape(TT) == (len(curr_qids) * max_lead, nxi))
    K.ensure("as many pairings as terminal unknowns", len(index) == len(spots))
    q2l = m_v.create_qid_to_logly()
    for k, (spot, r) in enumerate(zip(spots, index)):
        qid, col = spot[0], spot[1]
        j = col - last
        K.ensure(f"terminal unknown {k}: a current-dated variable in a terminal column", qid in curr_qids and 1 <= j <= max_lead)
        if qid in curr_qids and 1 <= j <= max_lead:
            row = curr_idx[curr_qids.index(qid)]
            K.ensure(f"terminal unknown {k} = (qid {qid}, last+{j}): paired with row {row} of T^{j}",
                     K.And(*[K.real_eq(K.cell_val(K.cell(TT, r, c)), P[j][row][c]) for c in range(nxi)]))
    # (1) terminate_simulation
    nrows = max(q.id for q in m_v.get_quantities()) + 1
    ncols = last + max_lead + 2
    X = K.array("X", (nrows, ncols), nan=False)
    for q, lg in q2l.items():
        if lg:
            for cc in range(ncols):
                K.assume(K.cell_val(K.cell(X, q, cc)) > 0)
    X0 = K.snapshot(X)
    K.method(term, "terminate_simulation", X)
    tv = list(vec.transition_variables)
    xi_last = [(K.log(K.cell_val(K.cell(X0, tok.qid, last + tok.shift))) if q2l.get(tok.qid) else K.cell_val(K.cell(X0, tok.qid, last + tok.shift))) for tok in tv]
    for j in range(1, max_lead + 1):
        for qid, row in zip(curr_qids, curr_idx):
            val = sum(P[j][row][c] * xi_last[c] for c in range(nxi)) + C[j][row]
            got = K.cell_val(K.cell(X, qid, last + j))
            K.ensure(f"terminal value of qid {qid} at last+{j}", K.real_eq(K.log(got) if q2l.get(qid) else got, val))
    rr, cc = K.int("r", 0, nrows - 1), K.int("c", 0, ncols - 1)
    written = K.Or(*[K.And(rr == q, cc == last + j) for q in curr_qids for j in range(1, max_lead + 1)])
    K.ensure("nothing else is changed (non-log rows exactly; log rows up to exp(log(.)))", K.Or(written, K.cell_eq(K.cell(X, rr, cc), K.cell(X0, rr, cc)), K.Or(*[rr == q for q, lg in q2l.items() if lg])))


@contract("C02", targets=["irispie.fords.terminators:Terminator.terminate_jacobian", "irispie.fords.terminators:Terminator.create_terminal_jacobian_map",
                          "irispie.fords.terminators:_complete_terminal_jacobian_map"], instances=[((5, 6, 7),), ((3, 4),)], cross=0, opts={"max_paths": 200})
def terminal_correction_is_the_chain_rule(K, columns):
    """terminate_jacobian folds the columns of the terminal unknowns into the regular ones by the chain rule: a terminal
    unknown is a function of the state at the last simulated period (row r_k of the stacked powers of T), so
        d f / d x(q, last+s)  +=  sum_k  d f / d terminal_k  *  TT[r_k, position of (q, s) in the transition vector]
    for every regular unknown that is an element of that state, and every other column is left as it was."""
    import irispie as ir
    from irispie import equations as _EQ
    from irispie.incidences.main import Token as _Tok
    m = ir.Simultaneous.from_string(STACKED_SRC)
    m.assign(a=0.3, b=0.2, x=0, z=1, w=0)
    m.solve()
    m_v = next(iter(m.iter_variants()))
    eqs = m_v.get_dynamic_equation_objects(kind=_EQ.TRANSITION_EQUATION)
    vec = m_v._get_dynamic_solution_vectors()
    endo = [q.id for q in m_v.get_quantities(kind=ir.quantities.TRANSITION_VARIABLE)] if hasattr(ir, "quantities") else None
    from irispie import quantities as _Q
    endo = [q.id for q in m_v.get_quantities(kind=_Q.TRANSITION_VARIABLE)]
    wrt_spots = [_Tok(q, c) for c in columns for q in endo]            # regular unknowns: every endogenous variable in every simulated column
    term = TM.Terminator(m_v, tuple(columns), eqs)
    term.create_terminal_jacobian_map(wrt_spots)
    nreg, nterm = len(wrt_spots), len(term.terminal_wrt_spots)
    nrows = 2
    TM._complete_terminal_jacobian_map(term.terminal_jacobian_map, list(range(nrows)))
    term._terminal_jacobian_map_completed = True
    tl = K.lift(term)
    nxi = len(vec.transition_variables)
    TT = K.array("TT", tuple(term._curr_TT.shape), nan=False)
    K.setattr(tl, "_curr_TT", TT)
    J = K.array("J", (nrows, nreg + nterm), nan=False)
    J0 = K.snapshot(J)
    R = K.method(tl, "terminate_jacobian", J)
    K.ensure("shape: the terminal columns are folded away", K.shape(R) == (nrows, nreg))
    last = columns[-1]
    tv = list(vec.transition_variables)
    for r in range(nrows):
        for c, spot in enumerate(wrt_spots):
            pos = next((i for i, tok in enumerate(tv) if tok.qid == spot.qid and last + tok.shift == spot.shift), None)
            base = K.cell_val(K.cell(J0, r, c))
            if pos is None:
                K.ensure(f"row {r}, unknown {tuple(spot)}: not part of the last state - unchanged", K.real_eq(K.cell_val(K.cell(R, r, c)), base))
            else:
                add = sum(K.cell_val(K.cell(J0, r, nreg + k)) * K.cell_val(K.cell(TT, term._terminal_column_index[k], pos)) for k in range(nterm))
                K.ensure(f"row {r}, unknown {tuple(spot)}: element {pos} of the last state - chain rule through every terminal unknown", K.real_eq(K.cell_val(K.cell(R, r, c)), base + add))
    K.ensure("the input Jacobian is not modified", K.And(*[K.cell_eq(K.cell(J, r, c), K.cell(J0, r, c)) for r in range(nrows) for c in range(nreg + nterm)]))


# ------------------------------------------------------------------------------ which unknowns an equation is differentiated with respect to
from irispie.incidences.main import Token as _Token
from irispie.equations import Equation as _Equation
from irispie.period_by_period import _jacobians as PBP


@contract("C02", targets=["irispie.steadiers._jacobian:_SteadyJacobian._create_eid_to_wrts", "irispie.period_by_period._jacobians:Jacobian._create_eid_to_wrts",
                          "irispie.incidences.main:is_qid_in_tokens", "irispie.incidences.main:is_qid_zero_in_tokens"],
          instances=[("steady",), ("period",)], opts={"max_paths": 3000})
def derivative_seeds_cover_every_occurrence(K, which):
    """An equation gets a derivative column for an unknown exactly when the unknown occurs in it: in a steady system at
    ANY time shift (x[-1] and x[+1] are functions of the level and change of x), in a period-by-period system at the
    current date only.  An unknown left out here has a zero column in the Jacobian whatever the equation says."""
    toks = [(K.int(f"q{i}", 0, 3), K.int(f"s{i}", -2, 2)) for i in range(2)]
    eqn = K.obj(_Equation, id=7, incidence=tuple(K.call(_Token, q, s) for q, s in toks))
    other = K.obj(_Equation, id=9, incidence=(_Token(1, -1),))
    wrts = (2, 0, 1)
    if which == "steady":
        out = K.call(SJ._SteadyJacobian._create_eid_to_wrts, None, (eqn, other), wrts)
    else:
        out = K.call(PBP.Jacobian._create_eid_to_wrts, None, (eqn, other), wrts)
    got = tuple(K.items(K.index(out, 7)))
    for w in wrts:
        occurs = K.Or(*[K.And(q == w, True if which == "steady" else s == 0) for q, s in toks])
        K.ensure(f"unknown {w} is differentiated iff it occurs", K.Or(*[g == w for g in got], False) == occurs)
    K.ensure("in the order of the unknowns", all(wrts.index(a) < wrts.index(b) for a, b in zip(got, got[1:])))
    K.ensure("the other equation", tuple(K.items(K.index(out, 9))) == ((1,) if which == "steady" else ()))


# ------------------------------------------------------------------------------ the stacked-time evaluator: what the Jacobian is evaluated AT
from irispie.stacked_time import _evaluators as STE
from irispie import quantities as _Q


class _SeenBy:
    """harness stand-in for the stacked-time Equator / Jacobian: eval(data) returns what the data array holds at the
    moment of the call (so the contract can state at which point the real evaluator hands the data over)"""

    def __init__(self, what):
        self.what = what

    def eval(self, data_array):
        if self.what == "equator":
            return (np.copy(data_array[0, 1:4]), np.copy(data_array[1, 1:4]))
        return np.copy(data_array)


class _Terminal:
    """harness stand-in for the first-order terminator: the terminal cell is a function of the last simulated column"""
    terminal_wrt_spots = (_Token(0, 3),)

    def terminate_simulation(self, data_array):
        data_array[0, 3] = 2 * data_array[0, 2] + 1

    def terminate_jacobian(self, jacobian):
        return ("terminal condition folded in", jacobian)


@contract("C02", targets=["irispie.stacked_time._evaluators:create_evaluator", "irispie.stacked_time._evaluators:_create_update_map",
                          "irispie.quantities:create_qid_to_logly", "irispie.quantities:generate_where_logly"],
          instances=[(f, t) for f in ("eval_jacob", "eval_func", "eval_func_jacob") for t in (True, False)], cross=4, opts={"max_paths": 3000})
def jacobian_and_residuals_are_taken_at_the_guess_passed_in(K, fname, with_terminal):
    """eval_func / eval_jacob / eval_func_jacob(guess, data): the guess is written to its (row, column) spots (exp of
    it for log-variables), THEN the terminal values implied by it are written, THEN residuals and Jacobian are
    evaluated on that array, and the terminal condition is folded into the Jacobian last.  A Jacobian evaluated before
    the terminal values are refreshed is the derivative at some earlier guess."""
    spots = [_Token(0, 1), _Token(1, 1), _Token(0, 2), _Token(1, 2)]
    qs = [_Q.Quantity(id=0, human="x", kind=_Q.QuantityKind.TRANSITION_VARIABLE, logly=False),
          _Q.Quantity(id=1, human="z", kind=_Q.QuantityKind.TRANSITION_VARIABLE, logly=True)]
    term = K.obj(_Terminal) if with_terminal else None
    made = []

    def make(kind):
        def ctor(*a, **k):
            made.append((kind, k.get("terminator", None), a[1] if len(a) > 1 and kind == "jacobian" else None))
            return K.obj(_SeenBy, what=kind)
        return ctor
    ev = K.stubbed(STE.Equator, make("equator"), "the residual evaluator is represented by what it is given (its own contracts are separate)",
                   lambda: K.stubbed(STE.Jacobian, make("jacobian"), "the Jacobian evaluator is represented by what it is given (its own contracts are separate)",
                                     lambda: K.call(STE.create_evaluator, spots, (1, 2), (), qs, term, None)))
    jac = [m for m in made if m[0] == "jacobian"]
    K.ensure("the Jacobian is built for the guess spots followed by the terminal spots, with the terminator",
             len(jac) == 1 and jac[0][1] is term and tuple(jac[0][2]) == tuple(spots) + ((_Token(0, 3),) if with_terminal else ()))
    data = K.array("data", (2, 5), nan=False)
    old = K.snapshot(data)
    g = K.array("g", (4,), nan=False)
    out = K.call(K.attr(ev, fname), g, data)
    gv = [K.cell_val(K.cell(g, i)) for i in range(4)]
    want = {(0, 1): gv[0], (1, 1): K.exp(gv[1]), (0, 2): gv[2], (1, 2): K.exp(gv[3])}
    if with_terminal:
        want[(0, 3)] = 2 * gv[2] + 1

    def expected(r, c):
        return want.get((r, c), K.cell_val(K.cell(old, r, c)))
    if fname == "eval_func":
        res, J = out, None
    elif fname == "eval_jacob":
        res, J = None, out
    else:
        res, J = out
    if res is not None:
        K.ensure("residual vector: equations within a period, periods one after another", K.shape(res) == (6,))
        for c in range(3):
            for r in range(2):
                K.ensure(f"residual of equation {r} in column {c + 1} is evaluated on the updated array",
                         K.real_eq(K.cell_val(K.cell(res, 2 * c + r)), expected(r, c + 1)))
    if J is not None:
        if with_terminal:
            K.ensure("the terminal condition is folded into the Jacobian", isinstance(J, tuple) and J[0] == "terminal condition folded in")
            J = J[1]
        for r in range(2):
            for c in range(5):
                K.ensure(f"the Jacobian sees cell ({r},{c}) of the array updated with THIS guess and its terminal values",
                         K.real_eq(K.cell_val(K.cell(J, r, c)), expected(r, c)))
    for r in range(2):
        for c in range(5):
            K.ensure(f"data array after the call: cell ({r},{c})", K.real_eq(K.cell_val(K.cell(data, r, c)), expected(r, c)))
    K.ensure("the guess vector itself is not modified", K.And(*[K.real_eq(K.cell_val(K.cell(g, i)), gv[i]) for i in range(4)]))


# ------------------------------------------------------------------------------ history: the Jacobian at a point does not depend on where it was asked first
KINK_SRC = r"""
!transition_variables
    x, y
!transition_shocks
    ex
!parameters
    rho, c, ybar
!transition_equations
    x = rho*x[-1] + c*maximum(y[+1], 0) + ex;
    y = 0.5*y[-1] + 0.5*ybar;
"""


@bounded("C02", bound="one model with a lead inside maximum(., 0) (flat while slack), 3 simulated periods, first-order terminal condition; the Jacobian at an active point after a first evaluation at a slack point, and in the reverse order, against central differences")
def jacobian_does_not_remember_the_first_evaluation_point_native(B):
    """State between calls: the terminal-condition correction completes its placement map at the first evaluation.  Where a
    derivative with respect to a terminal unknown happens to be exactly zero at that first point, its place must still be
    there at later points."""
    import io, contextlib
    import irispie as ir
    from irispie.stacked_time import simulators as SS

    class _Stop(Exception):
        pass

    def fresh():
        m = ir.Simultaneous.from_string(KINK_SRC)
        m.assign(rho=0.5, c=0.4, ybar=-1.0, x=0.0, y=-1.0)
        cap = {}
        original = SS._nq.damped_newton

        def capturing(*, eval_func, eval_jacob, init_guess, args, **kwargs):
            cap.update(eval_func=eval_func, eval_jacob=eval_jacob, init_guess=np.copy(init_guess), data=np.copy(args[0]))
            raise _Stop()            # before the solver evaluates anything: the evaluator is still unused
        with contextlib.redirect_stdout(io.StringIO()):
            m.solve()
            start = ir.qq(2020, 1)
            span = start >> (start + 2)
            db = m.build_steady_paths(span)
            SS._nq.damped_newton = capturing
            try:
                m.simulate(db, span, method="stacked_time")
            except Exception:
                pass
            finally:
                SS._nq.damped_newton = original
        return cap
    for order in (("slack", "active"), ("active", "slack")):
        cap = fresh()
        if not cap:
            B.fail("the stacked-time simulator did not reach the Newton solver", {})
            return
        g0 = cap["init_guess"]
        points = {"slack": g0.copy(), "active": g0 + 3.0}          # y = -1: maximum flat everywhere  /  y = 2, so also y(T+1) = 0.5*2 - 0.5 > 0: active in the terminal period
        for which in order:
            B.case()
            guess = points[which]
            J = cap["eval_jacob"](guess, np.copy(cap["data"]))
            J = J.toarray() if hasattr(J, "toarray") else np.asarray(J)
            fd = np.zeros_like(J)
            h = 1e-6
            for i in range(guess.size):
                gp, gm = guess.copy(), guess.copy()
                gp[i] += h
                gm[i] -= h
                fd[:, i] = (np.asarray(cap["eval_func"](gp, np.copy(cap["data"])), dtype=float) - np.asarray(cap["eval_func"](gm, np.copy(cap["data"])), dtype=float)) / (2 * h)
            bad = np.argwhere(np.abs(J - fd) > 1e-6 * np.maximum(1, np.abs(fd)))
            if len(bad):
                r, c = int(bad[0][0]), int(bad[0][1])
                B.fail("the Jacobian depends on where it was evaluated first", {"order": order, "at": which, "row": r, "column": c, "jacobian": float(J[r, c]), "finite_difference": float(fd[r, c])})
                return
    return {"exhaustive_within_bound": True}


# ------------------------------------------------------------------------------ A and B of the unsolved system: every occurrence in exactly one of them
LAGS_SRC = r"""
!transition_variables
    x, z
!transition_shocks
    ex
!parameters
    a
!transition_equations
    x = a*x[-1] + 0.2*z[-2] + 0.1*z[-1] + x[+1]/4 + ex;
    z = 0.5*z[-1] + x[-3];
"""


@contract("C02", targets=["irispie.fords.descriptors:SystemMap.__init__", "irispie.aldi.maps:ArrayMap.static", "irispie.aldi.maps:ArrayMap.remove_nones",
                          "irispie.aldi.maps:create_eid_to_rhs_offset"], instances=[("deep lags",), ("leads and a log-variable",)], cross=0, opts={"max_paths": 400})
def every_occurrence_has_one_cell_in_A_or_B(K, which):
    """Unsolved system  A xi(t) + B xi(t-1) + ... = 0  with xi the vector of transition variables at the shifts the model
    needs: the derivative with respect to an occurrence x[s] in a transition equation is placed in A at the column of x[s] when
    x[s] is an element of xi, and otherwise in B at the column of x[s+1] (whose one-period lag it is) - in exactly ONE of the two,
    also for the intermediate lags of a variable that occurs with a deeper lag."""
    import irispie as ir
    from irispie.fords import descriptors as DSC
    m = ir.Simultaneous.from_string({"deep lags": LAGS_SRC, "leads and a log-variable": STACKED_SRC}[which])
    vecs = m._invariant.dynamic_descriptor.system_vectors
    sm = K.call(DSC.SystemMap, K.lift(vecs))
    xi = list(vecs.transition_variables)
    rows = {e: i for i, e in enumerate(vecs.transition_eids)}
    offset, acc = {}, 0
    for e in list(vecs.transition_eids) + list(vecs.measurement_eids):
        offset[e] = acc
        acc += len(vecs.eid_to_wrt_tokens[e])

    def cells(mp):
        lhs, rhs = K.attr(mp, "lhs"), K.attr(mp, "rhs")
        return sorted(zip([int(v) for v in K.items(lhs[0])], [int(v) for v in K.items(lhs[1])], [int(v) for v in K.items(rhs[0])]))
    A, B = cells(K.attr(sm, "A")), cells(K.attr(sm, "B"))
    want_A, want_B = [], []
    for e in vecs.transition_eids:
        for k, tok in enumerate(vecs.eid_to_wrt_tokens[e]):
            if tok in xi:
                want_A.append((rows[e], xi.index(tok), offset[e] + k))
            elif tok.shifted(+1) in xi:
                want_B.append((rows[e], xi.index(tok.shifted(+1)), offset[e] + k))
    K.ensure("A holds the occurrences that are elements of the vector", A == sorted(want_A))
    K.ensure("B holds the others, at the column of the element they are the lag of", B == sorted(want_B))
    K.ensure("no occurrence is in both", not (set((r, d) for r, _, d in A) & set((r, d) for r, _, d in B)))


# ------------------------------------------------------------------------------ the vector of the unsolved system and its dynamic identities (bounded stand-in, NOT a proof)
@bounded("C02", bound="sets of occurrences of two transition variables with shifts in -3..2 (the current date plus up to 2 other shifts each; every set for the first variable, every second for the other) in transition equations, with every single occurrence (shift <= 0) of either variable in a measurement equation")
def system_vector_and_dynamic_identities_native(B):
    """The columns of A/B/G: for every transition variable the shifts min(deepest lag, -1)+1 .. largest lead, each once
    (so that every occurrence is an element of the vector or the one-period lag of an element); an occurrence x[s] in a
    measurement equation is itself an element (the vector is extended by pretending x[s-1] occurs); the dynamic identities
    tie element (q, s) of the vector at t+1 to element (q, s+1) at t, one row per element that is not the largest lead of
    its variable.  Sets of tokens with symbolic fields are outside the engine; this enumerates them."""
    import itertools
    from types import SimpleNamespace
    from irispie.fords import descriptors as DSC
    from irispie.incidences.main import Token, sort_tokens
    from irispie.equations import EquationKind
    from irispie.quantities import QuantityKind
    shifts = range(-3, 3)
    # precondition taken from the call site: SystemVectors adds the zero-shift token of EVERY quantity to the tokens of the equations
    choices = [c for r in (1, 2, 3) for c in itertools.combinations(shifts, r) if 0 in c]
    kinds = {0: QuantityKind.TRANSITION_VARIABLE, 1: QuantityKind.TRANSITION_VARIABLE, 2: QuantityKind.MEASUREMENT_VARIABLE}
    for c0 in choices:
        for c1 in choices[::2]:
            trans = {Token(0, s) for s in c0} | {Token(1, s) for s in c1}
            for meas in [None] + [Token(q, s) for q in (0, 1) for s in (-2, -1, 0)]:
                B.case()
                eqs = [SimpleNamespace(kind=EquationKind.TRANSITION_EQUATION, incidence=tuple(trans))]
                if meas is not None:
                    eqs.append(SimpleNamespace(kind=EquationKind.MEASUREMENT_EQUATION, incidence=(meas, Token(2, 0))))
                adjusted = DSC._adjust_for_measurement_equations(set(trans), eqs, kinds)
                want_adj = set(trans) | ({Token(meas.qid, meas.shift - 1)} if meas is not None else set())
                if set(adjusted) != want_adj:
                    B.fail("the adjustment for measurement equations does not add exactly x[s-1] for an occurrence x[s]", {"transition": sorted(trans), "measurement": meas, "got": sorted(adjusted)})
                    return
                vec = list(sort_tokens(DSC._create_system_transition_vector(adjusted)))
                want = []
                for q in (0, 1):
                    ss = [t.shift for t in want_adj if t.qid == q]
                    want += [Token(q, s) for s in range(min(min(ss), -1) + 1, max(ss) + 1)]
                if sorted(vec) != sorted(want) or len(set(vec)) != len(vec):
                    B.fail("the system vector is not 'every shift from min(deepest lag, -1)+1 to the largest lead, once'", {"occurrences": sorted(want_adj), "got": vec, "want": sorted(want)})
                    return
                if vec != sorted(vec, key=lambda t: (-t.shift, t.qid)):
                    B.fail("the system vector is not ordered by descending shift, then variable", {"got": vec})
                    return
                for t in list(trans) + ([meas] if meas is not None else []):
                    if not (t in vec or t.shifted(+1) in vec):
                        B.fail("an occurrence is neither an element of the vector nor the lag of one (no column in A or B)", {"occurrence": t, "vector": vec})
                        return
                if meas is not None and meas not in vec:
                    B.fail("an occurrence in a measurement equation is not an element of the vector (no column in G)", {"occurrence": meas, "vector": vec})
                    return
                dA, dB = DSC._create_dynid_matrices(vec)
                mx = {q: max(t.shift for t in vec if t.qid == q) for q in {t.qid for t in vec}}
                pairs = [(i, vec.index(t.shifted(+1))) for i, t in enumerate(vec) if t.shift != mx[t.qid]]
                wA, wB = np.zeros((len(pairs), len(vec))), np.zeros((len(pairs), len(vec)))
                for r, (i, j) in enumerate(pairs):
                    wA[r, i], wB[r, j] = 1, -1
                if dA.shape != wA.shape or not (np.array_equal(dA, wA) and np.array_equal(dB, wB)):
                    B.fail("the dynamic identities do not tie (q, s) at t+1 to (q, s+1) at t, one row per element below the largest lead", {"vector": vec})
                    return
    return {"exhaustive_within_bound": False}
