"""C04 - model source text is translated to equations without changing their meaning.

What a contract can decide here: for a given equation text, the code string that irispie generates (the
xtring evaluated by the equators) denotes, on ARBITRARY data, rhs minus lhs of the equation as written.  The
generated string is evaluated symbolically on a symbolic data array and compared with an independent
tree-walking reader of the source text (which implements the documented meaning of time shifts, ^ and the
pseudofunctions); the equality is an SMT obligation over all data.  The set of equation texts is a finite
sample of the language (bounded syntactic scope, stated in the evidence); regular-expression tokenisation and
the preparser over all source strings are outside any contract a solver here can discharge and are covered
by bounded metamorphic stand-ins only."""
import ast
import re
import numpy as np
from pyvc.prove import contract
from pyvc.bounded import bounded
import irispie as ir
from irispie.parsers import _pseudofunctions as PF
from irispie.parsers import _shifts as SH
from irispie import equations as EQ
from irispie import makers as MK

PPF = "irispie.parsers._pseudofunctions:"
PEQ = "irispie.equations:"
NAMES = ("x", "xx", "x1", "y", "z", "a", "b")


# ------------------------------------------------------------------------------ independent reader of equation text
def read_expr(K, text, value, shift0=0):
    """Meaning of an expression of the model language at base shift `shift0`: value(name, shift) supplies data."""
    text = re.sub(r"\{\s*([\s\+\-\d]+)\}", r"[\1]", text).replace("^", "**")
    tree = ast.parse(text.strip(), mode="eval").body

    def const_int(n):
        return int(ast.literal_eval(ast.unparse(n).replace(" ", "")))

    def ev(n, sh):
        if isinstance(n, ast.Constant):
            return n.value
        if isinstance(n, ast.Name):
            return value(n.id, sh)
        if isinstance(n, ast.Subscript) and isinstance(n.value, ast.Name):
            return value(n.value.id, sh + const_int(n.slice))
        if isinstance(n, ast.UnaryOp):
            v = ev(n.operand, sh)
            return -v if isinstance(n.op, ast.USub) else v
        if isinstance(n, ast.BinOp):
            a, b = ev(n.left, sh), ev(n.right, sh)
            if isinstance(n.op, ast.Add):
                return a + b
            if isinstance(n.op, ast.Sub):
                return a - b
            if isinstance(n.op, ast.Mult):
                return a * b
            if isinstance(n.op, ast.Div):
                return a / b
            if isinstance(n.op, ast.Pow):
                return K.pow(a, b)
        if isinstance(n, ast.Call) and isinstance(n.func, ast.Name):
            f = n.func.id
            if f in ("log", "exp", "sqrt"):
                return getattr(K, f)(ev(n.args[0], sh))
            default = {"shift": -1, "diff": -1, "diff_log": -1, "difflog": -1, "pct": -1, "roc": -1, "mov_sum": -4, "movsum": -4,
                       "mov_avg": -4, "movavg": -4, "mov_prod": -4, "movprod": -4}
            if f in default:
                s = const_int(n.args[1]) if len(n.args) > 1 else default[f]
                e = n.args[0]
                if f == "shift":
                    return ev(e, sh + s)
                if f == "diff":
                    return ev(e, sh) - ev(e, sh + s)
                if f in ("diff_log", "difflog"):
                    return K.log(ev(e, sh)) - K.log(ev(e, sh + s))
                if f == "pct":
                    return 100 * ev(e, sh) / ev(e, sh + s) - 100
                if f == "roc":
                    return ev(e, sh) / ev(e, sh + s)
                window = [sh + k for k in (range(0, s, 1) if s > 0 else range(0, s, -1))] if abs(s) > 1 else ([sh] if s else [])
                terms = [ev(e, k) for k in window]
                if f in ("mov_sum", "movsum"):
                    return sum(terms) if terms else 0
                if f in ("mov_avg", "movavg"):
                    return sum(terms) / len(terms) if terms else 0
                acc = 1
                for v in terms:
                    acc = acc * v
                return acc if terms else 0
        raise ValueError(f"reader: unsupported syntax {ast.dump(n)[:80]}")
    return ev(tree, shift0)


def read_equation(K, text, value):
    """rhs minus lhs of `lhs = rhs` (also := and ===)."""
    text = text.replace(":=", "=").replace("===", "=")
    lhs, rhs = text.split("=", 1)
    return read_expr(K, rhs, value) - read_expr(K, lhs, value)


def data_and_value(K, name_to_qid):
    rows = max(name_to_qid.values()) + 1
    cols = K.int("cols", 20, None, sample=(20, 24))
    t = K.int("t", 8, None, sample=(8, 11))
    K.assume(t < cols - 8)
    X = K.array("X", (rows, cols), nan=False)
    return X, t, (lambda name, sh: K.cell_val(K.cell(X, name_to_qid[name], t + sh)))


def positive_where_needed(K, X, t, name_to_qid, text):
    """Domain preconditions: logs / roots / non-integer powers need positive operands; divisions non-zero."""
    for n in name_to_qid:
        if re.search(rf"\b{n}\b", text):
            for sh in range(-8, 9):
                K.assume(K.cell_val(K.cell(X, name_to_qid[n], t + sh)) > 0)


EQUATIONS = [
    "x = a*x[-1] + b*y{+1} - z",
    "x = -(y - z)*a/b + 2.5",
    "xx = x1^2 + x^a - xx[-2]",
    "log(x) = a*log(x{-1}) + exp(-y) + sqrt(z[+2])",
    "y := x + xx + x1",
    "diff(x) = a*diff(y, -2) + z",
    "diff_log(x) = difflog(y) - roc(z, -3)",
    "pct(x) = pct(y{-1}, -4) + shift(z, -2) + shift(z[+1])",
    "x = mov_sum(y) + mov_avg(z, -3) + movprod(xx, -2)",
    "x = mov_sum(y, 3) + mov_avg(z, 2) + mov_sum(y, -1) + mov_avg(z, 1)",
    "x = diff((y+z)*a) + roc(a*y[-1]+(b*z{+1}), -2)",
    "x = movsum(x1 + xx[-1], -2) - diff_log(x1*(xx+1))",
]
N2Q = {n: i for i, n in enumerate(NAMES)}


@contract("C04", targets=[PEQ + "xtring_from_human", PEQ + "_postprocess_xtring", PEQ + "_resolve_shift_str", "irispie.incidences.main:Token.print_xtring",
                          PPF + "resolve_pseudofunctions", PPF + "_expand_pseudofunction", PPF + "_resolve_shift", PPF + "_shift_all_names",
                          PPF + "_pseudo_diff", PPF + "_pseudo_diff_log", PPF + "_pseudo_pct", PPF + "_pseudo_roc", PPF + "_pseudo_shift", PPF + "_pseudo_mov",
                          PPF + "_pseudo_mov_sum", PPF + "_pseudo_mov_avg", PPF + "_pseudo_mov_prod", "irispie.parsers._shifts:standardize_time_shifts"],
          instances=[(i,) for i in range(len(EQUATIONS))], opts={"max_paths": 400})
def generated_code_means_rhs_minus_lhs(K, i):
    """standardize_time_shifts -> resolve_pseudofunctions -> xtring_from_human: the generated code string, evaluated
    on arbitrary data, equals rhs minus lhs of the equation as written (independent reader)."""
    src = EQUATIONS[i]
    human = K.call(PF.resolve_pseudofunctions, K.call(SH.standardize_time_shifts, src))
    xtring, tokens, _ = K.call(EQ.xtring_from_human, human, N2Q)
    X, t, value = data_and_value(K, N2Q)
    positive_where_needed(K, X, t, N2Q, src)
    got = K.eval_expr(xtring, {"x": X, "t": t}, MK._prepare_globals(None))
    want = read_equation(K, src, value)
    K.ensure("generated code == rhs - lhs of the equation as written, for all data", K.real_eq(got, want))
    occ = {(m.group(1)) for m in re.finditer(r"\b([a-z]\w*)\b(?!\()", re.sub(r"\b(log|exp|sqrt|diff|diff_log|difflog|pct|roc|shift|mov_sum|mov_avg|movsum|movavg|movprod|mov_prod)\b", "", src))}
    K.ensure("incidence tokens mention exactly the names of the equation", {NAMES[tok.qid] for tok in tokens} == occ)


@contract("C04", targets=[PPF + "_shift_all_names"], instances=[(c, by) for c in ("x+xx[-1]*x1{+2}", "log(x)-exp(xx[+1])+a", "(y+z)*a", "x[-1]/x") for by in (-3, -1, 0, 2)])
def shifting_all_names(K, code, by):
    """_shift_all_names(code, by) denotes code evaluated `by` periods later/earlier; function names and names that are
    prefixes of each other are handled per whole word."""
    std = K.call(SH.standardize_time_shifts, code)
    shifted = K.call(PF._shift_all_names, std, by)
    X, t, value = data_and_value(K, N2Q)
    positive_where_needed(K, X, t, N2Q, code)
    K.ensure("meaning of the shifted text == meaning of the text at t+by", K.real_eq(read_expr(K, shifted, value), read_expr(K, code, value, by)))


STEADY_SRC = "!transition_variables\n x, y\n!parameters\n a\n!transition_equations\n x = a*x[-1] + diff(y) !! x = a*x;\n y = 0.5*y{-1} + x^2;\n"


@contract("C04", targets=[PEQ + "xtring_from_human"], instances=[(k, i) for k in ("dynamic", "steady") for i in (0, 1)], cross=4)
def model_equations_evaluate_as_written(K, which, i):
    """Through the whole real pipeline (Simultaneous.from_string, run natively): each dynamic and steady equation's
    generated code equals rhs minus lhs of the corresponding variant (before / after !!) for all data."""
    m = ir.Simultaneous.from_string(STEADY_SRC)
    eqs = m._invariant.dynamic_equations if which == "dynamic" else m._invariant.steady_equations
    written = [("x = a*x[-1] + diff(y)", "x = a*x"), ("y = 0.5*y{-1} + x^2", "y = 0.5*y{-1} + x^2")][i][0 if which == "dynamic" else 1]
    n2q = m.create_name_to_qid()
    X, t, value = data_and_value(K, n2q)
    got = K.eval_expr(eqs[i].xtring, {"x": X, "t": t}, MK._prepare_globals(None))
    K.ensure(f"{which} equation {i} == rhs - lhs as written", K.real_eq(got, read_equation(K, written, value)))


@contract("C04", targets=[PPF + "_pseudo_diff"], instances=[()], canary=True)
def canary_diff_sign(K):
    human = K.call(PF.resolve_pseudofunctions, "diff(x)")
    X, t, value = data_and_value(K, N2Q)
    K.ensure("WRONG: diff(x) == x[-1] - x", K.real_eq(read_expr(K, human, value), value("x", -1) - value("x", 0)))


# ------------------------------------------------------------------------------ bounded metamorphic stand-ins (NOT proofs)
CANON = r"""
!transition-variables
    "Output" y, "Consumption" c
    "Capital" k
!parameters
    alpha, beta
!exogenous-variables
    z
!log-variables
    y, k
!transition-equations
    "Output equation" y = alpha*y[-1] + (1-alpha)*k[-1] + z;
    c = beta*y - 0.5*diff(c) !! c = beta*y;
    k = 0.9*k[-1] + y - c;
"""

VARIANTS = {
    "comments and continuation": r"""
% Small test model
!transition-variables
    "Output" y, "Consumption" c     % line comment
    "Capital" k                     # another
!parameters
    alpha, beta
!exogenous-variables
    z
#{ first block comment #}
!log-variables
    y, k
#{ second block comment #}
!transition-equations
    "Output equation" y = alpha*y{-1} + ...  rest ignored
        (1-alpha)*k[-1] + z;
    %{ block %}
    c = beta*y - 0.5*diff(c) !! c = beta*y;
    %{ block two %}
    k = 0.9*k{-1} + y - c;    % the end
""",
    "aliases, curly shifts, all-but": r"""
!transition_variables
    "Output" y, "Consumption" c, "Capital" k
!parameters
    alpha beta
!exogenous_variables
    z
!log_variables !all_but
    c, z
!transition_equations
    "Output equation" y = alpha*y{-1} + (1-alpha)*k{-1} + z;
    c = beta*y - 0.5*diff(c, -1) !! c = beta*y;
    k = 0.9*k{-1} + y - c;
""",
    "every block written in two parts": r"""
!transition-variables
    "Output" y
!parameters
    alpha
!transition-equations
    "Output equation" y = alpha*y[-1] + (1-alpha)*k[-1] + z;
!transition-variables
    "Consumption" c, "Capital" k
!exogenous-variables
    z
!parameters
    beta
!log-variables
    y
!transition-equations
    c = beta*y - 0.5*diff(c) !! c = beta*y;
    k = 0.9*k[-1] + y - c;
!log-variables
    k
""",
    "substitutions and for loop": r"""
!transition-variables
    "Output" y, "Consumption" c
    "Capital" k
!parameters
    alpha, beta
!exogenous-variables
    z
!log-variables
    !for ?n = y, k !do
        ?n
    !end
!substitutions
    share := (1-alpha);
!transition-equations
    "Output equation" y = alpha*y[-1] + $share$*k[-1] + z;
    c = beta*y - 0.5*(c-c[-1]) !! c = beta*y;
    k = 0.9*k[-1] + y - c;
""",
}


def _model_signature(m, rng_seed=0):
    inv = m._invariant
    q = [(x.human, x.kind, x.description or "", x.logly) for x in sorted(inv.quantities, key=lambda x: x.human)]
    rng = np.random.default_rng(rng_seed)
    n2q = m.create_name_to_qid()
    names = sorted(n2q)
    base = {n: rng.uniform(0.5, 2.0, size=12) for n in names}
    data = np.zeros((max(n2q.values()) + 1, 12))
    for n in names:
        data[n2q[n], :] = base[n]
    ctx = MK._prepare_globals(None)
    vals = []
    for eqs in (inv.dynamic_equations, inv.steady_equations):
        for e in eqs:
            vals.append(float(eval(e.xtring, dict(ctx), {"x": data, "t": 6})))
    return q, [e.description or "" for e in inv.dynamic_equations], vals


@bounded("C04", bound="one canonical model against 3 rewritings using comments (line, two block comments of each marker), line continuation, keyword aliases, curly/square shifts, explicit pseudofunction shifts, !all-but, !for, !substitutions")
def equivalent_sources_give_the_same_model_native(B):
    """Source variations that do not change meaning do not change the model (names, kinds, descriptions, log status,
    equation descriptions, and the value of every dynamic and steady equation on random data)."""
    ref = _model_signature(ir.Simultaneous.from_string(CANON))
    expected_q = [("alpha", "PARAMETER"), ("beta", "PARAMETER"), ("c", "TRANSITION_VARIABLE"), ("k", "TRANSITION_VARIABLE"), ("y", "TRANSITION_VARIABLE"), ("z", "EXOGENOUS_VARIABLE")]
    B.case()
    if [(h, k.name) for h, k, d, l in ref[0] if not h.startswith(("std_", "ant_"))] != expected_q or {h: l for h, k, d, l in ref[0]}["y"] is not True or {h: l for h, k, d, l in ref[0]}["c"] is not False:
        B.fail("canonical model does not expose the declared names/kinds/log status", {"got": [(h, k.name, l) for h, k, d, l in ref[0]]})
        return
    for label, src in VARIANTS.items():
        B.case()
        try:
            sig = _model_signature(ir.Simultaneous.from_string(src))
        except Exception as ex:
            B.fail(f"{label}: exception {type(ex).__name__}: {ex}", {"variant": label})
            return
        if sig[0] != ref[0]:
            B.fail(f"{label}: names/kinds/descriptions/log status differ", {"variant": label, "got": [(h, k.name, d, l) for h, k, d, l in sig[0]], "want": [(h, k.name, d, l) for h, k, d, l in ref[0]]})
            return
        if sig[1] != ref[1] or len(sig[2]) != len(ref[2]) or not np.allclose(sig[2], ref[2]):
            B.fail(f"{label}: equations differ in value", {"variant": label, "got": sig[2], "want": ref[2]})
            return


@bounded("C04", bound="log-status declarations: none, explicit, !all-but with 0/1/2 exceptions, aliases, block before/after declarations (8 spellings)")
def log_status_declarations_native(B):
    decl = "!transition-variables\n y, c, k\n!exogenous-variables\n z\n!parameters\n a\n!transition-equations\n y = z*k{-1}^a;\n c = a*y;\n k = 0.9*k[-1] + y - c;\n"
    ALL = {"y", "c", "k", "z"}
    for label, block, first, want in (("none", "", False, set()), ("explicit", "!log-variables\n y, c, k, z\n", False, ALL), ("all-but c", "!log-variables !all-but\n c\n", False, ALL - {"c"}),
                                      ("all-but c z aliases first", "!log_variables !all_but\n c z\n", True, ALL - {"c", "z"}), ("all-but empty", "!log-variables !all-but\n", False, ALL),
                                      ("all-but empty first", "!log-variables !all-but\n", True, ALL), ("all-but empty aliases", "!log_variables !all_but\n\n", False, ALL),
                                      ("two empty all-but", "!log-variables !all-but\n!log-variables !all-but\n", False, ALL)):
        B.case()
        m = ir.Simultaneous.from_string((block + decl) if first else (decl + block))
        got = {q.human for q in m._invariant.quantities if q.logly and q.human in ALL}
        if got != want:
            B.fail(f"log status: {label}", {"spelling": label, "got": sorted(got), "want": sorted(want)})
            return


# ------------------------------------------------------------------------------ blocks written in several parts; <...> expressions
from irispie.parsers import models as PM
from irispie.parsers import preparser as PP


@contract("C04", targets=["irispie.parsers.models:_Visitor._add"], instances=[(0, 2), (1, 2), (3, 1), (2, 0)])
def repeated_blocks_accumulate(K, n_old, n_new):
    """A block keyword may appear several times in a source: what the visitor collects for a block is everything
    collected so far followed by the new items, and no other block is touched."""
    old = [("old", i) for i in range(n_old)]
    new = [("new", i) for i in range(n_new)]
    other = [("other", 0)]
    content = {"b": list(old), "c": other} if n_old else {"c": other}
    v = K.obj(PM._Visitor, content=content)
    K.call(PM._Visitor._add, v, "b", list(new))
    got = K.attr(v, "content")
    want_b = old + new
    K.ensure("block content is old + new, in order", (list(K.items(K.index(got, "b"))) == want_b) if want_b else ("b" not in [k for k in K.items(got)]))
    K.ensure("other blocks untouched", list(K.items(K.index(got, "c"))) == other)


@contract("C04", targets=["irispie.parsers.preparser:_stringify"], instances=[(v,) for v in (1 / 3, 0.1 + 0.2, 0.8123456789, 1e-07, 12345.678901234567, 1e22, 2.5, -0.75, 3, -12, True)], cross=0)
def contextual_values_are_pasted_without_loss(K, value):
    """The value of a <...> expression is pasted into the source as text; reading that text back as a Python
    literal must give the very same number (no digits lost), so the equation means what was written."""
    text = K.call(PP._stringify, value)
    K.ensure("text is a string", isinstance(text, str))
    back = ast.literal_eval(text) if isinstance(text, str) else None
    K.ensure("the pasted text denotes exactly the value", back == value and type(back) is type(value))
    both = K.call(PP._stringify, [value, "abc", (value,)])
    K.ensure("iterables are pasted as comma separated items", both == f"{text},abc,{text}")


CTX_SOURCE = r"""
!transition-variables
    x, y
!parameters
    a
!transition-equations
    x = <c1>*x[-1] + <1/3>*y + <vals>*a;
    y = <c1**2 + 1e-9>*y[-1] + <[k/7 for k in (1,)]>*x;
"""


@bounded("C04", bound="one model with four <...> expressions (name lookup, arithmetic, a list) whose values need 10-17 significant digits, on random data")
def contextual_expressions_native(B):
    """<...> expressions are replaced by their values: the equation then evaluates to rhs - lhs with those values."""
    ctx = {"c1": 0.8123456789, "vals": 0.1 + 0.2}
    m = ir.Simultaneous.from_string(CTX_SOURCE, context=dict(ctx))
    n2q = m.create_name_to_qid()
    rng = np.random.default_rng(B.seed if hasattr(B, "seed") else 0)
    data = rng.uniform(0.5, 2.0, size=(max(n2q.values()) + 1, 8))
    g = MK._prepare_globals(None)
    t = 4
    v = lambda n, s=0: data[n2q[n], t + s]      # noqa: E731
    want = [ctx["c1"] * v("x", -1) + (1 / 3) * v("y") + ctx["vals"] * v("a") - v("x"),
            (ctx["c1"] ** 2 + 1e-9) * v("y", -1) + (1 / 7) * v("x") - v("y")]
    for e, w in zip(m._invariant.dynamic_equations, want):
        B.case()
        got = float(eval(e.xtring, dict(g), {"x": data, "t": t}))
        if not (abs(got - w) <= 1e-13 * max(1.0, abs(w))):
            B.fail("equation with <...> expressions does not evaluate to rhs - lhs as written", {"equation": e.human, "got": got, "want": float(w)})
            return


@contract("C04", targets=["irispie.parsers.models:_replace_underscores_by_hyphens"],
          instances=[(a, b) for a, b in (("!transition_variables\n x_y, k_y\n", "!transition-variables\n x_y, k_y\n"), ("!log_variables !all_but\n c_1\n", "!log-variables !all-but\n c_1\n"),
                                         ("k_y = a_b*k_y[-1] !!k_y = 1;", None), ("x = 1 !! x_a = 2;", None), ("!steady_autovalues\n x_y = 1;", "!steady-autovalues\n x_y = 1;"),
                                         ("x_y = z_1 !!x_y = z_1{-1};\n!measurement_equations\n", "x_y = z_1 !!x_y = z_1{-1};\n!measurement-equations\n"))], cross=1)
def keyword_aliases_do_not_touch_names(K, source, want):
    """Underscores in KEYWORDS are an alias of hyphens (!transition_variables); underscores in NAMES are part of the name -
    also when the name follows the steady-state separator `!!` without a blank (!!k_y = ... is the steady version of an
    equation for k_y, not a keyword)."""
    got = K.call(PM._replace_underscores_by_hyphens, source)
    K.ensure("only keywords are rewritten", got == (source if want is None else want))


# ------------------------------------------------------------------------------ conditional blocks of the preparser
def _if_sequences():
    I, T, E, N = "if", "text", "else", "end"
    return {
        "if-end then if-else-end": [(I, "a"), (T, "A1"), (N,), (I, "b"), (T, "B1"), (E,), (T, "B2"), (N,)],
        "if-else-end then if-end": [(I, "a"), (T, "A1"), (E,), (T, "A2"), (N,), (I, "b"), (T, "B1"), (N,)],
        "nested with else inside": [(I, "a"), (T, "A1"), (I, "b"), (T, "B1"), (E,), (T, "B2"), (N,), (T, "A3"), (N,), (T, "Z")],
        "nested without else, else outside": [(I, "a"), (I, "b"), (T, "B1"), (N,), (E,), (T, "A2"), (N,)],
        "three in a row": [(I, "a"), (T, "A1"), (N,), (I, "b"), (T, "B1"), (N,), (I, "a"), (T, "A3"), (E,), (T, "A4"), (N,)],
    }


def _expected_if(seq, ctx):
    """independent reading of a directive sequence: recursive descent"""
    out, pos = [], 0

    def block(pos, active):
        while pos < len(seq):
            kind = seq[pos][0]
            if kind == "text":
                if active:
                    out.append(seq[pos][1])
                pos += 1
            elif kind == "if":
                cond = bool(ctx[seq[pos][1]])
                pos = block(pos + 1, active and cond)
                if pos < len(seq) and seq[pos][0] == "else":
                    pos = block(pos + 1, active and not cond)
                assert seq[pos][0] == "end"
                pos += 1
            else:
                return pos
        return pos
    block(0, True)
    return "\n".join(out)


@contract("C04", targets=["irispie.parsers.preparser:_resolve_sequence", "irispie.parsers.preparser:_If.resolve", "irispie.parsers.preparser:_find_matching_end",
                          "irispie.parsers.preparser:_find_matching_else", "irispie.parsers.preparser:_cumulate_level", "irispie.parsers.preparser:_Text.resolve"],
          instances=[(name, a, b) for name in _if_sequences() for a in (False, True) for b in (False, True)], cross=1, opts={"max_paths": 200})
def conditional_blocks_keep_exactly_the_active_branches(K, name, a, b):
    """!if c !then ... [!else ...] !end : the text of the branch selected by the condition is kept, the other dropped;
    an !else belongs to the innermost open !if - in particular an !if without !else is not given the !else of a
    LATER block; blocks may be nested and may follow each other."""
    seq = _if_sequences()[name]
    ctx = {"a": a, "b": b}
    objs = []
    for item in seq:
        if item[0] == "if":
            objs.append(K.call(PP._If, item[1]))
        elif item[0] == "text":
            objs.append(K.call(PP._Text, item[1]))
        elif item[0] == "else":
            objs.append(K.call(PP._Else))
        else:
            objs.append(K.call(PP._End))
    code = K.call(PP._resolve_sequence, objs, dict(ctx))
    K.ensure("exactly the active branches, in order", code == _expected_if(seq, ctx))


# ------------------------------------------------------------------------------ a model written in several files
import builtins as _builtins
import io as _io
from irispie import sources as SRC

_FILES = {
    "no newline at the end": ("!variables\n x\n% closing comment", "!parameters\n a\n", "!equations\n x = a;"),
    "newlines at the end": ("!variables\n x\n", "!parameters\n a\n"),
    "one file as a string": ("!variables\n x",),
    "an empty file in between": ("!variables\n x", "", "!equations\n x = 1;"),
}


@contract("C04", targets=["irispie.sources:_combine_source_files_into_string"], instances=[(k,) for k in _FILES], cross=0)
def source_files_are_joined_on_line_boundaries(K, key):
    """A model spread over several files means the files read one after another: every file appears intact and in order,
    and what separates two files is white space containing a line break - the last line of a file (a comment, a keyword)
    never runs into the first line of the next one."""
    contents = _FILES[key]
    names = [f"file{i}.model" for i in range(len(contents))]
    table = dict(zip(names, contents))
    arg = names[0] if key == "one file as a string" else list(names)
    out = K.stubbed(_builtins.open, lambda f, *a, **k: _io.StringIO(table[f]), "the file system: open(name) returns a reader of that file's text",
                    lambda: K.call(SRC._combine_source_files_into_string, arg))
    cores = [c.strip() for c in contents if c.strip()]
    m = re.fullmatch(r"\s*" + r"(\s*)".join(re.escape(c) for c in cores) + r"\s*", out, flags=re.DOTALL) if isinstance(out, str) else None
    K.ensure("the text of every file, intact and in order, and nothing else but white space", m is not None)
    K.ensure("a line break between the last line of a file and the first line of the next", m is not None and all("\n" in g for g in m.groups()))


# ------------------------------------------------------------------------------ shocks: where the anticipated values enter and where they do not
SHOCK_SRC = ("!transition_variables\n x\n!transition_shocks\n e\n!measurement_variables\n obs\n!measurement_shocks\n w\n!parameters\n a, lam\n"
             "!transition_equations\n x = a*x[-1] + e;\n!measurement_equations\n obs = x + lam*e + w;\n")


@contract("C04", targets=["irispie.simultaneous._invariants:_introduce_anticipated_shocks_for_transition_shocks", PEQ + "xtring_from_human"],
          instances=[("transition",), ("measurement",)], cross=4)
def anticipated_shock_values_enter_the_transition_equations_only(K, which):
    """A transition shock e in a TRANSITION equation stands for e plus its anticipated value ant_e (the documented way
    anticipated shocks enter a model); a measurement equation that mentions e is evaluated as written - no ant_e."""
    m = ir.Simultaneous.from_string(SHOCK_SRC)
    eqs = {e.human.split("=")[0]: e for e in m._invariant.dynamic_equations}
    n2q = m.create_name_to_qid()
    K.ensure("the anticipated value of the transition shock is a quantity of the model", "ant_e" in n2q)
    X, t, value = data_and_value(K, n2q)
    if which == "transition":
        got = K.eval_expr(eqs["x"].xtring, {"x": X, "t": t}, MK._prepare_globals(None))
        K.ensure("x = a*x[-1] + (e + ant_e)", K.real_eq(got, read_equation(K, "x = a*x[-1] + (e + ant_e)", value)))
    else:
        got = K.eval_expr(eqs["obs"].xtring, {"x": X, "t": t}, MK._prepare_globals(None))
        K.ensure("obs = x + lam*e + w, as written", K.real_eq(got, read_equation(K, "obs = x + lam*e + w", value)))
        K.ensure("the equation is reported as written", eqs["obs"].human == "obs=x+lam*e+w")
