"""C19 - databox, dataslate and CSV conversions are lossless on selected names and span.

Ghost view of a databox: M(db): name -> value (Databox is a dict subclass; the engine keeps the mapping of a
dict-subclass instance explicitly).  Dictionary-level operations are executed by the engine on the real code
for EVERY subset of present names and EVERY selection over a three-name universe (names are concrete strings,
values opaque objects or symbolic series of unbounded length); series-level effects are stated through the C10
view V.  Dataslate conversions are proved cell by cell for a span of symbolic length."""
import itertools
import numpy as np
from pyvc.prove import contract
from pyvc.bounded import bounded
import irispie as ir
import irispie.dates as D
from irispie.databoxes.main import Databox
from irispie.series.main import Series
from irispie.dataslates import _variants as DV
from irispie.dataslates import _invariants as DI
from irispie.dataslates.main import Dataslate
from contracts.c10_series import mk_series, V, state, RI, in_span

PD = "irispie.databoxes.main:"
PV = "irispie.dataslates._variants:"
PI = "irispie.dataslates._invariants:"
PM = "irispie.dataslates.main:"
U = ("a", "b", "c")
SUBSETS = [tuple(n for n, keep in zip(U, bits) if keep) for bits in itertools.product((False, True), repeat=3)]


class Opaque:
    """An item whose only observable is its identity."""
    def __init__(self, tag):
        self.tag = tag

    def __repr__(self):
        return f"<{self.tag}>"


def box(K, present):
    db = K.call(Databox)
    vals = {}
    for n in present:
        vals[n] = Opaque(n)
        K.setitem(db, n, vals[n])
    return db, vals


def view(K, db):
    return {n: K.index(db, n) for n in K.method(db, "get_names")}


# ------------------------------------------------------------------------------ name resolution and dictionary operations
@contract("C19", targets=[PD + "Databox._resolve_source_target_names", PD + "Databox.get_names", PD + "Databox.get_missing_names", PD + "Databox.has",
                          PD + "Databox.__init__"], instances=[(p, s) for p in SUBSETS for s in SUBSETS], cross=2)
def name_resolution(K, present, sel):
    db, vals = box(K, present)
    src, tgt, ctx = K.method(db, "_resolve_source_target_names", list(sel), lambda n: n.upper(), False)
    want = [n for n in sel if n in present]
    K.ensure("exactly the selected names that exist, in selection order", list(src) == want and list(tgt) == [n.upper() for n in want])
    K.ensure("context names are the databox names", tuple(ctx) == tuple(present))
    src3, tgt3, _ = K.method(db, "_resolve_source_target_names", list(sel), ["T_" + n for n in sel], False)
    K.ensure("an explicit list of target names stays paired with its source names when some sources are missing",
             list(zip(src3, tgt3)) == [(n, "T_" + n) for n in sel if n in present])
    src2, _, _ = K.method(db, "_resolve_source_target_names", lambda n: n in sel, None, False)
    K.ensure("predicate selection == list selection", list(src2) == [n for n in present if n in sel])
    K.ensure("get_missing_names", tuple(K.method(db, "get_missing_names", list(sel))) == tuple(n for n in sel if n not in present))
    K.ensure("has", K.method(db, "has", list(sel)) == all(n in present for n in sel))
    K.ensure("get_names with filter", tuple(K.method(db, "get_names", lambda n: n in sel)) == tuple(n for n in present if n in sel))


@contract("C19", targets=[PD + "Databox.remove", PD + "Databox.keep"], instances=[(p, s) for p in SUBSETS for s in SUBSETS], cross=2)
def remove_and_keep(K, present, sel):
    db, vals = box(K, present)
    K.method(db, "remove", list(sel))
    m = view(K, db)
    K.ensure("remove: exactly the selected names are gone, the rest are the same objects",
             set(m) == set(present) - set(sel) and all(m[n] is vals[n] for n in m))
    db, vals = box(K, present)
    K.method(db, "keep", list(sel))
    m = view(K, db)
    K.ensure("keep: exactly the selected names stay, as the same objects", set(m) == set(present) & set(sel) and all(m[n] is vals[n] for n in m))
    db, vals = box(K, present)
    K.method(db, "remove", None)
    K.ensure("remove(None) is a no-op", set(view(K, db)) == set(present))


@contract("C19", targets=[PD + "Databox.rename", PD + "Databox.shallow"], instances=[(p, s) for p in SUBSETS for s in SUBSETS], cross=2)
def rename_and_shallow(K, present, sel):
    """Collision-free renaming (targets are fresh names): selected entries move, all others stay the same objects."""
    db, vals = box(K, present)
    K.method(db, "rename", list(sel), lambda n: "new_" + n)
    m = view(K, db)
    want = {("new_" + n if n in sel else n): vals[n] for n in present}
    K.ensure("rename moves exactly the selected names", set(m) == set(want) and all(m[n] is want[n] for n in m))
    db, vals = box(K, present)
    sh = K.method(db, "shallow", list(sel), lambda n: "new_" + n)
    ms = view(K, sh)
    K.ensure("shallow: a new databox holding the same objects under the target names",
             sh is not db and set(ms) == {"new_" + n for n in sel if n in present} and all(ms["new_" + n] is vals[n] for n in sel if n in present))
    K.ensure("shallow leaves the source untouched", set(view(K, db)) == set(present) and all(K.index(db, n) is vals[n] for n in present))
    db, vals = box(K, present)
    K.method(db, "rename", list(sel), ["t_" + n for n in sel], strict_names=False)
    m = view(K, db)
    want = {("t_" + n if n in sel else n): vals[n] for n in present}
    K.ensure("rename with an explicit target list and missing sources (non-strict): every existing source gets ITS target", set(m) == set(want) and all(m[n] is want[n] for n in m))


@contract("C19", targets=[PD + "Databox.__or__"], instances=[(p, s) for p in SUBSETS for s in SUBSETS], cross=2)
def merge_is_right_biased_and_fresh(K, left, right):
    a, va = box(K, left)
    b, vb = box(K, right)
    r = K.binop("|", a, b)
    m = view(K, r)
    K.ensure("union of names", set(m) == set(left) | set(right))
    K.ensure("right operand wins on common names (same objects)", all(m[n] is vb[n] for n in right))
    K.ensure("operands untouched", set(view(K, a)) == set(left) and set(view(K, b)) == set(right) and all(K.index(a, n) is va[n] for n in left))
    K.ensure("result is a new databox", r is not a and r is not b)


# ------------------------------------------------------------------------------ copy: deep, also with a selection
@contract("C19", targets=[PD + "Databox.copy", PD + "Databox.rename", PD + "Databox.keep"], instances=[(sel,) for sel in (None, ("x",), ("x", "s"))], opts={"max_paths": 3000})
def copy_is_deep_also_with_a_selection(K, sel):
    cls = D.QuarterlyPeriod
    x, xs, xd = mk_series(K, "x", cls, 1)
    y, ys, yd = mk_series(K, "y", cls, 1)
    db = K.call(Databox)
    K.setitem(db, "x", x)
    K.setitem(db, "y", y)
    lst = [1, 2]
    K.setitem(db, "s", lst)
    new = K.method(db, "copy") if sel is None else K.method(db, "copy", list(sel), lambda n: "c_" + n)
    names = set(K.method(new, "get_names"))
    K.ensure("names of the copy", names == ({"x", "y", "s"} if sel is None else {"c_" + n for n in sel}))
    cx = K.index(new, "x" if sel is None else "c_x")
    K.ensure("series in the copy is a different object with its own memory", (cx is not x) and (not K.same_buffer(K.attr(cx, "data"), K.attr(x, "data"))))
    t = K.int("t", 7980, 8100)
    cs, cd = state(K, cx)
    K.ensure("same values", K.cell_eq(V(K, cs, cd, t, 0), V(K, xs, xd, t, 0)))
    if sel is None or "s" in sel:
        K.ensure("list items are copied too", K.index(new, "s" if sel is None else "c_s") is not lst)
    # an in-place operation on the copy leaves the original alone
    K.method(cx, "set_data", (K.obj(cls, serial=t),), K.real("v"))
    ns, nd = state(K, x)
    u = K.int("u", 7980, 8100)
    K.ensure("writing into the copy does not change the original", K.cell_eq(V(K, ns, nd, u, 0), V(K, xs, xd, u, 0)))
    K.ensure("the source databox is unchanged", set(K.method(db, "get_names")) == {"x", "y", "s"} and K.index(db, "x") is x and K.index(db, "s") is lst)


# ------------------------------------------------------------------------------ overlay / clip / prepend on exactly the right items
@contract("C19", targets=[PD + "Databox._lay", PD + "Databox.overlay", PD + "Databox.underlay", PD + "Databox.filter"],
          instances=[(w,) for w in ("overlay", "underlay")], opts={"max_paths": 8000})
def lay_applies_to_common_series_of_equal_frequency(K, which):
    q = D.QuarterlyPeriod
    x1, x1s, x1d = mk_series(K, "x1", q, 1)
    x2, x2s, x2d = mk_series(K, "x2", q, 1)
    onlya, oas, oad = mk_series(K, "onlya", q, 1)
    yq, yqs, yqd = mk_series(K, "yq", q, 1)
    yy, yys, yyd = mk_series(K, "yy", D.YearlyPeriod, 1)
    a = K.call(Databox)
    b = K.call(Databox)
    for n, v in (("x", x1), ("only_a", onlya), ("mixed", yq), ("num", 5)):
        K.setitem(a, n, v)
    for n, v in (("x", x2), ("mixed", yy), ("num", 7), ("only_b", Opaque("b"))):
        K.setitem(b, n, v)
    K.method(a, which, b)
    t = K.int("t", 7960, 8120)
    K.instantiate(t)
    ns, nd = state(K, K.index(a, "x"))
    av, bv = V(K, x1s, x1d, t, 0), V(K, x2s, x2d, t, 0)
    want = K.cell_ite(in_span(K, x2s, x2d, t), lambda: bv, lambda: av) if which == "overlay" else K.cell_ite(in_span(K, x1s, x1d, t), lambda: av, lambda: bv)
    K.ensure(f"common series of equal frequency gets Series.{which}", K.And(K.index(a, "x") is x1, K.cell_eq(V(K, ns, nd, t, 0), want)))
    for n, obj, s0, d0 in (("only_a", onlya, oas, oad), ("mixed", yq, yqs, yqd)):
        cs, cd = state(K, K.index(a, n))
        K.ensure(f"{n}: untouched (missing in the other box / different frequency)", K.And(K.index(a, n) is obj, K.cell_eq(V(K, cs, cd, t, 0), V(K, s0, d0, t, 0))))
    K.ensure("non-series items and names untouched", K.index(a, "num") == 5 and set(K.method(a, "get_names")) == {"x", "only_a", "mixed", "num"})
    bs, bd = state(K, K.index(b, "x"))
    K.ensure("the other databox is untouched", K.And(K.index(b, "x") is x2, K.cell_eq(V(K, bs, bd, t, 0), bv), set(K.method(b, "get_names")) == {"x", "mixed", "num", "only_b"}))


@contract("C19", targets=[PD + "Databox.clip", PD + "Databox.filter", PD + "Databox.get_series_names_by_frequency"], instances=[()], opts={"max_paths": 4000})
def clip_applies_to_series_of_that_frequency(K):
    q = D.QuarterlyPeriod
    x, xs, xd = mk_series(K, "x", q, 1)
    y, ys, yd = mk_series(K, "y", D.YearlyPeriod, 1)
    db = K.call(Databox)
    for n, v in (("x", x), ("y", y), ("num", 3)):
        K.setitem(db, n, v)
    rows = K.shape(xd)[0]
    a = K.int("new_start", 7990, 8060)
    K.assume(K.And(a <= xs + rows - 1))
    K.method(db, "clip", K.obj(q, serial=a), None)
    t = K.int("t", 7960, 8120)
    ns, nd = state(K, K.index(db, "x"))
    eff = K.ite(a < xs, xs, a)
    K.ensure("series of the clip frequency is clipped", K.cell_eq(V(K, ns, nd, t, 0), K.cell_ite(t >= eff, lambda: V(K, xs, xd, t, 0), lambda: K.nan_cell())))
    cs, cd = state(K, K.index(db, "y"))
    K.ensure("series of another frequency and other items untouched", K.And(K.cell_eq(V(K, cs, cd, t, 0), V(K, ys, yd, t, 0)), K.index(db, "num") == 3))


@contract("C19", targets=[PD + "Databox.prepend", PD + "Databox.copy", PD + "Databox.clip", PD + "Databox.underlay"], instances=[()], opts={"max_paths": 8000})
def prepend_is_underlay_of_clipped_copy(K):
    q = D.QuarterlyPeriod
    x, xs, xd = mk_series(K, "x", q, 1)
    h, hs, hd = mk_series(K, "h", q, 1)
    db = K.call(Databox)
    hist = K.call(Databox)
    K.setitem(db, "x", x)
    K.setitem(hist, "x", h)
    e = K.int("end_prepending", 7990, 8060)
    K.assume(e >= hs)
    K.method(db, "prepend", hist, K.obj(q, serial=e))
    t = K.int("t", 7960, 8120)
    K.instantiate(t)
    ns, nd = state(K, K.index(db, "x"))
    av = V(K, xs, xd, t, 0)
    hv = K.cell_ite(t <= e, lambda: V(K, hs, hd, t, 0), lambda: K.nan_cell())
    K.ensure("own values on the own span, history up to end_prepending elsewhere", K.cell_eq(V(K, ns, nd, t, 0), K.cell_ite(in_span(K, xs, xd, t), lambda: av, lambda: hv)))
    os_, od = state(K, K.index(hist, "x"))
    K.ensure("the prepended databox is untouched", K.And(K.index(hist, "x") is h, K.cell_eq(V(K, os_, od, t, 0), V(K, hs, hd, t, 0))))


# ------------------------------------------------------------------------------ dataslate variants: cell contracts
def invariant(K, names, T):
    return K.obj(DI.Invariant, names=tuple(names), periods=K.seq("period", T), descriptions=tuple("" for _ in names), logly_indexes=(),
                 base_columns=(), output_qids=tuple(range(len(names))), min_max_shift=(0, 0))


@contract("C19", targets=[PV + "Variant.from_databox_variant", PV + "Variant._apply_fallbacks", PV + "Variant._apply_overwrites", PV + "Variant.retrieve_record",
                          PV + "Variant.store_record", PI + "Invariant.num_periods"], instances=[()], opts={"max_paths": 2000})
def databox_variant_to_array(K):
    """Row of a declared name: its values on the span; NaN where the databox has nothing; NaN cells take the
    fallback; an overwritten name takes the overwrite everywhere; names not declared do not appear."""
    T = K.int("T", 1, None, sample=(1, 6))
    inv = invariant(K, ("plain", "fb", "ow", "absent", "absent_fb"), T)
    plain, fb, ow = K.array("plain", (T,)), K.array("fb", (T,)), K.array("ow", (T,))
    f = K.real("fallback")
    o = K.real("overwrite")
    dbv = {"plain": plain, "fb": fb, "ow": ow, "undeclared": K.array("undeclared", (T,))}
    # Invariant.nonbase_columns builds set(range(num_periods)); its value is unused when clip_data_to_base_span is False
    v = K.stubbed(DI.Invariant.nonbase_columns.fget, lambda self: (), "nonbase_columns unused on this path (clip_data_to_base_span=False)",
                  lambda: K.call(DV.Variant.from_databox_variant, dbv, inv, fallbacks={"fb": f, "absent_fb": f}, overwrites={"ow": o}))
    data = K.attr(v, "data")
    K.ensure("one row per declared name, one column per period", K.And(K.shape(data)[0] == 5, K.shape(data)[1] == T))
    t = K.int("t", 0, None, sample=(0, 5))
    K.assume(t < T)
    K.ensure("plain name: exactly the input values", K.cell_eq(K.cell(data, 0, t), K.cell(plain, t)))
    K.ensure("fallback fills only the missing cells", K.cell_eq(K.cell(data, 1, t), K.cell_ite(K.cell_is_nan(K.cell(fb, t)), lambda: K.real_cell(f), lambda: K.cell(fb, t))))
    K.ensure("overwrite replaces every cell", K.cell_eq(K.cell(data, 2, t), K.real_cell(o)))
    K.ensure("declared name missing in the databox: NaN", K.cell_is_nan(K.cell(data, 3, t)))
    K.ensure("declared name missing in the databox with a fallback: the fallback", K.cell_eq(K.cell(data, 4, t), K.real_cell(f)))
    K.ensure("inputs not aliased", not K.same_buffer(data, plain))


@contract("C19", targets=[PV + "Variant.remove_periods_from_start", PV + "Variant.remove_periods_from_end", PV + "Variant.add_periods_to_end", PV + "Variant.copy",
                          PV + "Variant.update_columns_from"], instances=[()], opts={"max_paths": 1000})
def variant_period_operations(K):
    T = K.int("T", 1, None, sample=(1, 7))
    R = 2
    data = K.array("data", (R, T))
    v = K.obj(DV.Variant, data=data)
    c = K.method(v, "copy")
    K.ensure("copy has its own memory", not K.same_buffer(K.attr(c, "data"), data))
    k = K.int("k", 0, None, sample=(0, 3))
    K.assume(k < T)
    r = K.int("r", 0, R - 1)
    t = K.int("t", 0, None, sample=(0, 9))
    K.method(c, "remove_periods_from_start", k)
    d = K.attr(c, "data")
    K.ensure("remove_periods_from_start: columns shift left by k", K.And(K.shape(d)[1] == T - k, K.Implies(t < T - k, K.cell_eq(K.cell(d, r, K.ite(t < T - k, t, 0)), K.cell(data, r, K.ite(t < T - k, t + k, 0))))))
    c = K.method(v, "copy")
    K.method(c, "remove_periods_from_end", k)
    d = K.attr(c, "data")
    K.ensure("remove_periods_from_end: first T-k columns kept", K.And(K.shape(d)[1] == T - k, K.Implies(t < T - k, K.cell_eq(K.cell(d, r, K.ite(t < T - k, t, 0)), K.cell(data, r, K.ite(t < T - k, t, 0))))))
    c = K.method(v, "copy")
    K.method(c, "add_periods_to_end", k)
    d = K.attr(c, "data")
    K.ensure("add_periods_to_end: NaN columns appended", K.And(K.shape(d)[1] == T + k,
                                                               K.Implies(t < T + k, K.cell_eq(K.cell(d, r, K.ite(t < T + k, t, 0)), K.cell_ite(t < T, lambda: K.cell(data, r, K.ite(t < T, t, 0)), lambda: K.nan_cell())))))


@contract("C19", targets=[PI + "Invariant.remove_periods_from_start", PI + "Invariant.remove_periods_from_end", PI + "Invariant.base_periods"],
          instances=[(n, tuple(b)) for n in (3, 5) for b in ([1], [1, 2], list(range(1, n - 1)))], opts={"max_paths": 2000})
def invariant_period_bookkeeping(K, n, base):
    """Removing k periods from the start keeps exactly the base columns >= k (shifted by k); from the end, those < n-k."""
    periods = tuple(D.QuarterlyPeriod(8000 + i) for i in range(n))
    k = K.int("k", 0, n)
    inv = K.obj(DI.Invariant, names=("a",), periods=periods, descriptions=("",), logly_indexes=(), base_columns=tuple(base), output_qids=(0,), min_max_shift=(0, 0))
    K.method(inv, "remove_periods_from_start", k)
    bc = K.items(K.attr(inv, "base_columns"))
    for b in base:
        kept = K.Or(*[x == b - k for x in bc]) if bc else False
        K.ensure(f"base column {b} kept (shifted) iff it is not removed", kept == (b >= k) if K.symbolic else (kept == (b >= k)))
    K.ensure("no other base columns", K.And(*[K.Or(*[x == b - k for b in base]) for x in bc]) if bc else True)
    K.ensure("number of periods", K.length(K.attr(inv, "periods")) == n - k)
    inv2 = K.obj(DI.Invariant, names=("a",), periods=periods, descriptions=("",), logly_indexes=(), base_columns=tuple(base), output_qids=(0,), min_max_shift=(0, 0))
    K.method(inv2, "remove_periods_from_end", k)
    bc2 = K.items(K.attr(inv2, "base_columns"))
    for b in base:
        kept = K.Or(*[x == b for x in bc2]) if bc2 else False
        K.ensure(f"from end: base column {b} kept iff it is below n-k", kept == (b < n - k))


# ------------------------------------------------------------------------------ databox -> dataslate -> databox on a span
@contract("C19", targets=[PM + "Dataslate.from_databox", PM + "Dataslate.to_databox", PM + "_slate_value_variant_iterator", PD + "Databox.iter_variants",
                          PV + "Variant.from_databox_variant", "irispie.series.main:Series.from_start_and_array",
                          "irispie.series.main:Series.iter_data_variants_from_until", "irispie.series.main:Series.iter_own_data_variants_from_until"],
          instances=[(1, None), (2, None), (1, "empty"), (1, "other"), (2, "same")], opts={"max_paths": 8000})
def databox_dataslate_roundtrip(K, nv, target):
    """Converting a databox to a dataslate on a span and back returns exactly the input values on that span and NaN
    elsewhere (no fallbacks/overwrites declared) - every variant its own values; names not selected do not appear.  A
    target databox given by the caller - empty, holding other names, or the source itself - is the object written to."""
    q = D.QuarterlyPeriod
    x, xs, xd = mk_series(K, "x", q, nv)
    y, ys, yd = mk_series(K, "y", q, 1)
    db = K.call(Databox)
    K.setitem(db, "x", x)
    K.setitem(db, "y", y)
    a = K.int("from", 7990, 8060)
    b = K.int("until", 7990, 8060)
    K.assume(a <= b)
    span = K.call(D.Span, K.obj(q, serial=a), K.obj(q, serial=b))
    ds = K.stubbed(DI.Invariant.nonbase_columns.fget, lambda self: (), "nonbase_columns unused on this path (clip_data_to_base_span=False)",
                   lambda: K.call(Dataslate.from_databox, db, ("x", "missing"), span, num_variants=nv))
    if target is None:
        out = K.method(ds, "to_databox")
        expected_names = {"x", "missing"}
    else:
        tgt = db if target == "same" else K.call(Databox)
        if target == "other":
            K.setitem(tgt, "kept", y)
        out = K.method(ds, "to_databox", target_db=tgt)
        K.ensure("the databox handed over is the one written to and returned", out is tgt)
        out = tgt
        expected_names = {"x", "missing"} | ({"kept"} if target == "other" else set()) | ({"y"} if target == "same" else set())
    K.ensure("selected names only", set(K.method(out, "get_names")) == expected_names)
    t = K.int("t", 7960, 8120)
    c = K.int("c", 0, nv - 1)
    K.instantiate(t)
    rs, rd = state(K, K.index(out, "x"))
    K.ensure("values on the span, NaN elsewhere", K.cell_eq(V(K, rs, rd, t, c), K.cell_ite(K.And(a <= t, t <= b), lambda: V(K, xs, xd, t, c), lambda: K.nan_cell())))
    K.ensure("number of variants", K.shape(rd)[1] == nv)
    ms, md = state(K, K.index(out, "missing"))
    K.ensure("a name without data comes back as the empty series", ms is None)
    if target in ("other", "same"):
        other = K.index(out, "kept" if target == "other" else "y")
        K.ensure("series the dataslate does not hold stay in the target", other is y)
    if target != "same":
        nxs, nxd = state(K, x)
        K.ensure("input series untouched", K.cell_eq(V(K, nxs, nxd, t, c), V(K, xs, xd, t, c)))



# ------------------------------------------------------------------------------ CSV export: one block of columns per frequency
from irispie.databoxes import _exports as EXP
PE = "irispie.databoxes._exports:"


@contract("C19", targets=[PE + "_ExportBlock.__iter__", PE + "_get_descriptions_for_names", PE + "_get_num_data_columns_for_names", PE + "_get_data_array_for_names",
                          PE + "_get_frequency_mark"], instances=[(d, extra) for d in (False, True) for extra in (0, 2)], opts={"max_paths": 600})
def export_block_rows_are_rectangular(K, with_descriptions, extra_rows):
    """The rows one frequency block contributes to the CSV sheet (blocks are written side by side, row by row): a name
    row (frequency mark, each name followed by one `*` per further variant), optionally a description row of the same
    layout, one row per period (date, the values of every variant of every series, NaN as nan_str), then filler rows up
    to the height of the tallest block.  EVERY row has the same number of cells - otherwise the cells of the blocks to
    the right shift and the file no longer reads back."""
    cls = D.QuarterlyPeriod
    start = K.int("start", 8000, 8100)
    a = K.array("a", (2, 1))
    b = K.array("b", (2, 2))
    sa = K.obj(Series, start=K.obj(cls, serial=start), data=a, data_type=np.float64, metadata={}, __description__="first")
    sb = K.obj(Series, start=K.obj(cls, serial=start), data=b, data_type=np.float64, metadata={}, __description__="second")
    db = K.call(Databox)
    K.setitem(db, "a", sa)
    K.setitem(db, "b", sb)
    periods = (K.obj(cls, serial=start), K.obj(cls, serial=start + 1))
    fmt = K.callable(lambda p: ("date", K.attr(p, "serial")))
    blk = K.call(EXP._ExportBlock, databox=db, frequency=D.Frequency.QUARTERLY, periods=periods, names=("a", "b"), total_num_data_rows=2 + extra_rows,
                 description_row=with_descriptions, delimiter=",", numeric_format="g", nan_str="NA", round=None, date_formatter=fmt)
    rows = [tuple(K.items(r)) for r in K.items(K.call(EXP._ExportBlock.__iter__, blk))]
    nhead = 2 if with_descriptions else 1
    K.ensure("number of rows: header rows + tallest block", len(rows) == nhead + 2 + extra_rows)
    K.ensure("every row has 1 + (number of data columns) + 1 cells", all(len(r) == 5 for r in rows))
    K.ensure("name row", rows[0] == ("__quarterly__", "a", "b", "*", ""))
    if with_descriptions:
        K.ensure("description row", rows[1] == ("", "first", "second", "*", ""))
    for i in range(2):
        r = rows[nhead + i]
        if len(r) != 5:
            continue
        K.ensure(f"data row {i}: date cell and closing cell", K.And(r[0][0] == "date", r[0][1] == start + i, r[4] == ""))
        for j, cell in enumerate((K.cell(a, i, 0), K.cell(b, i, 0), K.cell(b, i, 1))):
            got = r[1 + j]
            if isinstance(got, str):
                K.ensure(f"data row {i} column {j}: a missing value is written as nan_str", K.And(got == "NA", K.cell_is_nan(cell)))
            else:
                K.ensure(f"data row {i} column {j}: the value of that series and variant", K.cell_eq(K.real_cell(got) if not K.is_cell(got) else got, cell))
    for r in rows[nhead + 2:]:
        K.ensure("filler rows are empty cells", all(c == "" for c in r))


# ------------------------------------------------------------------------------ CSV round trip: bounded stand-in (NOT a proof)
@bounded("C19", bound="databoxes of 1-4 series over {yearly, quarterly, monthly, integer} frequencies (one frequency per box, every third box mixed), nested/staggered spans of 1-12 periods, 1-2 variants, interior NaNs, descriptions, delimiters comma/semicolon/tab; 60 boxes quick / 600 thorough; values rounded to 8 decimals")
def csv_roundtrip_native(B):
    """to_csv_file / from_csv_file return the same names, descriptions, frequencies, spans and values."""
    import os, tempfile
    rng = B.rng
    tmp = tempfile.mkdtemp(prefix="pyvc_csv_")
    try:
        for k in range(600 if B.thorough else 60):
            cls0 = rng.choice([D.YearlyPeriod, D.QuarterlyPeriod, D.MonthlyPeriod, D.IntegerPeriod])
            mixed = k % 3 == 2            # every third box mixes frequencies (blocks of different heights side by side)
            db = Databox()
            nser = rng.randint(1, 4)
            for i in range(nser):
                cls = rng.choice([D.YearlyPeriod, D.QuarterlyPeriod, D.MonthlyPeriod, D.IntegerPeriod]) if mixed else cls0
                F = int(cls.frequency) or 1
                base = 2000 * F if cls is not D.IntegerPeriod else 5
                n = rng.randint(1, 12)
                nv = rng.randint(1, 2)
                start = cls(base + rng.randint(0, 8))
                vals = np.round(np.array([[rng.uniform(-5, 5) for _ in range(nv)] for _ in range(n)]), 8)
                if n > 2 and rng.random() < 0.5:
                    vals[rng.randint(1, n - 2), 0] = np.nan
                s = Series(start=start, values=vals, description=f"series {i}")
                if s.start is not None:
                    db[f"s{i}"] = s
            if not db:
                continue
            B.case()
            path = os.path.join(tmp, f"box{k}.csv")
            try:
                with_desc = bool(k % 2)
                delim = (",", ",", ";", "\t")[k % 4]        # the same declared delimiter on both sides
                db.to_csv_file(path, description_row=with_desc, numeric_format=".12g", delimiter=delim)
                back = Databox.from_csv_file(path, description_row=with_desc, delimiter=delim)
            except Exception as ex:
                B.fail(f"exception {type(ex).__name__}: {ex}", {"box": {n: (str(s.start), s.data.tolist()) for n, s in db.items()}})
                return
            for n, s in db.items():
                r = back.get(n)
                ok = r is not None and r.start is not None and type(r.start) is type(s.start) and r.start.serial == s.start.serial and r.data.shape == s.data.shape \
                    and np.allclose(r.data, s.data, equal_nan=True, atol=1e-7) and (not with_desc or r.get_description() == s.get_description())
                if not ok:
                    B.fail("CSV round trip loses a span or value", {"name": n, "start": str(s.start), "data": s.data.tolist(),
                                                                     "got_start": None if r is None else str(r.start), "got": None if r is None else r.data.tolist()})
                    return
    finally:
        import shutil
        shutil.rmtree(tmp, ignore_errors=True)
    return {"exhaustive_within_bound": False}


@contract("C19", targets=[PV + "Variant.from_databox_variant", PV + "Variant._apply_fallbacks", PV + "Variant._apply_overwrites", PI + "Invariant.nonbase_columns"],
          instances=[((1, 2, 3), 5), ((0, 1), 3), ((2,), 4)], opts={"max_paths": 2000})
def clipping_to_the_base_span_comes_before_fallbacks_and_overwrites(K, base, T):
    """clip_data_to_base_span=True blanks the INPUT data outside the base periods; the declared fallbacks and overwrites
    are then applied over the whole slate span (initial and terminal periods included): a blanked cell of a name with a
    fallback holds the fallback, an overwritten name holds the overwrite everywhere."""
    periods = tuple(D.QuarterlyPeriod(8000 + i) for i in range(T))
    names = ("plain", "fb", "ow")
    inv = K.obj(DI.Invariant, names=names, periods=periods, descriptions=("", "", ""), logly_indexes=(), base_columns=tuple(base), output_qids=(0, 1, 2), min_max_shift=(0, 0))
    plain, fb, ow = K.array("plain", (T,)), K.array("fb", (T,)), K.array("ow", (T,))
    f, o = K.real("fallback"), K.real("overwrite")
    v = K.call(DV.Variant.from_databox_variant, {"plain": plain, "fb": fb, "ow": ow}, inv, fallbacks={"fb": f}, overwrites={"ow": o}, clip_data_to_base_span=True)
    data = K.attr(v, "data")
    K.ensure("shape", K.shape(data) == (3, T))
    for t in range(T):
        inside = t in base
        K.ensure(f"column {t}: plain name - input inside the base span, missing outside", K.cell_eq(K.cell(data, 0, t), K.cell(plain, t)) if inside else K.cell_is_nan(K.cell(data, 0, t)))
        want_fb = K.cell_ite(K.cell_is_nan(K.cell(fb, t)), lambda: K.real_cell(f), lambda t=t: K.cell(fb, t)) if inside else K.real_cell(f)
        K.ensure(f"column {t}: fallback name - input or fallback inside, the fallback outside", K.cell_eq(K.cell(data, 1, t), want_fb))
        K.ensure(f"column {t}: overwritten name - the overwrite everywhere", K.cell_eq(K.cell(data, 2, t), K.real_cell(o)))


@contract("C19", targets=[PE + "_resolve_frequency_span", PE + "_resolve_frequency_names", PE + "_get_total_num_data_rows", PD + "Databox.get_series_names_by_frequency",
                          PD + "Databox.get_span_by_frequency"], instances=[()], cross=2, opts={"max_paths": 400})
def every_series_gets_a_block_in_the_csv_sheet(K):
    """With the default spans, the export writes one block per frequency present in the databox - the block of series
    WITHOUT observations (no start, frequency UNKNOWN) included, so that their names and descriptions survive the round
    trip - and each block lists exactly the series of its frequency."""
    q = Series(start=D.qq(2020, 1), values=(1.0, 2.0, 3.0))
    q2 = Series(start=D.qq(2020, 3), values=(4.0, 5.0))
    y = Series(start=D.yy(2020), values=(7.0,))
    e = Series()
    db = K.call(Databox)
    for n, s in (("q", q), ("empty", e), ("y", y), ("q2", q2), ("number", 3.5)):
        K.setitem(db, n, K.lift(s) if isinstance(s, Series) else s)
    fs = K.call(EXP._resolve_frequency_span, db, None, None)
    keys = [k for k in K.items(fs)]
    F = D.Frequency
    K.ensure("one block per frequency present, the block of the series without observations included", set(keys) == {F.QUARTERLY, F.YEARLY, F.UNKNOWN})
    fn = K.call(EXP._resolve_frequency_names, db, fs)
    K.ensure("quarterly block", tuple(K.index(fn, F.QUARTERLY)) == ("q", "q2"))
    K.ensure("yearly block", tuple(K.index(fn, F.YEARLY)) == ("y",))
    K.ensure("block of the series without observations", tuple(K.index(fn, F.UNKNOWN)) == ("empty",) if F.UNKNOWN in keys else False)
    qspan = [K.attr(p, "serial") for p in K.items(K.index(fs, F.QUARTERLY))]
    K.ensure("the quarterly block spans all quarterly series", qspan == [D.qq(2020, 1).serial + i for i in range(4)])
    K.ensure("height of the sheet: the longest block", K.call(EXP._get_total_num_data_rows, fs) == 4)


@contract("C19", targets=[PE + "_get_data_array_for_names", "irispie.series.main:Series.get_data", "irispie.series.main:_get_date_positions",
                          "irispie.series.main:Series._resolve_dates_and_positions", "irispie.series.main:Series._create_expanded_data"],
          instances=[(2,), (3,)], opts={"max_paths": 6000})
def export_rows_follow_the_requested_periods(K, k):
    """The data rows of a CSV block are the requested periods IN THE ORDER REQUESTED - ascending, descending or with
    gaps, inside or outside the stored range of each series (missing there) - and the series are not modified."""
    cls = D.QuarterlyPeriod
    x, xs, xd = mk_series(K, "x", cls, 1)
    y, ys, yd = mk_series(K, "y", cls, 2)
    db = K.call(Databox)
    K.setitem(db, "x", x)
    K.setitem(db, "y", y)
    ds = [K.int(f"d{i}", 7990, 8060) for i in range(k)]
    periods = tuple(K.obj(cls, serial=d) for d in ds)
    arr = K.call(EXP._get_data_array_for_names, db, ("x", "y"), periods)
    K.ensure("one row per period, one column per variant of every series", K.shape(arr) == (k, 3))
    for i in range(k):
        K.ensure(f"row {i}: x", K.cell_eq(K.cell(arr, i, 0), V(K, xs, xd, ds[i], 0)))
        K.ensure(f"row {i}: y, first variant", K.cell_eq(K.cell(arr, i, 1), V(K, ys, yd, ds[i], 0)))
        K.ensure(f"row {i}: y, second variant", K.cell_eq(K.cell(arr, i, 2), V(K, ys, yd, ds[i], 1)))
    t = K.int("t", 7960, 8120)
    K.instantiate(t)
    nxs, nxd = state(K, x)
    K.ensure("series untouched", K.cell_eq(V(K, nxs, nxd, t, 0), V(K, xs, xd, t, 0)))


# ------------------------------------------------------------------------------ CSV import: the declared delimiter
import io as _io
import builtins as _builtins
from irispie.databoxes import _imports as IMP
PIM = "irispie.databoxes._imports:"


@contract("C19", targets=[PIM + "_read_csv"], instances=[(",",), (";",), ("\t",)], cross=2)
def csv_cells_are_split_at_the_declared_delimiter(K, delimiter):
    """_read_csv(file, ..., delimiter=d) returns the cells of every row split at d - the character to_csv_file(delimiter=d)
    wrote between them (quoted cells may contain it)."""
    rows = [["__quarterly__", "a", "b", ""], ["2020-Q1", "1.5", "", ""], ["2020-Q2", 'x' + delimiter + 'y', "-2", ""]]
    text = "".join(delimiter.join('"' + c + '"' if delimiter in c else c for c in r) + "\n" for r in rows)
    out = K.stubbed(_builtins.open, lambda f, *a, **k: _io.StringIO(text), "the file system: open(name) returns a reader of the sheet's text",
                    lambda: K.call(IMP._read_csv, "sheet.csv", 1, delimiter=delimiter))
    K.ensure("the cells of the sheet, row by row", [list(r) for r in K.items(out)] == rows)


@contract("C19", targets=[PIM + "Inlay.from_csv_file"], instances=[(",",), (";",)], cross=0, opts={"max_paths": 500})
def csv_import_hands_the_declared_delimiter_to_both_readers(K, delimiter):
    """from_csv_file(file, delimiter=d): the header/date cells AND the numeric block are read with d."""
    header = [["__quarterly__", "a", ""], ["2020-Q1", "1.5", ""]]
    seen = {}

    def read_csv(file_name, num_header_rows, *a, **k):
        seen["csv"] = k.get("delimiter", a[0] if a else ",")
        return header

    def read_array(file_name, block, num_header_rows, *a, **k):
        seen["array"] = k.get("delimiter", a[0] if a else ",")
        return np.array([[1.5]])
    def both(delim):
        return K.stubbed(IMP._read_csv, read_csv, "reading the cells of the sheet has its own contract (csv_cells_are_split_at_the_declared_delimiter)",
                         lambda: K.stubbed(IMP._read_array_for_block, read_array, "numpy.genfromtxt on the file: external",
                                           lambda: K.call(Databox.from_csv_file, "sheet.csv", delimiter=delim)))
    both("\t" if delimiter == "," else ",")         # history: an earlier import with ANOTHER delimiter leaves nothing behind
    seen.clear()
    db = both(delimiter)
    K.ensure("header and date cells are read with the declared delimiter", seen.get("csv") == delimiter)
    K.ensure("the numeric block is read with the declared delimiter", seen.get("array") == delimiter)
    K.ensure("the series arrives", list(K.method(db, "get_names")) == ["a"])


@contract("C19", targets=[PIM + "Inlay.from_csv_file", PIM + "_block_iterator", PIM + "_extract_periods_from_data_rows", PIM + "_add_series_for_block",
                          PIM + "_ImportBlock.column_iterator", "irispie.series.main:Series.set_data"],
          instances=[(False,), (True,)], cross=2, opts={"max_paths": 3000})
def csv_import_places_every_cell(K, with_descriptions):
    """Reading a sheet of the layout to_csv_file writes - two blocks of different heights side by side, a series with two
    variants (`*` column), filler rows under the shorter block: every series gets its frequency, its periods from the
    date cells of ITS block, one variant per column, the numbers of its own columns (arbitrary values, missing cells
    included) and, when there is a description row, its description."""
    name_row = ["__quarterly__", "a", "b", "*", "", "__monthly__", "c", "", "__unknown__", "e", ""]      # last block: a series without observations
    desc_row = ["", "first", "second", "*", "", "", "third", "", "", "empty one", ""]
    dates_q = ["2020-Q3", "2020-Q4", "", ""]
    dates_m = ["2021-01", "2021-02", "2021-03", "2021-04"]
    rows = [[dq, "x", "x", "x", "", dm, "x", "", "", "", ""] for dq, dm in zip(dates_q, dates_m)]
    cells = ([list(name_row)] + ([list(desc_row)] if with_descriptions else []) + rows)
    num_q = K.array("q_numbers", (4, 3))          # the numeric reader returns every row of the sheet for the block's columns
    num_m = K.array("m_numbers", (4, 1))
    asked = []

    def read_array(file_name, block, num_header_rows, *a, **k):
        start = K.attr(block, "column_start")
        asked.append((start, K.attr(block, "num_columns"), num_header_rows))
        if start == 9:
            return np.full((4, 2), np.nan)
        return num_q if start == 1 else num_m
    db = K.stubbed(IMP._read_csv, lambda *a, **k: [list(r) for r in cells], "the cells of the sheet (reading them has its own contract)",
                   lambda: K.stubbed(IMP._read_array_for_block, read_array, "numpy.genfromtxt on the file: external; represented by arbitrary numbers",
                                     lambda: K.call(Databox.from_csv_file, "sheet.csv", description_row=with_descriptions)))
    K.ensure("the numeric reader is asked for the columns of each block, below the header rows",
             sorted(asked) == [(1, 4, 1 + int(with_descriptions)), (6, 2, 1 + int(with_descriptions)), (9, 2, 1 + int(with_descriptions))])
    K.ensure("the four series arrive under their names", sorted(K.method(db, "get_names")) == ["a", "b", "c", "e"])
    if "e" in K.method(db, "get_names"):
        e = K.index(db, "e")
        es, ed = state(K, e)
        K.ensure("the series without observations comes back as the empty series", es is None and K.shape(ed)[0] == 0)
        if with_descriptions:
            K.ensure("... with its description", K.method(e, "get_description") == "empty one")
    for name, cls, start, nrows, src, cols, desc in (("a", D.QuarterlyPeriod, D.qq(2020, 3).serial, 2, num_q, (0,), "first"),
                                                     ("b", D.QuarterlyPeriod, D.qq(2020, 3).serial, 2, num_q, (1, 2), "second"),
                                                     ("c", D.MonthlyPeriod, D.mm(2021, 1).serial, 4, num_m, (0,), "third")):
        s = K.index(db, name)
        ss, sd = state(K, s)
        K.ensure(f"{name}: number of variants", K.shape(sd)[1] == len(cols))
        if with_descriptions:
            K.ensure(f"{name}: description", K.method(s, "get_description") == desc)
        for i in range(nrows):
            for v, col in enumerate(cols):
                want = K.cell(src, i, col)
                if ss is None:
                    K.ensure(f"{name}: row {i}, variant {v} (series came back empty: every cell must have been missing)", K.cell_is_nan(want))
                else:
                    K.ensure(f"{name}: frequency", K.cls_of(K.attr(s, "start")) is cls)
                    K.ensure(f"{name}: period {i}, variant {v}", K.cell_eq(V(K, ss, sd, start + i, v), want))


# ------------------------------------------------------------------------------ Databox.merge / by_merging with a strategy for duplicate names
from irispie.databoxes import _merge as MRG
from irispie import wrongdoings as _W
PMG = "irispie.databoxes._merge:"


@contract("C19", targets=[PMG + "_merge", PMG + "_by_merging", PMG + "_merge_stack", PMG + "_merge_replace", PMG + "_merge_discard", PMG + "_merge_report",
                          "irispie.series.main:Series.hstack"],
          instances=[(s, via) for s in ("stack", "replace", "discard", "error") for via in ("merge", "by_merging")], cross=2, opts={"max_paths": 3000})
def merging_databoxes_by_strategy(K, strategy, via):
    """self.merge([b, c], strategy) / Databox.by_merging([b, c], strategy): names held by one source are carried over;
    for a name held by both, "stack" puts the values side by side (series: variants next to each other on the union of
    their periods; lists joined; other values collected in a list), "replace" keeps the later, "discard" the earlier, and
    "error" raises naming the duplicates.  The databoxes merged FROM keep their items and the values of their lists."""
    cls = D.QuarterlyPeriod
    sb, sbs, sbd = mk_series(K, "sb", cls, 1)
    sc, scs, scd = mk_series(K, "sc", cls, 1)
    Lb, Lc = [1], [2, 3]
    ob, oc = Opaque("only_b"), Opaque("only_c")
    b = K.call(Databox)
    c = K.call(Databox)
    for db, items in ((b, (("L", Lb), ("k", 5), ("s", sb), ("only_b", ob))), (c, (("L", Lc), ("k", 6), ("s", sc), ("only_c", oc)))):
        for n, v in items:
            K.setitem(db, n, v)

    def run():
        if via == "merge":
            a = K.call(Databox)
            K.method(a, "merge", [b, c], strategy)
            return a
        return K.call(Databox.by_merging, [b, c], strategy)
    if strategy == "error":
        K.raises(_W.IrisPieError, run, "duplicate names are reported")
    else:
        a = run()
        m = view(K, a)
        K.ensure("union of names", set(m) == {"L", "k", "s", "only_b", "only_c"})
        K.ensure("names held by one source are carried over", m["only_b"] is ob and m["only_c"] is oc)
        if strategy == "stack":
            K.ensure("lists are joined, other values collected", list(K.items(m["L"])) == [1, 2, 3] and list(K.items(m["k"])) == [5, 6])
            rs, rd = state(K, m["s"])
            t = K.int("t", 7960, 8120)
            K.instantiate(t)
            K.ensure("series: two variants", K.shape(rd)[1] == 2)
            K.ensure("series: first variant from the earlier source, period by period", K.cell_eq(V(K, rs, rd, t, 0), V(K, sbs, sbd, t, 0)))
            K.ensure("series: second variant from the later source, period by period", K.cell_eq(V(K, rs, rd, t, 1), V(K, scs, scd, t, 0)))
        elif strategy == "replace":
            K.ensure("the later source wins", m["L"] is Lc and m["k"] == 6 and m["s"] is sc)
        else:
            K.ensure("the earlier source wins", list(K.items(m["L"])) == [1] and m["k"] == 5 and m["s"] is sb)
    K.ensure("the sources keep their items", K.index(b, "L") is Lb and K.index(c, "L") is Lc and K.index(b, "k") == 5 and K.index(c, "k") == 6
             and K.index(b, "s") is sb and K.index(c, "s") is sc and set(view(K, b)) == {"L", "k", "s", "only_b"} and set(view(K, c)) == {"L", "k", "s", "only_c"})
    K.ensure("... and the values of their lists", list(K.items(Lb)) == [1] and list(K.items(Lc)) == [2, 3])
