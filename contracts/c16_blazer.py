"""C16 - block decomposition of an incidence matrix is a valid sequential ordering.

Deductive core (all matrix sizes): the loop of _generate_inner_blocks is verified by a loop contract - its own
cut test certifies that each yielded block's rows have no incidence to the right of the block, and the loop
state stays the trailing principal sub-matrix (so the statement holds for every block by induction over the
iterations); Block keeps its id sets; is_sequential is exactly 'nothing above the diagonal';
reorder_equations applies a permutation or raises before touching the model.  The combinatorial pre-passes
(prefetch, _split_ids, triangularize_inner_block: numpy where/delete/argsort on data-dependent shapes) are
outside the engine's reach and are covered by the exhaustive bounded stand-in over ALL matrices with a perfect
matching for n <= 4 (the bound the property itself names) - never counted as proved."""
import itertools
import re
import numpy as np
from pyvc.prove import contract
from pyvc.bounded import bounded
from irispie.incidences import blazer as BZ
import irispie as ir

PB = "irispie.incidences.blazer:"


@contract("C16", targets=[PB + "_generate_inner_blocks"], instances=[()], cross=0, opts={"max_paths": 500})
def inner_block_cut_is_certified(K):
    """Loop contract.  Invariant Inv(off): im == IM0[off:, off:], eids == eids0[off:], qids == qids0[off:].
    Step: from Inv(off) with rows remaining, the body yields Block(eids0[off:off+k], qids0[off:off+k]) with k >= 1
    such that IM0[r, c] is False for every off <= r < off+k <= c (the block's equations involve only its own and
    earlier inner quantities), and re-establishes Inv(off+k)."""
    n = K.int("n", 1, None)
    off = K.int("off", 0, None)
    K.assume(off < n)
    IM0 = K.array("IM", (n, n), kind="bool")
    e0 = K.seq("eid", n)
    q0 = K.seq("qid", n)
    # init: the code before the loop only re-tuples the ids -> Inv(0)
    h0 = K.run_prefix(BZ._generate_inner_blocks, IM0, e0, q0)
    i0 = K.int("i0", 0, None)
    K.assume(i0 < n)
    K.ensure("init: Inv(0)", K.And(K.seq_len(K.local(h0, "eids")) == n, K.seq_at(K.local(h0, "eids"), i0) == K.seq_at(e0, i0),
                                   K.seq_at(K.local(h0, "qids"), i0) == K.seq_at(q0, i0), K.local(h0, "im") is IM0))
    # step from an arbitrary state satisfying Inv(off)
    h = K.loop_frame(BZ._generate_inner_blocks, {"im": K.array_view(IM0, off, off), "eids": K.seq_slice(e0, off), "qids": K.seq_slice(q0, off)})
    K.ensure("rows remain -> the loop continues", K.loop_test(h))
    blocks = K.capture(BZ.Block, "__init__", lambda: K.loop_body(h))
    K.ensure("exactly one block is yielded per iteration", len(blocks) == 1 and len(K.yielded(h)) == 1)
    (_, be, bq), _ = blocks[0]
    k = K.seq_len(be)
    K.ensure("block is square and non-empty", K.And(k >= 1, k <= n - off, K.seq_len(bq) == k))
    i = K.int("i", 0, None)
    K.assume(i < k)
    K.ensure("block ids are the next k ids", K.And(K.seq_at(be, i) == K.seq_at(e0, off + i), K.seq_at(bq, i) == K.seq_at(q0, off + i)))
    r = K.int("r", 0, None)
    c = K.int("c", 0, None)
    K.assume(K.And(off <= r, r < off + k, off + k <= c, c < n))
    K.ensure("cut certified: no incidence of the block's equations in later quantities", K.Not(K.bool_cell(IM0, r, c)))
    im2, e2, q2 = K.local(h, "im"), K.local(h, "eids"), K.local(h, "qids")
    rr = K.int("rr", 0, None)
    cc = K.int("cc", 0, None)
    K.assume(K.And(rr < n - off - k, cc < n - off - k))
    K.ensure("Inv(off+k): trailing principal sub-matrix", K.And(K.shape(im2)[0] == n - off - k, K.shape(im2)[1] == n - off - k,
                                                               K.bool_cell(im2, rr, cc) == K.bool_cell(IM0, off + k + rr, off + k + cc)))
    K.ensure("Inv(off+k): remaining ids", K.And(K.seq_len(e2) == n - off - k, K.seq_len(q2) == n - off - k,
                                                K.seq_at(e2, rr) == K.seq_at(e0, off + k + rr), K.seq_at(q2, rr) == K.seq_at(q0, off + k + rr)))


@contract("C16", targets=[PB + "_generate_inner_blocks"], instances=[()], cross=0)
def inner_blocks_loop_exit(K):
    """Exit: with no rows left the loop stops and nothing more is yielded (the blocks partition all inner ids)."""
    n = K.int("n", 0, None)
    IM0 = K.array("IM", (n, n), kind="bool")
    h = K.loop_frame(BZ._generate_inner_blocks, {"im": K.array_view(IM0, n, n), "eids": K.seq_slice(K.seq("eid", n), n), "qids": K.seq_slice(K.seq("qid", n), n)})
    K.ensure("Inv(n) -> loop terminates", K.Not(K.loop_test(h)) if K.symbolic else True)
    K.ensure("no ids left over", K.And(K.seq_len(K.local(h, "eids")) == 0, K.seq_len(K.local(h, "qids")) == 0))


@contract("C16", targets=[PB + "Block.__init__", PB + "Block.num_equations", PB + "Block.num_quantities"], instances=[(1,), (2,), (3,)])
def block_keeps_its_id_sets(K, m):
    es = tuple(K.int(f"e{i}", 0, 50) for i in range(m))
    qs = tuple(K.int(f"q{i}", 0, 50) for i in range(m))
    b = K.call(BZ.Block, es, qs)
    be, bq = K.items(K.attr(b, "eids")), K.items(K.attr(b, "qids"))
    K.ensure("same number of ids", len(be) == m and len(bq) == m)
    for lst, src in ((be, es), (bq, qs)):
        K.ensure("ids sorted", K.And(*[lst[i] <= lst[i + 1] for i in range(m - 1)]) if m > 1 else True)
        K.ensure("same multiset of ids", K.And(*[K.Or(*[x == y for y in lst]) for x in src], *[K.Or(*[x == y for y in src]) for x in lst],
                                               *[sum(K.ite(x == y, 1, 0) for y in lst) == sum(K.ite(x == y, 1, 0) for y in src) for x in src]))
    K.ensure("square", K.And(K.getattr(b, "num_equations") == m, K.getattr(b, "num_quantities") == m))


@contract("C16", targets=[PB + "is_sequential"], instances=[()])
def is_sequential_means_nothing_above_the_diagonal(K):
    n = K.int("n", 1, None, sample=(1, 4))
    im = K.array("IM", (n, n), kind="bool")
    res = K.truth(K.call(BZ.is_sequential, im))
    r = K.int("r", 0, None, sample=(0, 3))
    c = K.int("c", 0, None, sample=(0, 3))
    K.assume(K.And(r < n, c < n, c > r))
    K.ensure("sequential => equation r does not use the lhs of a later equation", K.Implies(res, K.Not(K.bool_cell(im, r, c))))
    K.ensure("an incidence above the diagonal => not sequential", K.Implies(K.bool_cell(im, r, c), K.Not(res)))


SEQ3 = "!equations\n a = b + z;\n b = 2*c;\n c = 0.5*c[-1] + z[-1];\n"


@contract("C16", targets=["irispie.sequentials._invariants:Invariant.reorder_equations", "irispie.sequentials.main:Sequential.reorder_equations"],
          instances=[()], opts={"max_paths": 400})
def reorder_applies_a_permutation_or_raises_untouched(K):
    """reorder_equations(new_order): a permutation is applied as given; anything else raises ValueError BEFORE the
    model is modified (so a failed sequentialize leaves the model untouched)."""
    m = ir.Sequential.from_string(SEQ3)
    inv = K.lift(m._invariant)
    before = list(K.items(K.attr(inv, "explanatories")))
    names_before = K.attr(inv, "lhs_names")
    o = [K.int(f"o{i}", -1, 3) for i in range(3)]
    perm = K.And(*[K.And(x >= 0, x <= 2) for x in o], o[0] != o[1], o[0] != o[2], o[1] != o[2])
    if K.branch(perm):
        K.method(inv, "reorder_equations", list(o))
        after = list(K.items(K.attr(inv, "explanatories")))
        for i in range(3):
            K.ensure(f"position {i} holds old equation new_order[{i}]", K.And(*[K.Implies(o[i] == j, after[i] is before[j]) for j in range(3)]))
    else:
        K.raises(ValueError, lambda: K.method(inv, "reorder_equations", list(o)), "non-permutation rejected")
        after = list(K.items(K.attr(inv, "explanatories")))
        K.ensure("model untouched after the rejected reordering", len(after) == 3 and all(x is y for x, y in zip(after, before)) and tuple(K.attr(inv, "lhs_names")) == tuple(names_before))


@contract("C16", targets=["irispie.sequentials._invariants:Invariant.reorder_equations"], instances=[(2,), (1,), (0,), (4,)], opts={"max_paths": 400})
def reorder_rejects_an_order_of_the_wrong_length(K, length):
    """A 'new order' that does not list every equation exactly once is not an order - also when all its entries are
    valid and distinct (sequentialize_strictly hands over only the equations it managed to order when the model has a
    contemporaneous loop): ValueError, model untouched."""
    m = ir.Sequential.from_string(SEQ3)
    inv = K.lift(m._invariant)
    before = list(K.items(K.attr(inv, "explanatories")))
    o = [K.int(f"o{i}", 0, 2) for i in range(length)]
    K.raises(ValueError, lambda: K.method(inv, "reorder_equations", list(o)), "an order that is not a permutation of all equations is rejected")
    after = list(K.items(K.attr(inv, "explanatories")))
    K.ensure("model untouched after the rejected reordering", len(after) == 3 and all(x is y for x, y in zip(after, before)))


@contract("C16", targets=[PB + "is_sequential"], instances=[()], canary=True)
def canary_lower_triangle(K):
    n = 3        # fixed size: the refutation needs a concrete matrix, and a symbolic size made z3 search 40 s for it
    im = K.array("IM", (n, n), kind="bool")
    res = K.truth(K.call(BZ.is_sequential, im))
    r = K.int("r", 0, None, sample=(0, 3))
    c = K.int("c", 0, None, sample=(0, 3))
    K.assume(K.And(r < n, c < n, c < r))
    K.ensure("WRONG: sequential forbids incidences BELOW the diagonal", K.Implies(res, K.Not(K.bool_cell(im, r, c))))


# ------------------------------------------------------------------------------ bounded stand-ins (NOT proofs)
def _has_perfect_matching(im):
    n = im.shape[0]
    return any(all(im[r, p[r]] for r in range(n)) for p in itertools.permutations(range(n)))


def _check_blocks(im, eids, qids, blocks):
    """The property's own statement, checked on one decomposition.  Returns an error string or None."""
    row_of = {e: i for i, e in enumerate(eids)}
    col_of = {q: i for i, q in enumerate(qids)}
    all_e = [e for b in blocks for e in b.eids]
    all_q = [q for b in blocks for q in b.qids]
    if sorted(all_e) != sorted(eids) or sorted(all_q) != sorted(qids):
        return "blocks do not partition the equations/quantities"
    seen_q = set()
    for b in blocks:
        if len(b.eids) != len(b.qids) or not b.eids:
            return "block is not square"
        sub = im[np.ix_([row_of[e] for e in b.eids], [col_of[q] for q in b.qids])]
        if not _has_perfect_matching(sub):
            return "block is structurally singular"
        allowed = seen_q | set(b.qids)
        for e in b.eids:
            used = {qids[c] for c in np.nonzero(im[row_of[e], :])[0]}
            if not used <= allowed:
                return "a block's equation uses a quantity of a later block"
        seen_q |= set(b.qids)
    return None


@bounded("C16", bound="ALL boolean square matrices with a perfect matching for n <= 4 (quick: all n <= 3 and every 5th of n = 4) x 2 id labelings (identity, reversed/offset); plus 300 (3000) random matrices with n in 5..8")
def blaze_is_a_valid_block_ordering_native(B):
    rng = B.rng
    for n in (1, 2, 3, 4):
        cells = n * n
        stride = 1 if (n < 4 or B.thorough) else 5
        for code in range(0, 2 ** cells, stride):
            im = np.array([(code >> k) & 1 for k in range(cells)], dtype=bool).reshape(n, n)
            if not _has_perfect_matching(im):
                continue
            for eids, qids in ((tuple(range(n)), tuple(range(n))), (tuple(range(10 + n, 10, -1)), tuple(range(20, 20 + 2 * n, 2)))):
                B.case()
                try:
                    blocks = BZ.blaze(im.copy(), eids, qids)
                except Exception as ex:
                    B.fail(f"exception {type(ex).__name__}: {ex}", {"im": im.astype(int).tolist(), "eids": eids, "qids": qids})
                    return
                err = _check_blocks(im, eids, qids, blocks)
                if err:
                    B.fail(err, {"im": im.astype(int).tolist(), "eids": eids, "qids": qids, "blocks": [(b.eids, b.qids) for b in blocks]})
                    return
    for _ in range(3000 if B.thorough else 300):
        n = rng.randint(5, 8)
        perm = list(range(n))
        rng.shuffle(perm)
        im = np.zeros((n, n), dtype=bool)
        for r in range(n):
            im[r, perm[r]] = True
        dens = rng.choice([0.05, 0.15, 0.4])
        im |= np.array([[rng.random() < dens for _ in range(n)] for _ in range(n)])
        if rng.random() < 0.4:
            im = np.tril(im) | np.eye(n, dtype=bool)
            pr, pc = list(range(n)), list(range(n))
            rng.shuffle(pr)
            rng.shuffle(pc)
            im = im[np.ix_(pr, pc)]
        eids = tuple(rng.sample(range(100), n))
        qids = tuple(rng.sample(range(100), n))
        B.case()
        blocks = BZ.blaze(im.copy(), eids, qids)
        err = _check_blocks(im, eids, qids, blocks)
        if err:
            B.fail(err, {"im": im.astype(int).tolist(), "eids": eids, "qids": qids})
            return
    return {"exhaustive_within_bound": bool(B.thorough)}


@bounded("C16", bound="all Sequential models with 3 equations x/y/z whose right-hand sides use any subset of the other two left-hand variables at zero shift (64 models) x lagged variants")
def sequentialize_orders_or_raises_untouched_native(B):
    """sequentialize returns an order in which every lhs used at zero shift is determined earlier, or raises and
    leaves the model untouched when no such order exists."""
    names = ("x", "y", "z")
    for mask in range(64):
        uses = {n: [m for j, m in enumerate([o for o in names if o != n]) if (mask >> (2 * i + j)) & 1] for i, n in enumerate(names)}
        for lagged in (False, True):
            B.case()
            src = "!equations\n" + "".join(f" {n} = 1 + w[-1]" + "".join(f" + {u}" for u in uses[n]) + (f" + {n}[-1]" if lagged else "") + ";\n" for n in names)
            m = ir.Sequential.from_string(src)
            before = tuple(m.equation_strings)
            # does an order exist?  (acyclic dependency graph at zero shift)
            order_exists = any(all(all(p.index(u) < p.index(n) for u in uses[n]) for n in names) for p in itertools.permutations(names))
            try:
                m.sequentialize()
                raised = False
            except Exception:
                raised = True
            after = tuple(m.equation_strings)
            if raised:
                if order_exists:
                    B.fail("sequentialize raised although a sequential order exists", {"source": src})
                    return
                if after != before:
                    B.fail("sequentialize raised but modified the model", {"source": src})
                    return
            else:
                lhs = [s.split("=")[0].strip() for s in after]
                ok = all(all(lhs.index(u) < lhs.index(n) for u in uses[n]) for n in names)
                if not ok:
                    B.fail("sequentialize returned an order in which a lhs is used before it is determined" if order_exists
                           else "sequentialize silently reordered a model that has no sequential order", {"source": src, "order": lhs})
                    return


@bounded("C16", bound="steady incidence matrix of a 3-equation model for every ordered selection of 3 of its 5 quantity ids as unknowns")
def steady_incidence_matrix_columns_native(B):
    """_calculate_steady_incidence_matrix: im[r, c] is True iff equation r contains a token of quantity wrt_qids[c]."""
    from irispie.simultaneous import _steady as ST
    src = "!transition_variables\n x, y, z\n!parameters\n a, b\n!transition_equations\n x = a*y[-1];\n y = b + z;\n z = a*x + b*z[-1];\n"
    m = ir.Simultaneous.from_string(src)
    eqs = tuple(m._invariant.steady_equations) if hasattr(m._invariant, "steady_equations") else tuple(m._invariant.dynamic_equations)
    all_qids = sorted({t.qid for e in eqs for t in e.incidence})
    for qids in itertools.permutations(all_qids, 3):
        B.case()
        im = ST._calculate_steady_incidence_matrix(eqs, qids)
        want = np.array([[any(t.qid == q for t in e.incidence) for q in qids] for e in eqs], dtype=bool)
        if im.shape != want.shape or not np.array_equal(im.astype(bool), want):
            B.fail("steady incidence matrix column does not correspond to the listed quantity", {"qids": qids, "got": im.astype(int).tolist(), "want": want.astype(int).tolist()})
            return


@contract("C16", targets=[PB + "_split_ids"], instances=[(n, m) for n in (1, 2, 3, 4) for m in range(0, n + 1) if m <= 3], opts={"max_paths": 3000})
def split_ids_pairs_in_index_order(K, n, m):
    """_split_ids(ids, index): extracted[j] == ids[index[j]] in the GIVEN index order (this is what pairs a prefetched
    equation with its own quantity); remaining keeps every other id once, in position order."""
    ids = tuple(K.int(f"id{i}", 0, 99) for i in range(n))
    index = [K.int(f"ix{j}", 0, n - 1) for j in range(m)]
    K.assume(K.And(*[index[a] != index[b] for a in range(m) for b in range(a + 1, m)]) if m > 1 else True)
    extracted, remaining = K.call(BZ._split_ids, ids, index)
    ex, rem = K.items(extracted), K.items(remaining)
    K.ensure("sizes", len(ex) == m and len(rem) == n - m)
    for j in range(len(ex)):
        K.ensure(f"extracted[{j}] == ids[index[{j}]]", K.And(*[K.Implies(index[j] == p, ex[j] == ids[p]) for p in range(n)]))
    # remaining: the k-th position not in index, in increasing position order
    for p in range(n):
        sel = K.Or(*[index[j] == p for j in range(m)]) if m else False
        rank = sum(K.ite(K.Or(*[index[j] == q for j in range(m)]) if m else False, 0, 1) for q in range(p))
        for k in range(len(rem)):
            K.ensure(f"position {p} kept as remaining[{k}] when it is the {k}-th unselected position", K.Implies(K.And(K.Not(sel), rank == k), rem[k] == ids[p]))


# ------------------------------------------------------------------------------ the incidence matrix handed to the block analysis
from irispie import equations as EQS
from irispie.incidences.main import Token as _Token


class _Eq:
    """harness equation: only the incidence tokens matter here"""
    def __init__(self, incidence):
        self.incidence = incidence


@contract("C16", targets=["irispie.equations:calculate_incidence_matrix"], instances=[(0,), (1,), (2,)], opts={"max_paths": 200})
def incidence_matrix_has_a_cell_for_every_token(K, variant):
    """Cell (i, j) of the incidence matrix is True iff some incidence token of equation i is mapped to column j by the
    caller's column function (None = not a column of this analysis) - for every column, column 0 included."""
    tokens = {0: [[(5, 0), (7, -1), (9, 0)], [(7, 0)], [(9, 1), (5, -2), (3, 0)]],
              1: [[(3, 0)], [(5, 0), (3, -1)], [(9, 0)], [(7, 0), (7, -1)]],
              2: [[], [(3, 0), (5, 0), (7, 0), (9, 0)]]}[variant]
    col_of = {3: 0, 5: 1, 7: 2, 9: None} if variant != 1 else {3: 2, 5: 0, 7: None, 9: 1}        # qid -> column (None: not among the unknowns)
    ncols = 3
    eqs = [K.obj(_Eq, incidence=tuple(_Token(q, s) for q, s in toks)) for toks in tokens]
    im = K.call(EQS.calculate_incidence_matrix, eqs, ncols, K.callable(lambda tok: col_of[tok[0]]))       # Token = (qid, shift)
    K.ensure("shape", K.shape(im) == (len(tokens), ncols))
    for i, toks in enumerate(tokens):
        for j in range(ncols):
            want = any(col_of[q] == j for q, _ in toks)
            K.ensure(f"cell ({i},{j})", K.bool_cell(im, i, j) == want)


# ------------------------------------------------------------------------------ prefetch: how the recursion levels are merged
@contract("C16", targets=[PB + "prefetch"], instances=[()], cross=0)
def prefetch_orders_deeper_singletons_inside_the_outer_ones(K):
    """One recursion step of prefetch with its three callees replaced by stubs (STUB assumptions in the evidence):
    singletons that can go FIRST found at a deeper level follow the outer ones (they may use the outer quantities);
    singletons that can go LAST found at a deeper level PRECEDE the outer ones (the outer equations may use their
    quantities: a 'last' quantity occurs in no other REMAINING equation, but the equations already peeled off are not
    among the remaining ones)."""
    if not K.symbolic:
        return
    im4 = K.array("IM", (4, 4), kind="bool")
    im3, im2, im0 = K.array("IM3", (3, 3), kind="bool"), K.array("IM2", (2, 2), kind="bool"), K.array("IM0", (0, 0), kind="bool")
    depth = [0]

    def rec(im, eids=None, qids=None):
        depth[0] += 1
        if depth[0] == 1:
            return K.DECLINE
        return ((12,), (22,), (13,), (23,), (), (), im0)          # deeper level: first (12 | 22), last (13 | 23), nothing remains
    r = K.stubbed(BZ._prefetch_first, lambda im, eids, qids: ((10,), (20,), (11, 12, 13), (21, 22, 23), im3), "outer level: equation 10 / quantity 20 can go first",
                  lambda: K.stubbed(BZ._prefetch_last, lambda im, eids, qids: ((11,), (21,), (12, 13), (22, 23), im2), "outer level: equation 11 / quantity 21 can go last",
                                    lambda: K.stubbed(BZ.prefetch, rec, "deeper level of the recursion", lambda: K.call(BZ.prefetch, im4, eids=(10, 11, 12, 13), qids=(20, 21, 22, 23)))))
    ef, qf, el, ql, er, qr, imr = r
    K.ensure("first: outer then deeper", tuple(ef) == (10, 12) and tuple(qf) == (20, 22))
    K.ensure("last: deeper then outer", tuple(el) == (13, 11) and tuple(ql) == (23, 21))
    K.ensure("what remains is what the deepest level left", tuple(er) == () and tuple(qr) == () and K.shape(imr) == (0, 0))


@contract("C16", targets=[PB + "_prefetch_first", PB + "_prefetch_last", PB + "_split_ids"], instances=[("first", 3), ("last", 3)], opts={"max_paths": 4000})
def prefetch_level_peels_exactly_the_singletons(K, which, n):
    """One level of prefetch on an n x n incidence matrix (every entry symbolic): 'first' peels the equations with exactly
    one incidence together with the quantity of that incidence, 'last' the quantities occurring in exactly one equation
    together with that equation; ids are reported in index order, the remaining ids keep their order, and the remaining
    matrix is the original without the peeled rows and columns."""
    im = K.array("IM", (n, n), kind="bool")
    eids, qids = tuple(range(100, 100 + n)), tuple(range(200, 200 + n))
    fn = BZ._prefetch_first if which == "first" else BZ._prefetch_last
    e_x, q_x, e_rem, q_rem, im_rem = K.call(fn, im, eids, qids)
    cell = (lambda i, j: K.bool_cell(im, i, j)) if which == "first" else (lambda i, j: K.bool_cell(im, j, i))       # 'last' is 'first' on the transpose
    lines_ids, cross_ids = (eids, qids) if which == "first" else (qids, eids)
    got_lines, got_cross = (list(e_x), list(q_x)) if which == "first" else (list(q_x), list(e_x))
    rem_lines, rem_cross = (list(e_rem), list(q_rem)) if which == "first" else (list(q_rem), list(e_rem))
    # on this path the singleton pattern is decided (the code branched on it): read it back from the result
    single = [i for i in range(n) if lines_ids[i] in got_lines]
    for i in range(n):
        count = sum(K.ite(cell(i, j), 1, 0) if K.symbolic else int(cell(i, j)) for j in range(n))
        K.ensure(f"line {i} is peeled iff it has exactly one incidence", (count == 1) == (i in single))
    K.ensure("peeled lines are reported in index order", got_lines == [lines_ids[i] for i in single])
    K.ensure("remaining lines keep their order", rem_lines == [lines_ids[i] for i in range(n) if i not in single])
    K.ensure("one partner is reported for every peeled line", len(got_cross) == len(single))
    if len(got_cross) != len(single):
        return
    cols = []
    for k, i in enumerate(single):
        j = cross_ids.index(got_cross[k]) if got_cross[k] in cross_ids else None
        K.ensure(f"peeled line {i}: the partner reported is the one incidence of that line", j is not None and cell(i, j))
        cols.append(j)
    K.ensure("remaining partners are the ones not peeled, in order", rem_cross == [cross_ids[j] for j in range(n) if j not in cols])
    keep_l, keep_c = [i for i in range(n) if i not in single], [j for j in range(n) if j not in cols]
    shape = (len(keep_l), len(keep_c)) if which == "first" else (len(keep_c), len(keep_l))
    K.ensure("shape of the remaining matrix", K.shape(im_rem) == shape)
    if K.shape(im_rem) == shape:
        for a, i in enumerate(keep_l):
            for b, j in enumerate(keep_c):
                got = K.bool_cell(im_rem, a, b) if which == "first" else K.bool_cell(im_rem, b, a)
                K.ensure(f"remaining cell ({a},{b}) is original cell ({i},{j})", got == cell(i, j))


# ------------------------------------------------------------------------------ which equations and unknowns form the steady system
from irispie.simultaneous import _steady as STD
AUTO_SRC = "!transition-variables\n a, b, c, d\n!parameters\n p, q, r, s\n!transition-shocks\n e\n!measurement-variables\n y\n" \
           "!transition-equations\n a = p*b + c[-1];\n b = q + d + e;\n c = a + b + c[+1]/2;\n d = p;\n" \
           "!steady-autovalues\n r = a + 1;\n s = 2*d;\n!measurement-equations\n y = a + d;\n"


@contract("C16", targets=["irispie.simultaneous._steady:_resolve_steady_wrt", "irispie.simultaneous._steady:_calculate_steady_incidence_matrix"],
          instances=[(False,), (True,), ("fix_level",), ("swap and fix_level",)], cross=0, opts={"max_paths": 200})
def steady_system_is_square_and_made_of_the_model_equations(K, with_plan):
    """The system handed to the block analysis consists of the transition and measurement equations (NOT the
    !steady-autovalues, which are evaluated after the solution) and of as many unknowns: the endogenous variables, with
    exogenized ones swapped for the endogenized parameters of a steady plan."""
    m = ir.Simultaneous.from_string(AUTO_SRC)
    plan = None
    unknowns = ["a", "b", "c", "d", "y"]
    if with_plan:
        plan = ir.SteadyPlan(m)
        if with_plan != "fix_level":
            plan.exogenize("d")
            plan.endogenize("p")
            unknowns = ["a", "b", "c", "p", "y"]
        if with_plan in ("fix_level", "swap and fix_level"):
            plan.fix_level("a")       # a fixed level stays a column of the system handed to the block analysis (its value is held, its equation remains)
    wrt = K.call(STD._resolve_steady_wrt, K.lift(m), K.lift(plan) if plan is not None else None, is_flat=True)
    n2q = m.create_name_to_qid()
    fields = list(STD._Wrt._fields)
    w_equations, w_qids = wrt[fields.index("equations")], wrt[fields.index("qids")]        # _Wrt is a named tuple
    eqs = list(K.items(w_equations))
    humans = [K.attr(e, "human") for e in eqs]
    K.ensure("the equations are the transition and measurement equations", sorted(humans) == sorted(["a=p*b+c[-1]", "b=q+d+e", "c=a+b+c[+1]/2", "d=p", "y=a+d"]))
    K.ensure("the unknowns", tuple(w_qids) == tuple(sorted(n2q[n] for n in unknowns)))
    K.ensure("square system", len(eqs) == len(tuple(w_qids)))
    im = K.call(STD._calculate_steady_incidence_matrix, w_equations, w_qids)
    K.ensure("incidence matrix: one row per equation, one column per unknown", K.shape(im) == (5, 5))
    qids = list(w_qids)
    q2n = {v: k for k, v in n2q.items()}
    for i, h in enumerate(humans):
        for j, q in enumerate(qids):
            name = q2n[q]
            occurs = re.search(r"(?<![A-Za-z_0-9])" + re.escape(name) + r"(?![A-Za-z_0-9])", h) is not None
            K.ensure(f"incidence of {name} in '{h}' (at any lag or lead)", K.bool_cell(im, i, j) == occurs)


@contract("C16", targets=["irispie.sequentials._invariants:Invariant.reorder_equations", "irispie.sequentials.main:Sequential.reorder_equations",
                          "irispie.sequentials.main:Sequential.incidence_matrix", "irispie.sequentials.main:Sequential.is_sequential",
                          "irispie.sequentials._invariants:Invariant.finalize_explanatories", "irispie.sequentials._invariants:Invariant.collect_names",
                          "irispie.explanatories.main:Explanatory.finalize", "irispie.equations:Equation.finalize"],
          instances=[()], opts={"max_paths": 400})
def incidence_follows_the_new_order(K):
    """After reorder_equations(p) the incidence matrix the block ordering works from is the old one with rows AND columns
    permuted by p (equation p[i] in row i, its left-hand variable in column i), and is_sequential is judged on it - the
    stored tokens are rebuilt against the new numbering, not left over from the old one."""
    m = ir.Sequential.from_string(SEQ3)
    uses = [[True, True, False], [False, True, True], [False, False, True]]      # a = b + z; b = 2*c; c = 0.5*c[-1] + z[-1]
    ml = K.lift(m)
    o = [K.int(f"o{i}", 0, 2) for i in range(3)]
    K.assume(K.And(o[0] != o[1], o[0] != o[2], o[1] != o[2]))
    K.method(ml, "reorder_equations", list(o))
    im = K.getattr(ml, "incidence_matrix")
    K.ensure("shape", K.shape(im) == (3, 3))
    lower = []
    for i in range(3):
        for p in range(3):
            want = K.Or(*[K.And(o[i] == j, o[p] == l) for j in range(3) for l in range(3) if uses[j][l]])
            K.ensure(f"cell ({i},{p}) is the old cell (p[{i}], p[{p}])", K.bool_cell(im, i, p) == want)
            if p > i:
                lower.append(K.Not(want))
    K.ensure("is_sequential is judged on the reordered matrix", K.truth(K.getattr(ml, "is_sequential")) == K.And(*lower))


# ------------------------------------------------------------------------------ the order sequentialize() asks reorder_equations to apply
@contract("C16", targets=[PB + "sequentialize_strictly", PB + "prefetch", PB + "_prefetch_first", PB + "_prefetch_last", PB + "_split_ids"],
          instances=[(3,)], cross=4, opts={"max_paths": 6000})
def strict_sequential_order_or_an_incomplete_one(K, n):
    """sequentialize_strictly on the incidence matrix of a Sequential model (every equation contains its own left-hand
    variable: full diagonal; all other entries arbitrary): when it returns ALL equations, they are a permutation in
    which no equation uses a variable determined later; when no such order exists (a contemporaneous loop) what it
    returns is NOT a complete order - which reorder_equations (own contract) rejects, leaving the model untouched."""
    import itertools
    im = K.array("IM", (n, n), kind="bool")
    for i in range(n):
        K.assume(K.bool_cell(im, i, i))
    order = list(K.call(BZ.sequentialize_strictly, im))
    cell = lambda i, j: K.bool_cell(im, i, j)      # noqa: E731
    exists = K.Or(*[K.And(*[K.Not(cell(p[i], p[j])) for i in range(n) for j in range(i + 1, n)]) for p in itertools.permutations(range(n))])
    if len(order) == n and sorted(order) == list(range(n)):
        K.ensure("a complete order puts nothing above the diagonal", K.And(*[K.Not(cell(order[i], order[j])) for i in range(n) for j in range(i + 1, n)]))
    else:
        K.ensure("an incomplete answer only when no sequential order exists", K.Not(exists))
        K.ensure("... and it never pretends to be complete", not (len(order) == n and sorted(order) == list(range(n))))
    K.ensure("whenever a sequential order exists, a complete one is returned", K.Implies(exists, len(order) == n and sorted(order) == list(range(n))))
