"""C16 - block decomposition of an incidence matrix is a valid sequential ordering.

Deductive core (all matrix sizes): the loop of _generate_inner_blocks is verified by a loop contract - its own
cut test certifies that each yielded block's rows have no incidence to the right of the block, and the loop
state stays the trailing principal sub-matrix (so the statement holds for every block by induction over the
iterations); Block keeps its id sets; is_sequential is exactly 'nothing above the diagonal';
reorder_equations applies a permutation or raises before touching the model.  The combinatorial pre-passes
(prefetch, _split_ids, triangularize_inner_block: numpy where/delete/argsort on data-dependent shapes) are
outside the engine's reach and are covered by the exhaustive bounded stand-in over ALL matrices with a perfect
matching for n <= 4 (the bound the property itself names) - never counted as proved."""
import itertools
import numpy as np
from pyvc.prove import contract
from pyvc.bounded import bounded
from irispie.incidences import blazer as BZ
import irispie as ir

PB = "irispie.incidences.blazer:"


@contract("C16", targets=[PB + "_generate_inner_blocks"], instances=[()], cross=0, opts={"max_paths": 500})
def inner_block_cut_is_certified(K):
    """Loop contract.  Invariant Inv(off): im == IM0[off:, off:], eids == eids0[off:], qids == qids0[off:].
    Step: from Inv(off) with rows remaining, the body yields Block(eids0[off:off+k], qids0[off:off+k]) with k >= 1
    such that IM0[r, c] is False for every off <= r < off+k <= c (the block's equations involve only its own and
    earlier inner quantities), and re-establishes Inv(off+k)."""
    n = K.int("n", 1, None)
    off = K.int("off", 0, None)
    K.assume(off < n)
    IM0 = K.array("IM", (n, n), kind="bool")
    e0 = K.seq("eid", n)
    q0 = K.seq("qid", n)
    # init: the code before the loop only re-tuples the ids -> Inv(0)
    h0 = K.run_prefix(BZ._generate_inner_blocks, IM0, e0, q0)
    i0 = K.int("i0", 0, None)
    K.assume(i0 < n)
    K.ensure("init: Inv(0)", K.And(K.seq_len(K.local(h0, "eids")) == n, K.seq_at(K.local(h0, "eids"), i0) == K.seq_at(e0, i0),
                                   K.seq_at(K.local(h0, "qids"), i0) == K.seq_at(q0, i0), K.local(h0, "im") is IM0))
    # step from an arbitrary state satisfying Inv(off)
    h = K.loop_frame(BZ._generate_inner_blocks, {"im": K.array_view(IM0, off, off), "eids": K.seq_slice(e0, off), "qids": K.seq_slice(q0, off)})
    K.ensure("rows remain -> the loop continues", K.loop_test(h))
    blocks = K.capture(BZ.Block, "__init__", lambda: K.loop_body(h))
    K.ensure("exactly one block is yielded per iteration", len(blocks) == 1 and len(K.yielded(h)) == 1)
    (_, be, bq), _ = blocks[0]
    k = K.seq_len(be)
    K.ensure("block is square and non-empty", K.And(k >= 1, k <= n - off, K.seq_len(bq) == k))
    i = K.int("i", 0, None)
    K.assume(i < k)
    K.ensure("block ids are the next k ids", K.And(K.seq_at(be, i) == K.seq_at(e0, off + i), K.seq_at(bq, i) == K.seq_at(q0, off + i)))
    r = K.int("r", 0, None)
    c = K.int("c", 0, None)
    K.assume(K.And(off <= r, r < off + k, off + k <= c, c < n))
    K.ensure("cut certified: no incidence of the block's equations in later quantities", K.Not(K.bool_cell(IM0, r, c)))
    im2, e2, q2 = K.local(h, "im"), K.local(h, "eids"), K.local(h, "qids")
    rr = K.int("rr", 0, None)
    cc = K.int("cc", 0, None)
    K.assume(K.And(rr < n - off - k, cc < n - off - k))
    K.ensure("Inv(off+k): trailing principal sub-matrix", K.And(K.shape(im2)[0] == n - off - k, K.shape(im2)[1] == n - off - k,
                                                               K.bool_cell(im2, rr, cc) == K.bool_cell(IM0, off + k + rr, off + k + cc)))
    K.ensure("Inv(off+k): remaining ids", K.And(K.seq_len(e2) == n - off - k, K.seq_len(q2) == n - off - k,
                                                K.seq_at(e2, rr) == K.seq_at(e0, off + k + rr), K.seq_at(q2, rr) == K.seq_at(q0, off + k + rr)))


@contract("C16", targets=[PB + "_generate_inner_blocks"], instances=[()], cross=0)
def inner_blocks_loop_exit(K):
    """Exit: with no rows left the loop stops and nothing more is yielded (the blocks partition all inner ids)."""
    n = K.int("n", 0, None)
    IM0 = K.array("IM", (n, n), kind="bool")
    h = K.loop_frame(BZ._generate_inner_blocks, {"im": K.array_view(IM0, n, n), "eids": K.seq_slice(K.seq("eid", n), n), "qids": K.seq_slice(K.seq("qid", n), n)})
    K.ensure("Inv(n) -> loop terminates", K.Not(K.loop_test(h)) if K.symbolic else True)
    K.ensure("no ids left over", K.And(K.seq_len(K.local(h, "eids")) == 0, K.seq_len(K.local(h, "qids")) == 0))


@contract("C16", targets=[PB + "Block.__init__", PB + "Block.num_equations", PB + "Block.num_quantities"], instances=[(1,), (2,), (3,)])
def block_keeps_its_id_sets(K, m):
    es = tuple(K.int(f"e{i}", 0, 50) for i in range(m))
    qs = tuple(K.int(f"q{i}", 0, 50) for i in range(m))
    b = K.call(BZ.Block, es, qs)
    be, bq = K.items(K.attr(b, "eids")), K.items(K.attr(b, "qids"))
    K.ensure("same number of ids", len(be) == m and len(bq) == m)
    for lst, src in ((be, es), (bq, qs)):
        K.ensure("ids sorted", K.And(*[lst[i] <= lst[i + 1] for i in range(m - 1)]) if m > 1 else True)
        K.ensure("same multiset of ids", K.And(*[K.Or(*[x == y for y in lst]) for x in src], *[K.Or(*[x == y for y in src]) for x in lst],
                                               *[sum(K.ite(x == y, 1, 0) for y in lst) == sum(K.ite(x == y, 1, 0) for y in src) for x in src]))
    K.ensure("square", K.And(K.getattr(b, "num_equations") == m, K.getattr(b, "num_quantities") == m))


@contract("C16", targets=[PB + "is_sequential"], instances=[()])
def is_sequential_means_nothing_above_the_diagonal(K):
    n = K.int("n", 1, None, sample=(1, 4))
    im = K.array("IM", (n, n), kind="bool")
    res = K.truth(K.call(BZ.is_sequential, im))
    r = K.int("r", 0, None, sample=(0, 3))
    c = K.int("c", 0, None, sample=(0, 3))
    K.assume(K.And(r < n, c < n, c > r))
    K.ensure("sequential => equation r does not use the lhs of a later equation", K.Implies(res, K.Not(K.bool_cell(im, r, c))))
    K.ensure("an incidence above the diagonal => not sequential", K.Implies(K.bool_cell(im, r, c), K.Not(res)))


SEQ3 = "!equations\n a = b + z;\n b = 2*c;\n c = 0.5*c[-1] + z[-1];\n"


@contract("C16", targets=["irispie.sequentials._invariants:Invariant.reorder_equations", "irispie.sequentials.main:Sequential.reorder_equations"],
          instances=[()], opts={"max_paths": 400})
def reorder_applies_a_permutation_or_raises_untouched(K):
    """reorder_equations(new_order): a permutation is applied as given; anything else raises ValueError BEFORE the
    model is modified (so a failed sequentialize leaves the model untouched)."""
    m = ir.Sequential.from_string(SEQ3)
    inv = K.lift(m._invariant)
    before = list(K.items(K.attr(inv, "explanatories")))
    names_before = K.attr(inv, "lhs_names")
    o = [K.int(f"o{i}", -1, 3) for i in range(3)]
    perm = K.And(*[K.And(x >= 0, x <= 2) for x in o], o[0] != o[1], o[0] != o[2], o[1] != o[2])
    if K.branch(perm):
        K.method(inv, "reorder_equations", list(o))
        after = list(K.items(K.attr(inv, "explanatories")))
        for i in range(3):
            K.ensure(f"position {i} holds old equation new_order[{i}]", K.And(*[K.Implies(o[i] == j, after[i] is before[j]) for j in range(3)]))
    else:
        K.raises(ValueError, lambda: K.method(inv, "reorder_equations", list(o)), "non-permutation rejected")
        after = list(K.items(K.attr(inv, "explanatories")))
        K.ensure("model untouched after the rejected reordering", len(after) == 3 and all(x is y for x, y in zip(after, before)) and tuple(K.attr(inv, "lhs_names")) == tuple(names_before))


@contract("C16", targets=["irispie.sequentials._invariants:Invariant.reorder_equations"], instances=[(2,), (1,), (0,), (4,)], opts={"max_paths": 400})
def reorder_rejects_an_order_of_the_wrong_length(K, length):
    """A 'new order' that does not list every equation exactly once is not an order - also when all its entries are
    valid and distinct (sequentialize_strictly hands over only the equations it managed to order when the model has a
    contemporaneous loop): ValueError, model untouched."""
    m = ir.Sequential.from_string(SEQ3)
    inv = K.lift(m._invariant)
    before = list(K.items(K.attr(inv, "explanatories")))
    o = [K.int(f"o{i}", 0, 2) for i in range(length)]
    K.raises(ValueError, lambda: K.method(inv, "reorder_equations", list(o)), "an order that is not a permutation of all equations is rejected")
    after = list(K.items(K.attr(inv, "explanatories")))
    K.ensure("model untouched after the rejected reordering", len(after) == 3 and all(x is y for x, y in zip(after, before)))


@contract("C16", targets=[PB + "is_sequential"], instances=[()], canary=True)
def canary_lower_triangle(K):
    n = 3        # fixed size: the refutation needs a concrete matrix, and a symbolic size made z3 search 40 s for it
    im = K.array("IM", (n, n), kind="bool")
    res = K.truth(K.call(BZ.is_sequential, im))
    r = K.int("r", 0, None, sample=(0, 3))
    c = K.int("c", 0, None, sample=(0, 3))
    K.assume(K.And(r < n, c < n, c < r))
    K.ensure("WRONG: sequential forbids incidences BELOW the diagonal", K.Implies(res, K.Not(K.bool_cell(im, r, c))))


# ------------------------------------------------------------------------------ bounded stand-ins (NOT proofs)
def _has_perfect_matching(im):
    n = im.shape[0]
    return any(all(im[r, p[r]] for r in range(n)) for p in itertools.permutations(range(n)))


def _check_blocks(im, eids, qids, blocks):
    """The property's own statement, checked on one decomposition.  Returns an error string or None."""
    row_of = {e: i for i, e in enumerate(eids)}
    col_of = {q: i for i, q in enumerate(qids)}
    all_e = [e for b in blocks for e in b.eids]
    all_q = [q for b in blocks for q in b.qids]
    if sorted(all_e) != sorted(eids) or sorted(all_q) != sorted(qids):
        return "blocks do not partition the equations/quantities"
    seen_q = set()
    for b in blocks:
        if len(b.eids) != len(b.qids) or not b.eids:
            return "block is not square"
        sub = im[np.ix_([row_of[e] for e in b.eids], [col_of[q] for q in b.qids])]
        if not _has_perfect_matching(sub):
            return "block is structurally singular"
        allowed = seen_q | set(b.qids)
        for e in b.eids:
            used = {qids[c] for c in np.nonzero(im[row_of[e], :])[0]}
            if not used <= allowed:
                return "a block's equation uses a quantity of a later block"
        seen_q |= set(b.qids)
    return None


@bounded("C16", bound="ALL boolean square matrices with a perfect matching for n <= 4 (quick: all n <= 3 and every 5th of n = 4) x 2 id labelings (identity, reversed/offset); plus 300 (3000) random matrices with n in 5..8")
def blaze_is_a_valid_block_ordering_native(B):
    rng = B.rng
    for n in (1, 2, 3, 4):
        cells = n * n
        stride = 1 if (n < 4 or B.thorough) else 5
        for code in range(0, 2 ** cells, stride):
            im = np.array([(code >> k) & 1 for k in range(cells)], dtype=bool).reshape(n, n)
            if not _has_perfect_matching(im):
                continue
            for eids, qids in ((tuple(range(n)), tuple(range(n))), (tuple(range(10 + n, 10, -1)), tuple(range(20, 20 + 2 * n, 2)))):
                B.case()
                try:
                    blocks = BZ.blaze(im.copy(), eids, qids)
                except Exception as ex:
                    B.fail(f"exception {type(ex).__name__}: {ex}", {"im": im.astype(int).tolist(), "eids": eids, "qids": qids})
                    return
                err = _check_blocks(im, eids, qids, blocks)
                if err:
                    B.fail(err, {"im": im.astype(int).tolist(), "eids": eids, "qids": qids, "blocks": [(b.eids, b.qids) for b in blocks]})
                    return
    for _ in range(3000 if B.thorough else 300):
        n = rng.randint(5, 8)
        perm = list(range(n))
        rng.shuffle(perm)
        im = np.zeros((n, n), dtype=bool)
        for r in range(n):
            im[r, perm[r]] = True
        dens = rng.choice([0.05, 0.15, 0.4])
        im |= np.array([[rng.random() < dens for _ in range(n)] for _ in range(n)])
        if rng.random() < 0.4:
            im = np.tril(im) | np.eye(n, dtype=bool)
            pr, pc = list(range(n)), list(range(n))
            rng.shuffle(pr)
            rng.shuffle(pc)
            im = im[np.ix_(pr, pc)]
        eids = tuple(rng.sample(range(100), n))
        qids = tuple(rng.sample(range(100), n))
        B.case()
        blocks = BZ.blaze(im.copy(), eids, qids)
        err = _check_blocks(im, eids, qids, blocks)
        if err:
            B.fail(err, {"im": im.astype(int).tolist(), "eids": eids, "qids": qids})
            return
    return {"exhaustive_within_bound": bool(B.thorough)}


@bounded("C16", bound="all Sequential models with 3 equations x/y/z whose right-hand sides use any subset of the other two left-hand variables at zero shift (64 models) x lagged variants")
def sequentialize_orders_or_raises_untouched_native(B):
    """sequentialize returns an order in which every lhs used at zero shift is determined earlier, or raises and
    leaves the model untouched when no such order exists."""
    names = ("x", "y", "z")
    for mask in range(64):
        uses = {n: [m for j, m in enumerate([o for o in names if o != n]) if (mask >> (2 * i + j)) & 1] for i, n in enumerate(names)}
        for lagged in (False, True):
            B.case()
            src = "!equations\n" + "".join(f" {n} = 1 + w[-1]" + "".join(f" + {u}" for u in uses[n]) + (f" + {n}[-1]" if lagged else "") + ";\n" for n in names)
            m = ir.Sequential.from_string(src)
            before = tuple(m.equation_strings)
            # does an order exist?  (acyclic dependency graph at zero shift)
            order_exists = any(all(all(p.index(u) < p.index(n) for u in uses[n]) for n in names) for p in itertools.permutations(names))
            try:
                m.sequentialize()
                raised = False
            except Exception:
                raised = True
            after = tuple(m.equation_strings)
            if raised:
                if order_exists:
                    B.fail("sequentialize raised although a sequential order exists", {"source": src})
                    return
                if after != before:
                    B.fail("sequentialize raised but modified the model", {"source": src})
                    return
            else:
                lhs = [s.split("=")[0].strip() for s in after]
                ok = all(all(lhs.index(u) < lhs.index(n) for u in uses[n]) for n in names)
                if not ok:
                    B.fail("sequentialize returned an order in which a lhs is used before it is determined" if order_exists
                           else "sequentialize silently reordered a model that has no sequential order", {"source": src, "order": lhs})
                    return


@bounded("C16", bound="steady incidence matrix of a 3-equation model for every ordered selection of 3 of its 5 quantity ids as unknowns")
def steady_incidence_matrix_columns_native(B):
    """_calculate_steady_incidence_matrix: im[r, c] is True iff equation r contains a token of quantity wrt_qids[c]."""
    from irispie.simultaneous import _steady as ST
    src = "!transition_variables\n x, y, z\n!parameters\n a, b\n!transition_equations\n x = a*y[-1];\n y = b + z;\n z = a*x + b*z[-1];\n"
    m = ir.Simultaneous.from_string(src)
    eqs = tuple(m._invariant.steady_equations) if hasattr(m._invariant, "steady_equations") else tuple(m._invariant.dynamic_equations)
    all_qids = sorted({t.qid for e in eqs for t in e.incidence})
    for qids in itertools.permutations(all_qids, 3):
        B.case()
        im = ST._calculate_steady_incidence_matrix(eqs, qids)
        want = np.array([[any(t.qid == q for t in e.incidence) for q in qids] for e in eqs], dtype=bool)
        if im.shape != want.shape or not np.array_equal(im.astype(bool), want):
            B.fail("steady incidence matrix column does not correspond to the listed quantity", {"qids": qids, "got": im.astype(int).tolist(), "want": want.astype(int).tolist()})
            return


@contract("C16", targets=[PB + "_split_ids"], instances=[(n, m) for n in (1, 2, 3, 4) for m in range(0, n + 1) if m <= 3], opts={"max_paths": 3000})
def split_ids_pairs_in_index_order(K, n, m):
    """_split_ids(ids, index): extracted[j] == ids[index[j]] in the GIVEN index order (this is what pairs a prefetched
    equation with its own quantity); remaining keeps every other id once, in position order."""
    ids = tuple(K.int(f"id{i}", 0, 99) for i in range(n))
    index = [K.int(f"ix{j}", 0, n - 1) for j in range(m)]
    K.assume(K.And(*[index[a] != index[b] for a in range(m) for b in range(a + 1, m)]) if m > 1 else True)
    extracted, remaining = K.call(BZ._split_ids, ids, index)
    ex, rem = K.items(extracted), K.items(remaining)
    K.ensure("sizes", len(ex) == m and len(rem) == n - m)
    for j in range(len(ex)):
        K.ensure(f"extracted[{j}] == ids[index[{j}]]", K.And(*[K.Implies(index[j] == p, ex[j] == ids[p]) for p in range(n)]))
    # remaining: the k-th position not in index, in increasing position order
    for p in range(n):
        sel = K.Or(*[index[j] == p for j in range(m)]) if m else False
        rank = sum(K.ite(K.Or(*[index[j] == q for j in range(m)]) if m else False, 0, 1) for q in range(p))
        for k in range(len(rem)):
            K.ensure(f"position {p} kept as remaining[{k}] when it is the {k}-th unselected position", K.Implies(K.And(K.Not(sel), rank == k), rem[k] == ids[p]))
