"""C12 - aggregation and disaggregation respect calendar membership and are consistent.

Index layer proved on the real functions: which source observations reach the aggregator for each target
period (regular->regular and daily->regular), where disaggregate places values, what the within-group
aggregators do with missing members, and the round trips aggregate(disaggregate(x)).  The aggregator is
abstracted by a generic projection (member j of the group, j symbolic), so 'the group is exactly the
source periods inside the target period, in order' is decided for every position at once."""
import itertools
import numpy as np
from pyvc.prove import contract
from pyvc.bounded import bounded
import irispie.dates as D
from irispie.series import _conversions as CV
from irispie.series import arip as AR
from irispie.series.main import Series
from contracts.c10_series import mk_series, V, state, RI, row_has_obs
from contracts.c09_dates import ordinal
from pyvc.libmodels import MAX_ORD

PC = "irispie.series._conversions:"
PAR = "irispie.series.arip:"
REG = [D.YearlyPeriod, D.HalfyearlyPeriod, D.QuarterlyPeriod, D.MonthlyPeriod]
PAIRS = [(a, b) for a in REG for b in REG if int(a.frequency) > int(b.frequency)]      # (source, coarser target)


def reg_series(K, name, cls, nv):
    F = int(cls.frequency)
    rows = K.int(name + "_rows", 1, None, sample=(1, 2 * F + 3))
    start = K.int(name + "_start", 1990 * F, 2030 * F)
    data = K.array(name + "_data", (rows, nv))
    K.assume(row_has_obs(K, data, 0, nv))
    K.assume(row_has_obs(K, data, rows - 1, nv))
    s = K.obj(Series, start=K.obj(cls, serial=start), data=data, data_type=np.float64, metadata={}, __description__="")
    return s, start, data, rows


# ------------------------------------------------------------------------------ groups of regular -> regular aggregation
@contract("C12", targets=[PC + "_aggregate_regular_to_regular", "irispie.dates:RegularPeriodMixin.create_soy", "irispie.dates:RegularPeriodMixin.create_eoy",
                          "irispie.series.main:Series.get_data_from_until"], instances=[(a, b, n) for a, b in PAIRS for n in (1, 2)], opts={"max_paths": 3000})
def regular_groups_are_calendar_members(K, src, dst, nv):
    F, f = int(src.frequency), int(dst.frequency)
    factor = F // f
    s, start, data, rows = reg_series(K, "s", src, nv)
    j = K.int("member", 0, factor - 1)
    picker = K.callable(lambda within: K.index(within, j))        # generic projection: member j of each group
    new_start, out = K.call(CV._aggregate_regular_to_regular, s, dst, picker)
    y0 = K.fdiv(start, F)
    ylast = K.fdiv(start + rows - 1, F)
    K.ensure("new start is the first target period of the first year", K.And(K.cls_of(new_start) is dst, K.attr(new_start, "serial") == y0 * f))
    K.ensure("one output row per target period of the covered years", K.And(K.shape(out)[0] == (ylast - y0 + 1) * f, K.shape(out)[1] == nv))
    g = K.int("g", 0, None, sample=(0, 12))
    c = K.int("c", 0, nv - 1)
    K.assume(g < (ylast - y0 + 1) * f)
    source_serial = y0 * F + g * factor + j
    K.ensure("group g holds, in order, the source periods y0*F + g*factor + {0..factor-1} (NaN outside the data)",
             K.cell_eq(K.cell(out, g, c), V(K, start, data, source_serial, c)))
    # calendar membership of that source period: it refrequents (any position) to target period new_start + g
    p = K.obj(src, serial=source_serial)
    for pos in ("start", "middle", "end"):
        q = K.method(p, "refrequent", dst.frequency, position=pos)
        K.ensure(f"member's {pos} lies in target period new_start+g", K.attr(q, "serial") == y0 * f + g)
    # completeness: every source period that refrequents to new_start+g is in the group
    t = K.int("t", 1990 * F - 40, 2031 * F + 40)
    K.ensure("every source period of target period new_start+g is a member", K.Implies(K.fdiv(t, factor) == y0 * f + g,
                                                                                        K.And(t >= y0 * F + g * factor, t < y0 * F + (g + 1) * factor)))


# ------------------------------------------------------------------------------ groups of daily -> regular aggregation
@contract("C12", targets=["irispie.dates:RegularPeriodMixin.to_daily", "irispie.dates:RegularPeriodMixin.to_ymd", "irispie.dates:RegularPeriodMixin.to_year_segment"],
          instances=[(c,) for c in REG])
def daily_bounds_of_a_target_period(K, dst):
    """The daily slice _aggregate_daily_to_regular cuts for target period t is [t.to_daily(start), t.to_daily(end)]:
    proved to be exactly the calendar days of t for every year 1..9999 (first day of the period's first month up
    to the day before the first day of the next period), against the Gregorian ordinal written independently."""
    f = int(dst.frequency)
    mps = 12 // f
    serial = K.int("t", 1 * f, 9998 * f + f - 1)
    t = K.obj(dst, serial=serial)
    y = K.fdiv(serial, f)
    seg0 = K.mod(serial, f)
    lo = K.method(t, "to_daily", position="start")
    hi = K.method(t, "to_daily", position="end")
    K.ensure("daily periods", K.And(K.cls_of(lo) is D.DailyPeriod, K.cls_of(hi) is D.DailyPeriod))
    fm = seg0 * mps + 1
    last_segment = seg0 == f - 1
    nxt = K.ite(last_segment, ordinal(K, y + 1, 1, 1), ordinal(K, y, K.ite(last_segment, 1, fm + mps), 1)) if K.symbolic else \
        (ordinal(K, y + 1, 1, 1) if last_segment else ordinal(K, y, fm + mps, 1))
    K.ensure("first day of the slice is the first calendar day of the period", K.attr(lo, "serial") == ordinal(K, y, fm, 1))
    K.ensure("last day of the slice is the last calendar day of the period", K.attr(hi, "serial") == nxt - 1)


@contract("C12", targets=[PC + "_aggregate_daily_to_regular", "irispie.dates:DailyPeriod.create_soy", "irispie.dates:DailyPeriod.create_eoy", "irispie.dates:Ranger.__init__",
                          "irispie.series.main:Series.iter_own_data_variants_from_until"],
          instances=[(c, y, pk) for c in (D.YearlyPeriod, D.HalfyearlyPeriod) for y in (2019, 2000, 1900) for pk in ("member", "last")],
          thorough=[(D.QuarterlyPeriod, y, pk) for y in (2019, 2000, 1900) for pk in ("member", "last")], opts={"max_paths": 3000})
def daily_groups_are_the_slices_between_those_bounds(K, dst, year, pick):
    """_aggregate_daily_to_regular on a daily series lying inside one calendar year: one output row per target period
    of that year, and the group handed to the aggregator for period g is, in order, the days from g.to_daily(start)
    to g.to_daily(end) (missing outside the data).  Generic projection: member j of the group."""
    f = int(dst.frequency)
    # the year is fixed per instance (a common year, a leap year, a century non-leap year): the bounds themselves are
    # proved for every year by daily_bounds_of_a_target_period; here the point is that the loop uses exactly them
    jan1 = ordinal(K, year, 1, 1)
    dec31 = ordinal(K, year + 1, 1, 1) - 1
    rows = K.int("s_rows", 1, 366, sample=(1, 366))
    start = K.int("s_start", 366, MAX_ORD - 800)
    K.assume(K.And(start >= jan1, start + rows - 1 <= dec31))
    data = K.array("s_data", (rows, 1))
    K.assume(row_has_obs(K, data, 0, 1))
    K.assume(row_has_obs(K, data, rows - 1, 1))
    s = K.obj(Series, start=K.obj(D.DailyPeriod, serial=start), data=data, data_type=np.float64, metadata={}, __description__="")
    j = K.int("member", 0, 27)          # every target period has at least 28 days
    picker = K.callable(lambda within: K.index(within, j if pick == "member" else -1))        # "last": the last day handed over for the period
    new_start, out = K.call(CV._aggregate_daily_to_regular, s, dst, picker)
    K.ensure("new start is the first target period of the year", K.And(K.cls_of(new_start) is dst, K.attr(new_start, "serial") == year * f))
    K.ensure("one output row per target period of the year", K.shape(out)[0] == f)
    for g in range(f):
        lo = K.attr(K.method(K.obj(dst, serial=year * f + g), "to_daily", position="start"), "serial")
        hi = K.attr(K.method(K.obj(dst, serial=year * f + g), "to_daily", position="end"), "serial")
        if pick == "member":
            K.ensure(f"group {g}: member j is day lo+j of the target period (NaN outside the data)", K.cell_eq(K.cell(out, g, 0), V(K, start, data, lo + j, 0)))
        else:
            K.ensure(f"group {g}: the last member is the last calendar day of the target period (31 December of a leap year included)",
                     K.cell_eq(K.cell(out, g, 0), V(K, start, data, hi, 0)))


# ------------------------------------------------------------------------------ within-group aggregators and missing values
METHODS = ["mean", "sum", "prod", "first", "last", "min", "max"]


def _patterns(L):
    return list(itertools.product((False, True), repeat=L))


@contract("C12", targets=[PC + "_aggregate_within_data", PC + "_AGGREGATION_METHOD_RESOLUTION"],
          instances=[(m, pat, d) for m in METHODS for L in (2, 3) for pat in _patterns(L) for d in (False, True)
                     if not (m in ("min", "max") and not d and any(pat))],     # min/max with a missing member and no discard: unspecified
          opts={"max_paths": 500})
def within_group_aggregation(K, method, pattern, discard):
    L = len(pattern)
    w = K.array_pattern("w", pattern)
    r = K.call(CV._aggregate_within_data, None, discard, CV._AGGREGATION_METHOD_RESOLUTION[method], w)
    r = K.real_cell(r) if not K.is_cell(r) else r
    vals = [None if pattern[i] else K.cell_val(K.cell(w, i)) for i in range(L)]
    present = [v for v in vals if v is not None]
    anynan = any(pattern)
    if discard:
        if not present:
            K.ensure("nothing left after discarding -> missing", K.cell_is_nan(r))
            return
        use = present
        use_first, use_last = present[0], present[-1]
    else:
        use = vals
        use_first, use_last = vals[0], vals[-1]
    if method in ("mean", "sum", "prod"):
        if not discard and anynan:
            K.ensure(f"{method}: a group with a missing member yields a missing value", K.cell_is_nan(r))
            return
        if method == "sum":
            want = sum(use)
        elif method == "mean":
            want = sum(use) / len(use)
        else:
            want = 1
            for v in use:
                want = want * v
        K.ensure(f"{method} of the members", K.And(K.Not(K.cell_is_nan(r)), K.real_eq(K.cell_val(r), want)))
    elif method in ("first", "last"):
        m = use_first if method == "first" else use_last
        if m is None:
            K.ensure(f"{method}: missing member returned as missing", K.cell_is_nan(r))
        else:
            K.ensure(f"{method} member", K.And(K.Not(K.cell_is_nan(r)), K.real_eq(K.cell_val(r), m)))
    else:
        if not discard and anynan:
            return      # min/max with a missing member: not specified by the property (order dependent in Python)
        rv = K.cell_val(r)
        if method == "min":
            K.ensure("min is a member and <= all", K.And(K.Or(*[rv == v for v in use]), *[rv <= v for v in use]))
        else:
            K.ensure("max is a member and >= all", K.And(K.Or(*[rv == v for v in use]), *[rv >= v for v in use]))


def _single(L, pos):
    return tuple(i != pos for i in range(L))


@contract("C12", targets=[PC + "_aggregate_within_data"], instances=[(m, _single(L, 0 if m == "first" else L - 1)) for m in ("first", "last") for L in (2, 3, 4, 6, 12)])
def sparse_group_with_discard_returns_its_member(K, method, pattern):
    """Lemma used by the first/first and last/last round trips: a group whose only observation sits at the placement
    position of disaggregate(first|last) aggregates, with discard_missing, to that observation."""
    w = K.array_pattern("w", pattern)
    r = K.call(CV._aggregate_within_data, None, True, CV._AGGREGATION_METHOD_RESOLUTION[method], w)
    r = K.real_cell(r) if not K.is_cell(r) else r
    pos = pattern.index(False)
    K.ensure("the only observed member is returned", K.And(K.Not(K.cell_is_nan(r)), K.real_eq(K.cell_val(r), K.cell_val(K.cell(w, pos)))))


@contract("C12", targets=[PC + "_aggregate_within_data"], instances=[((0, 2),), ((1,),), ((2, 0),)])
def within_group_select(K, select):
    """`select` restricts the group to the listed positions before the method is applied."""
    w = K.array_pattern("w", (False, False, False))
    r = K.call(CV._aggregate_within_data, list(select), False, CV._AGGREGATION_METHOD_RESOLUTION["sum"], w)
    K.ensure("sum over the selected members only", K.real_eq(K.cell_val(K.real_cell(r) if not K.is_cell(r) else r), sum(K.cell_val(K.cell(w, i)) for i in select)))
    r = K.call(CV._aggregate_within_data, list(select), False, CV._AGGREGATION_METHOD_RESOLUTION["first"], w)
    K.ensure("first of the selected members", K.real_eq(K.cell_val(K.real_cell(r) if not K.is_cell(r) else r), K.cell_val(K.cell(w, select[0]))))


# ------------------------------------------------------------------------------ disaggregation placement
FINE = [(a, b) for a in REG for b in REG if int(b.frequency) > int(a.frequency)]       # (low source, finer target)
PLACE = {"flat": lambda factor: list(range(factor)), "first": lambda factor: [0], "middle": lambda factor: [factor // 2], "last": lambda factor: [factor - 1]}


@contract("C12", targets=[PC + "_disaggregate_flat", PC + "_disaggregate_first", PC + "_disaggregate_middle", PC + "_disaggregate_last",
                          PC + "_CHOOSE_DISAGGREGATION_METHOD"], instances=[(a, b, m, 1) for a, b in FINE for m in PLACE] + [(D.YearlyPeriod, D.QuarterlyPeriod, m, 2) for m in PLACE],
          opts={"max_paths": 2000})
def disaggregate_places_values(K, low, high, method, nv):
    fl, fh = int(low.frequency), int(high.frequency)
    factor = fh // fl
    s, start, data, rows = reg_series(K, "s", low, nv)
    hs, hd, fac = K.call(CV._CHOOSE_DISAGGREGATION_METHOD[method], s, high)
    K.ensure("factor", fac == factor)
    K.ensure("high start is the first high period of the low start", K.And(K.cls_of(hs) is high, K.attr(hs, "serial") == start * factor))
    K.ensure("high rows", K.And(K.shape(hd)[0] == rows * factor, K.shape(hd)[1] == nv))
    i = K.int("i", 0, None, sample=(0, 30))
    c = K.int("c", 0, nv - 1)
    K.assume(i < rows * factor)
    jlow = K.fdiv(i, factor)
    within = K.mod(i, factor)
    placed = K.Or(*[within == k for k in PLACE[method](factor)])
    K.ensure("low value j sits at the documented positions of its high periods, NaN elsewhere",
             K.cell_eq(K.cell(hd, i, c), K.cell_ite(placed, lambda: K.cell(data, jlow, c), lambda: K.nan_cell())))
    # the high periods j*factor .. j*factor+factor-1 are exactly those inside low period j
    p = K.obj(high, serial=start * factor + i)
    q = K.method(p, "refrequent", low.frequency, position="start")
    K.ensure("high row i belongs to low period start + i//factor", K.attr(q, "serial") == start + jlow)


# ------------------------------------------------------------------------------ round trips
ROUND = [("flat", "mean"), ("flat", "first"), ("flat", "last"), ("flat", "min"), ("flat", "max"), ("first", "first"), ("last", "last")]


@contract("C12", targets=[PC + "Inlay.aggregate", PC + "Inlay.disaggregate", PC + "_aggregate_regular_to_regular", PC + "_aggregate_within_data",
                          "irispie.series.main:Series._replace_start_and_values"],
          instances=[(D.YearlyPeriod, D.QuarterlyPeriod, d, a) for d, a in ROUND if d == "flat"] + [(D.QuarterlyPeriod, D.MonthlyPeriod, "flat", "mean"),
                                                                                               (D.HalfyearlyPeriod, D.QuarterlyPeriod, "flat", "last")],
          opts={"max_paths": 6000})
def aggregate_inverts_disaggregate(K, low, high, dmethod, amethod):
    """Aggregating a disaggregated series with the matching method returns the original series (no interior
    missing values; discard_missing for the sparse placements)."""
    nv = 1
    fl = int(low.frequency)
    rows = K.int("x_rows", 1, None, sample=(1, 5))
    start = K.int("x_start", 1990 * fl, 2030 * fl)
    data = K.array("x_data", (rows, nv), nan=False)
    x = K.obj(Series, start=K.obj(low, serial=start), data=data, data_type=np.float64, metadata={}, __description__="")
    old = K.snapshot(data)
    K.method(x, "disaggregate", high.frequency, method=dmethod)
    K.method(x, "aggregate", low.frequency, method=amethod, discard_missing=dmethod != "flat")
    ns, nd = state(K, x)
    t = K.int("t", 1990 * fl - 5, 2031 * fl + 5)
    K.instantiate(t)
    K.ensure("aggregate(disaggregate(x)) == x, period by period", K.cell_eq(V(K, ns, nd, t, 0), V(K, start, old, t, 0)))
    K.ensure("frequency restored", K.cls_of(K.attr(x, "start")) is low)


# ------------------------------------------------------------------------------ ARIP: structure of the bordered (KKT) system
AGGS = ["sum", "mean", "first", "last"]


@contract("C12", targets=[PAR + "_create_aggregation_row", PAR + "_create_multiplier_column", PAR + "_create_target_row", PAR + "_create_target_column",
                          PAR + "_create_aggregation_vector_sum", PAR + "_create_aggregation_vector_mean", PAR + "_create_aggregation_vector_first",
                          PAR + "_create_aggregation_vector_last", PAR + "_CHOOSE_AGGREGATION_VECTOR"],
          instances=[(a, n) for a in AGGS for n in (2, 3, 4, 12)])
def arip_constraint_rows_and_multiplier_columns(K, agg, n):
    """Constraint row i carries the aggregation vector on the columns of low period i; the multiplier column of
    that constraint is a nonzero multiple of the transposed row (symmetric KKT system: what minimising the
    documented criterion subject to the constraints requires); target rows/columns are unit vectors."""
    L = K.int("num_low", 1, None, sample=(1, 4))
    lp = K.int("low_period", 0, None, sample=(0, 3))
    K.assume(lp < L)
    vec = K.call(AR._CHOOSE_AGGREGATION_VECTOR[agg], n)
    vec = K.items(vec)
    from fractions import Fraction
    want = {"sum": [1] * n, "mean": [Fraction(1, n)] * n, "first": [1] + [0] * (n - 1), "last": [0] * (n - 1) + [1]}[agg]
    K.ensure("aggregation vector as documented", K.And(*[K.real_eq(a, b) for a, b in zip(vec, want)]) if len(vec) == n else False)
    row = K.call(AR._create_aggregation_row, lp, L, n, vec)
    col = K.call(AR._create_multiplier_column, lp, L, n, vec) if AR._create_multiplier_column.__code__.co_argcount == 4 else K.call(AR._create_multiplier_column, lp, L, n)
    K.ensure("shapes", K.And(K.shape(row)[0] == 1, K.shape(row)[1] == L * n, K.shape(col)[0] == L * n, K.shape(col)[1] == 1))
    k = K.int("k", 0, None, sample=(0, 47))
    K.assume(k < L * n)
    inside = K.And(k >= lp * n, k < (lp + 1) * n)
    expect = 0
    for j in range(n - 1, -1, -1):
        expect = K.ite(k == lp * n + j, want[j], expect)
    K.ensure("row: aggregation vector on the columns of the low period, zero elsewhere", K.real_eq(K.cell_val(K.cell(row, 0, k)), expect))
    cv = K.cell_val(K.cell(col, k, 0))
    K.ensure("multiplier column == (nonzero scalar) * row transposed", K.Or(K.real_eq(cv, expect), K.real_eq(cv, n * expect)))
    H = K.int("num_high", 1, None, sample=(1, 12))
    hp = K.int("high_period", 0, None, sample=(0, 11))
    k2 = K.int("k2", 0, None, sample=(0, 11))
    K.assume(K.And(hp < H, k2 < H))
    trow = K.call(AR._create_target_row, hp, H)
    tcol = K.call(AR._create_target_column, hp, H)
    unit = K.ite(k2 == hp, 1, 0)
    K.ensure("target row/column are the unit vector of the targeted high period",
             K.And(K.real_eq(K.cell_val(K.cell(trow, 0, k2)), unit), K.real_eq(K.cell_val(K.cell(tcol, k2, 0)), unit)))


@contract("C12", targets=[PAR + "_get_first_last_observations", PAR + "_DiffForm.get_constant", PAR + "_DiffForm.get_rho", PC + "convert_diff"],
          instances=[(pat,) for L in (2, 3, 4, 5) for pat in _patterns(L) if not all(pat)])
def arip_first_last_observations(K, pattern):
    """The average change of the documented criterion is taken between the first and the last observed low period,
    over the number of low periods between them (interior gaps included)."""
    w = K.array_pattern("w", pattern)
    first, last, num = K.call(AR._get_first_last_observations, w)
    obs = [i for i, m in enumerate(pattern) if not m]
    K.ensure("first observed value", K.real_eq(K.cell_val(K.real_cell(first) if not K.is_cell(first) else first), K.cell_val(K.cell(w, obs[0]))))
    K.ensure("last observed value", K.real_eq(K.cell_val(K.real_cell(last) if not K.is_cell(last) else last), K.cell_val(K.cell(w, obs[-1]))))
    K.ensure("number of low periods between them", K.scalar(num) == obs[-1] - obs[0])
    c = K.call(AR._DiffForm.get_constant, 1, 4, w)
    want = 0 if obs[-1] == obs[0] else (K.cell_val(K.cell(w, obs[-1])) - K.cell_val(K.cell(w, obs[0]))) / (obs[-1] - obs[0]) / 4
    K.ensure("additive form: constant = average low-frequency change converted to the high frequency", K.real_eq(K.scalar(c), want))
    K.ensure("additive form: rho == 1", K.call(AR._DiffForm.get_rho, 1, 4, w) == 1)


@contract("C12", targets=[PC + "_aggregate_within_data"], instances=[()], canary=True)
def canary_sum_ignores_missing(K):
    w = K.array_pattern("w", (False, True))
    r = K.call(CV._aggregate_within_data, None, False, CV._AGGREGATION_METHOD_RESOLUTION["sum"], w)
    K.ensure("WRONG: sum skips missing members without discard_missing", K.Not(K.cell_is_nan(K.real_cell(r) if not K.is_cell(r) else r)))


# ------------------------------------------------------------------------------ bounded stand-ins (NOT proofs)
def _close(a, b):
    if a in (float("inf"), float("-inf")) or b in (float("inf"), float("-inf")):
        return a == b
    return (a != a and b != b) or (a == a and b == b and abs(a - b) <= 1e-9 * max(1.0, abs(a), abs(b)))


@bounded("C12", bound="all ordered pairs of regular frequencies, every start segment within a year, lengths 1..2 low years + 3, all documented disaggregate/aggregate method pairs (incl. first/first, last/last with discard_missing)")
def round_trips_native(B):
    import irispie as ir
    rng = B.rng
    for low, high in FINE:
        fl = int(low.frequency)
        for seg in range(fl):
            for n in (1, fl + 1, 2 * fl + 3):
                start = low(2001 * fl + seg)
                vals = np.array([rng.choice([-1.5, 0.25, 2.0, 7.0]) for _ in range(n)], dtype=float)
                x = Series(start=start, values=vals.copy())
                for dm, am in ROUND:
                    B.case()
                    try:
                        h = ir.disaggregate(x, high.frequency, method=dm)
                        r = ir.aggregate(h, low.frequency, method=am, discard_missing=dm != "flat")
                    except Exception as ex:
                        B.fail(f"exception {type(ex).__name__}: {ex}", {"low": low.__name__, "high": high.__name__, "methods": (dm, am)})
                        return
                    ok = r.start is not None and r.start.serial == start.serial and r.data.shape[0] == n and all(_close(a, b) for a, b in zip(r.data[:, 0], vals))
                    if not ok:
                        B.fail("aggregate(disaggregate(x)) != x", {"low": low.__name__, "high": high.__name__, "methods": (dm, am), "start": str(start), "values": vals.tolist()})
                        return


@bounded("C12", bound="daily series starting on every day of 2019-2021 (leap year included) with lengths {1, 45, 400}, targets monthly/quarterly/half-yearly/yearly, methods sum/first/last/mean with and without discard_missing")
def daily_aggregation_membership_native(B):
    """aggregate applies the method to exactly the daily observations whose dates fall inside each target period."""
    import datetime
    import irispie as ir
    first = datetime.date(2019, 1, 1).toordinal()
    stride = 1 if B.thorough else 9
    for off in range(0, 3 * 365, stride):
        for n in (1, 45, 400):
            start = D.DailyPeriod(first + off)
            vals = np.arange(1.0, n + 1.0)
            x = Series(start=start, values=vals.copy())
            for cls in (D.MonthlyPeriod, D.QuarterlyPeriod, D.HalfyearlyPeriod, D.YearlyPeriod):
                for method, disc in (("sum", True), ("first", True), ("last", True), ("mean", False)):
                    B.case()
                    r = ir.aggregate(x, cls.frequency, method=method, discard_missing=disc)
                    groups = {}
                    for i in range(n):
                        d = datetime.date.fromordinal(first + off + i)
                        t = cls.from_ymd(d.year, d.month, d.day).serial
                        groups.setdefault(t, []).append(vals[i])
                    want = {}
                    for t, g in groups.items():
                        if not disc:
                            lo_, hi_ = cls(t).to_daily(position="start").serial, cls(t).to_daily(position="end").serial
                            if len(g) != hi_ - lo_ + 1:
                                continue            # incomplete period without discard: missing
                        want[t] = {"sum": sum(g), "first": g[0], "last": g[-1], "mean": sum(g) / len(g)}[method]
                    got = {} if r.start is None else {r.start.serial + i: float(v) for i, v in enumerate(r.data[:, 0]) if v == v}
                    if set(got) != set(want) or any(not _close(got[t], want[t]) for t in want):
                        B.fail("daily aggregation does not follow calendar membership", {"start": str(start), "n": n, "target": cls.__name__, "method": method, "got": got, "want": want})
                        return


@bounded("C12", bound="yearly/quarterly/monthly series of 2 periods disaggregated to daily with method flat")
def disaggregate_to_daily_native(B):
    """Known finding C12-disaggregate-daily: the factor 365//freq ignores leap years and month lengths."""
    import irispie as ir
    for low, start in ((D.YearlyPeriod, D.yy(2020)), (D.QuarterlyPeriod, D.qq(2021, 1)), (D.MonthlyPeriod, D.mm(2021, 1))):
        B.case()
        x = Series(start=start, values=np.array([1.0, 2.0]))
        h = ir.disaggregate(x, D.Frequency.DAILY, method="flat")
        for i, v in enumerate(h.data[:, 0]):
            day = D.DailyPeriod(h.start.serial + i)
            owner = day.refrequent(low.frequency)
            want = {start.serial: 1.0, start.serial + 1: 2.0}.get(owner.serial)
            if want is None or not _close(float(v), want):
                B.fail("disaggregate to daily places a value outside its low-frequency period", {"low": low.__name__, "day": str(day), "value": float(v), "belongs_to": str(owner)})
                return
        if h.data.shape[0] != (start + 1).to_daily(position="end").serial - start.to_daily(position="start").serial + 1:
            B.fail("disaggregate to daily places a value outside its low-frequency period", {"low": low.__name__, "rows": int(h.data.shape[0])})
            return


# ------------------------------------------------------------------------------ ARIP: the whole bordered system and its solution
from contracts.c14_filters import nullspace


def _arip_instances():
    T, F = True, False
    out = []
    for agg in AGGS:
        out += [(agg, 2, (F, F), (T, T, T, T)), (agg, 2, (F, F, F), (T,) * 6), (agg, 4, (F, F), (T,) * 8)]
    # multiplicative ("rate") model with a fixed autoregressive coefficient (given as a 5th item)
    out += [("sum", 2, (F, F, F), (T,) * 6, "2"), ("mean", 4, (F, F), (T,) * 8, "1/2"), ("last", 2, (F, F), (T, F, T, T), "3/2"), ("first", 3, (F, F), (T,) * 6, "2")]
    # targets (False = a target value is given): partial coverage of a low period, a fully covered low period, both; a missing low observation
    out += [("sum", 2, (F, F), (T, F, T, T)), ("mean", 2, (F, F, F), (T, T, F, F, T, T)), ("sum", 4, (F, F), (F, T, T, T, T, F, T, T)),
            ("last", 2, (F, F, F), (T, T, F, T, F, F)), ("first", 4, (F, F), (T, T, F, T, F, F, F, F)), ("sum", 2, (F, T, F), (T,) * 6),
            ("mean", 4, (F, F), (T, T, T, F, T, T, T, T))]
    return out


@contract("C12", targets=[PAR + "disaggregate_arip_data", PAR + "_create_basic_system_matrices", PAR + "_detect_full_low_periods", PAR + "_create_aggregation_row",
                          PAR + "_create_multiplier_column", PAR + "_create_target_row", PAR + "_create_target_column", PAR + "_DiffForm.get_sigma_vector",
                          PAR + "_DiffForm.get_constant", PAR + "_get_first_last_observations"],
          instances=_arip_instances(), opts={"max_paths": 400})
def arip_output_is_the_constrained_minimiser(K, agg, nw, low_pattern, target_pattern, rate=None):
    """disaggregate_arip_data (additive model) for a fixed number of low periods and a fixed pattern of observed low
    values / given high-frequency targets, all VALUES symbolic: the output meets every aggregation constraint of an
    observed low period that is not fully covered by targets, hits every target exactly, and the gradient of the
    documented criterion sum_t (x_t - x_{t-1} - c)^2 vanishes along every direction that keeps those constraints
    (convex problem: this is optimality).  numpy.linalg.solve enters through its assumed contract."""
    from fractions import Fraction
    L = len(low_pattern)
    H = L * nw
    low = K.array_pattern("low", low_pattern)
    target = K.array_pattern("target", target_pattern)
    low0 = K.snapshot(low)
    low_freq, high_freq = 1, nw
    if rate is None:
        out = K.call(AR.disaggregate_arip_data, [low], target, ("diff", agg), L, low_freq, high_freq)
    else:
        # "rate" model x_t = rho x_{t-1} + e_t, std(e_t) = rho^t: rho is what _RateForm.get_rho derives from the data
        # (a power of last/first); here it is FIXED by a stub so that the system stays linear - the point is the
        # layout of the criterion, not the value of rho
        rho = Fraction(rate)
        out = K.stubbed(AR._RateForm.get_rho, lambda lf, hf, d: (rho if K.symbolic else float(rho)), "autoregressive coefficient of the rate model fixed per instance",
                        lambda: K.call(AR.disaggregate_arip_data, [low], target, ("rate", agg), L, low_freq, high_freq))
    out = list(K.items(out))
    K.ensure("one output vector per variant", len(out) == 1)
    x = [K.cell(out[0], t) for t in range(H)]
    K.ensure("one value per high-frequency period, none missing", K.And(K.shape(out[0]) == (H,), *[K.Not(K.cell_is_nan(c)) for c in x]))
    xv = [K.cell_val(c) for c in x]
    vec = {"sum": [1] * nw, "mean": [Fraction(1, nw)] * nw, "first": [1] + [0] * (nw - 1), "last": [0] * (nw - 1) + [1]}[agg]
    targets = [t for t in range(H) if not target_pattern[t]]
    full = [i for i in range(L) if all(not target_pattern[i * nw + j] for j in range(nw))]
    constrained = [i for i in range(L) if not low_pattern[i] and i not in full]
    E = []
    for i in constrained:
        K.ensure(f"aggregation constraint of low period {i}", K.real_eq(sum(K.frac(vec[j]) * xv[i * nw + j] for j in range(nw) if vec[j]), K.cell_val(K.cell(low0, i))))
        E.append([vec[t - i * nw] if i * nw <= t < (i + 1) * nw else 0 for t in range(H)])
    for t in targets:
        K.ensure(f"target at high period {t} is hit exactly", K.real_eq(xv[t], K.cell_val(K.cell(target, t))))
        E.append([1 if s == t else 0 for s in range(H)])
    # constant of the additive model: average change between the first and last low observation that still constrains
    obs = constrained
    if rate is None:
        c = 0 if len(obs) < 2 else (K.cell_val(K.cell(low0, obs[-1])) - K.cell_val(K.cell(low0, obs[0]))) / (obs[-1] - obs[0]) / nw
        r = [xv[t + 1] - xv[t] - c for t in range(H - 1)]
        grad = [(r[t - 1] if t >= 1 else 0) - (r[t] if t < H - 1 else 0) for t in range(H)]
    else:
        # criterion sum_t ((x_t - rho x_{t-1}) / rho^t)^2 , t = 1..H-1
        sig = [rho ** t for t in range(H)]
        r = [(xv[t + 1] - K.frac(rho) * xv[t]) * K.frac(1 / sig[t + 1]) for t in range(H - 1)]
        grad = [(r[t - 1] * K.frac(1 / sig[t]) if t >= 1 else 0) - (r[t] * K.frac(rho / sig[t + 1]) if t < H - 1 else 0) for t in range(H)]
    for v in nullspace(E, H):
        K.ensure(f"gradient of the smoothness criterion vanishes along the feasible direction {[str(q) for q in v]}",
                 K.real_eq(sum(K.frac(q) * g for q, g in zip(v, grad) if q != 0), 0))


@contract("C12", targets=[PC + "_aggregate_within_data"],
          instances=[(sel, pat) for sel in ((0, 2), (1,), (2, 0), (1, 2)) for pat in _patterns(3) if any(pat)], opts={"max_paths": 200})
def select_addresses_calendar_positions_also_when_missing_values_are_discarded(K, select, pattern):
    """`select` picks members by their POSITION within the period (calendar position), whether or not missing values
    are discarded afterwards: the aggregate is taken over the selected members that are observed."""
    w = K.array_pattern("w", pattern)
    chosen = [i for i in select if not pattern[i]]
    r = K.call(CV._aggregate_within_data, list(select), True, CV._AGGREGATION_METHOD_RESOLUTION["sum"], w)
    r = K.real_cell(r) if not K.is_cell(r) else r
    if not chosen:
        K.ensure("no selected member is observed: missing", K.cell_is_nan(r))
    else:
        K.ensure("sum over the selected members that are observed", K.And(K.Not(K.cell_is_nan(r)), K.real_eq(K.cell_val(r), sum(K.cell_val(K.cell(w, i)) for i in chosen))))
        r2 = K.call(CV._aggregate_within_data, list(select), True, CV._AGGREGATION_METHOD_RESOLUTION["first"], w)
        r2 = K.real_cell(r2) if not K.is_cell(r2) else r2
        K.ensure("first of the selected members that are observed", K.real_eq(K.cell_val(r2), K.cell_val(K.cell(w, chosen[0]))))
