"""C11 - period conversions round-trip; frequency conversion preserves containment.

Contracts on the conversion functions of irispie/dates.py.  The decimal layer (format/int/split on the
strings the library itself produces) rests on the assumed string contracts A1-A3 of pyvc/strings.py,
validated exhaustively on their finite domains by pyvc/libcheck.py."""
import re
import datetime
import z3
from pyvc.prove import contract
from pyvc.bounded import bounded
from pyvc.libmodels import MAX_ORD
import irispie.dates as D
from irispie import wrongdoings as W
from contracts.c09_dates import REG, CAL, ALL, per, ordinal, valid, P, regular_year_segment, daily_year_segment

POS = ("start", "middle", "end")
FREQ = {c: c.frequency for c in ALL}


def cal_period(K, cls, name="serial"):
    """A period inside the supported calendar (years 1..9999)."""
    if cls is D.DailyPeriod:
        return per(K, cls, name, 1, MAX_ORD)
    if cls is D.IntegerPeriod:
        return per(K, cls, name, -10**5, 10**5)
    F = int(cls.frequency)
    return per(K, cls, name, 1 * F, 9999 * F + F - 1)


def same(K, r, cls, p):
    return K.And(K.cls_of(r) is cls, K.attr(r, "serial") == K.attr(p, "serial"))


# (year, segment) round trips are C11 sentences too: re-register the C09 contracts under C11
contract("C11", name="regular_year_segment", targets=[P + "RegularPeriodMixin.to_year_segment", P + "RegularPeriodMixin.from_year_segment"], instances=REG)(regular_year_segment)
contract("C11", name="daily_year_segment", targets=[P + "DailyPeriod.to_year_segment", P + "DailyPeriod.from_year_segment"], instances=[()])(daily_year_segment)


@contract("C11", targets=[P + "RegularPeriodMixin.to_ymd", P + "RegularPeriodMixin.from_ymd", P + "Period.from_ymd",
                          P + "HalfyearlyPeriod.month_to_segment", P + "QuarterlyPeriod.month_to_segment",
                          P + "MonthlyPeriod.month_to_segment", P + "YearlyPeriod.month_to_segment"],
          instances=[(c, pos) for c in REG for pos in POS])
def ymd_roundtrip_regular(K, cls, pos):
    p = cal_period(K, cls)
    y, m, d = K.method(p, "to_ymd", position=pos)
    K.ensure("to_ymd is a calendar date", valid(K, y, m, d))
    K.ensure("from_ymd(to_ymd(p,pos))==p", same(K, K.call(cls.from_ymd, y, m, d), cls, p))
    K.ensure("Period.from_ymd(freq, ...)==p", same(K, K.call(D.Period.from_ymd, FREQ[cls], y, m, d), cls, p))


@contract("C11", targets=[P + "DailyPeriod.to_ymd", P + "DailyPeriod.from_ymd", P + "daily_serial_from_ymd"], instances=[()])
def ymd_roundtrip_daily(K):
    cls = D.DailyPeriod
    p = cal_period(K, cls)
    y, m, d = K.method(p, "to_ymd")
    K.ensure("from_ymd(to_ymd(p))==p", same(K, K.call(cls.from_ymd, y, m, d), cls, p))
    yy, mm, dd = K.int("y", 1, 9999), K.int("m", 1, 12), K.int("d", 1, 31)
    K.assume(valid(K, yy, mm, dd))
    q = K.call(cls.from_ymd, yy, mm, dd)
    y2, m2, d2 = K.method(q, "to_ymd")
    K.ensure("to_ymd(from_ymd(y,m,d))==(y,m,d)", K.And(y2 == yy, m2 == mm, d2 == dd))


@contract("C11", targets=[P + "Period.to_python_date", P + "Period.from_python_date", P + "periods_from_python_dates"],
          instances=[(c, pos) for c in CAL for pos in POS])
def python_date_roundtrip(K, cls, pos):
    p = cal_period(K, cls)
    dt = K.method(p, "to_python_date", position=pos)
    back = K.call(D.Period.from_python_date, dt, frequency=FREQ[cls])
    K.ensure("from_python_date(to_python_date(p,pos))==p", same(K, back, cls, p))
    tup = K.call(D.periods_from_python_dates, (dt, dt), frequency=FREQ[cls])
    K.ensure("periods_from_python_dates: one period per date", K.length(tup) == 2)
    K.ensure("periods_from_python_dates(.., frequency) gives the same periods as the one-by-one form",
             K.And(same(K, K.index(tup, 0), cls, p), same(K, K.index(tup, 1), cls, p)))
    if cls is D.DailyPeriod:
        tup = K.call(D.periods_from_python_dates, (dt,))
        K.ensure("periods_from_python_dates: daily when no frequency is given", same(K, K.index(tup, 0), cls, p))


@contract("C11", targets=[P + "Period.to_iso_string", P + "Period.from_iso_string", P + "RegularPeriodMixin.from_iso_string",
                          P + "DailyPeriod.from_iso_string", P + "periods_from_iso_strings"],
          instances=[(c, pos) for c in CAL for pos in POS])
def iso_roundtrip(K, cls, pos):
    p = cal_period(K, cls)
    s = K.method(p, "to_iso_string", position=pos)
    back = K.call(D.Period.from_iso_string, s, frequency=FREQ[cls])
    K.ensure("Period.from_iso_string(to_iso_string(p,pos), freq)==p", same(K, back, cls, p))
    back2 = K.call(cls.from_iso_string, s)
    K.ensure("cls.from_iso_string(to_iso_string(p,pos))==p", same(K, back2, cls, p))
    tup = K.call(D.periods_from_iso_strings, (s,), frequency=FREQ[cls])
    K.ensure("periods_from_iso_strings", same(K, K.index(tup, 0), cls, p))


SDMX_TARGETS = [P + "Period.from_sdmx_string", P + "Frequency.from_sdmx_string", P + "periods_from_sdmx_strings",
                P + "YearlyPeriod.to_sdmx_string", P + "YearlyPeriod.from_sdmx_string",
                P + "HalfyearlyPeriod.to_sdmx_string", P + "HalfyearlyPeriod.from_sdmx_string",
                P + "QuarterlyPeriod.to_sdmx_string", P + "QuarterlyPeriod.from_sdmx_string",
                P + "MonthlyPeriod.to_sdmx_string", P + "MonthlyPeriod.from_sdmx_string",
                P + "DailyPeriod.to_sdmx_string", P + "DailyPeriod.from_sdmx_string",
                P + "IntegerPeriod.to_sdmx_string", P + "IntegerPeriod.from_sdmx_string"]


@contract("C11", targets=SDMX_TARGETS, instances=ALL, opts={"max_paths": 3000})
def sdmx_roundtrip_autodetect(K, cls):
    """Parsing the library's own SDMX string with the frequency auto-detected returns the period."""
    p = cal_period(K, cls)
    s = K.method(p, "to_sdmx_string")
    f = K.call(D.Frequency.from_sdmx_string, s)
    K.ensure("frequency auto-detected", f is FREQ[cls])
    back = K.call(D.Period.from_sdmx_string, s)
    K.ensure("Period.from_sdmx_string(to_sdmx_string(p))==p", same(K, back, cls, p))
    back = K.call(D.Period.from_sdmx_string, s, frequency=FREQ[cls])
    K.ensure("with explicit frequency", same(K, back, cls, p))
    tup = K.call(D.periods_from_sdmx_strings, (s,))
    K.ensure("periods_from_sdmx_strings auto-detects", same(K, K.index(tup, 0), cls, p))
    K.ensure("str(p) is the SDMX string", K.str_eq(K.builtin("str", p), s))


REPR = {D.YearlyPeriod: ("yy({})", 1), D.HalfyearlyPeriod: ("hh({},{})", 2), D.QuarterlyPeriod: ("qq({},{})", 2),
        D.MonthlyPeriod: ("mm({},{})", 2), D.DailyPeriod: ("dd({},{},{})", 3), D.IntegerPeriod: ("ii({})", 1)}


@contract("C11", targets=[P + "YearlyPeriod.__repr__", P + "HalfyearlyPeriod.__repr__", P + "QuarterlyPeriod.__repr__",
                          P + "MonthlyPeriod.__repr__", P + "DailyPeriod.__repr__", P + "IntegerPeriod.__repr__",
                          P + "_remove_blanks", P + "_period_constructor_with_ellipsis", P + "dd"], instances=ALL)
def repr_roundtrip(K, cls):
    """repr(p) is `ctor(args)`; calling that constructor with those arguments returns p."""
    p = cal_period(K, cls)
    template, n = REPR[cls]
    args = K.parse_ints(K.builtin("repr", p), template)
    K.ensure("repr has the constructor form", args is not None and len(args) == n)
    if args is None or len(args) != n:
        return
    ctor = getattr(D, template[:2])
    back = K.call(ctor, *args)
    K.ensure("ctor(*args_of_repr(p))==p", same(K, back, cls, p))


# ------------------------------------------------------------------------------ refrequent
def containing(K, q, y, m, d):
    """The calendar day (y,m,d) lies inside period q."""
    ys, ms, ds = K.method(q, "to_ymd", position="start")
    ye, me, de = K.method(q, "to_ymd", position="end")
    o = ordinal(K, y, m, d)
    return K.And(ordinal(K, ys, ms, ds) <= o, o <= ordinal(K, ye, me, de))


@contract("C11", targets=[P + "Period.refrequent", P + "refrequent", P + "RegularPeriodMixin.from_ymd", P + "DailyPeriod.from_ymd"],
          instances=[(a, b, pos) for a in CAL for b in CAL for pos in POS])
def refrequent_containment(K, src, dst, pos):
    """refrequent returns the target-frequency period that contains the chosen position of the source."""
    p = cal_period(K, src)
    y, m, d = K.method(p, "to_ymd", position=pos)
    q = K.method(p, "refrequent", FREQ[dst], position=pos)
    K.ensure("target class", K.cls_of(q) is dst)
    K.ensure("target period contains the position date", containing(K, q, y, m, d))
    q2 = K.call(D.refrequent, p, FREQ[dst], position=pos)
    K.ensure("module-level refrequent agrees", same(K, q2, dst, q))
    if src is dst:
        K.ensure("same frequency is the identity", same(K, q, src, p))


@contract("C11", targets=[P + "Period.refrequent"], instances=[(a, b, pos) for a in CAL for b in CAL if a is not b for pos in POS])
def refrequent_monotone(K, src, dst, pos):
    p1 = cal_period(K, src, "s1")
    p2 = cal_period(K, src, "s2")
    K.assume(K.attr(p1, "serial") <= K.attr(p2, "serial"))
    q1 = K.method(p1, "refrequent", FREQ[dst], position=pos)
    q2 = K.method(p2, "refrequent", FREQ[dst], position=pos)
    K.ensure("p1<=p2 => refrequent(p1)<=refrequent(p2)", K.attr(q1, "serial") <= K.attr(q2, "serial"))


FINER = [(a, b) for a in CAL for b in CAL if int(b.frequency) > int(a.frequency)]


@contract("C11", targets=[P + "Period.refrequent"], instances=[(a, b, p1, p2) for a, b in FINER for p1 in POS for p2 in POS])
def refrequent_coarse_fine_coarse(K, coarse, fine, pos1, pos2):
    """Converting to a finer frequency and back never leaves the original coarse period."""
    c = cal_period(K, coarse)
    f = K.method(c, "refrequent", FREQ[fine], position=pos1)
    back = K.method(f, "refrequent", FREQ[coarse], position=pos2)
    K.ensure("coarse->fine->coarse == coarse", same(K, back, coarse, c))


@contract("C11", targets=[P + "RegularPeriodMixin.to_daily", P + "DailyPeriod.to_daily"], instances=[(c, pos) for c in REG for pos in POS])
def to_daily(K, cls, pos):
    p = cal_period(K, cls)
    y, m, d = K.method(p, "to_ymd", position=pos)
    q = K.method(p, "to_daily", position=pos)
    K.ensure("to_daily is the daily period of the position date", K.And(K.cls_of(q) is D.DailyPeriod, K.attr(q, "serial") == ordinal(K, y, m, d)))


@contract("C11", targets=[P + "Frequency.from_sdmx_string"], instances=[(D.QuarterlyPeriod,)], canary=True)
def canary_wrong_detection(K, cls):
    p = cal_period(K, cls)
    s = K.method(p, "to_sdmx_string")
    f = K.call(D.Frequency.from_sdmx_string, s)
    K.ensure("WRONG: quarterly strings are detected as monthly", f is D.Frequency.MONTHLY)


# ------------------------------------------------------------------------------ bounded stand-in for the decimal layer
@bounded("C11", bound="quick: every 37th period of each calendar frequency over years 1..9999 and every 211th day, integer periods -2000..2000; thorough: every period / every 7th day")
def string_roundtrips_native(B):
    """The string layer rests on assumed format/int/split contracts; this replays the full round trips natively."""
    stride = 1 if B.thorough else 37
    try:
        return _string_roundtrips_native(B)
    except Exception as ex:      # the real code raised on its own output
        B.fail(f"exception {type(ex).__name__}: {ex}", {})


def _string_roundtrips_native(B):
    stride = 1 if B.thorough else 37
    for cls in REG:
        F = int(cls.frequency)
        for serial in range(F, 9999 * F + F, stride):
            B.case()
            p = cls(serial)
            s = p.to_sdmx_string()
            q = D.Period.from_sdmx_string(s)
            if type(q) is not cls or q.serial != serial or eval(repr(p), {"yy": D.yy, "hh": D.hh, "qq": D.qq, "mm": D.mm}).serial != serial:
                B.fail("sdmx/repr round trip", {"class": cls.__name__, "serial": serial, "sdmx": s})
                return
            for pos in POS:
                if type(p).from_iso_string(p.to_iso_string(position=pos)).serial != serial:
                    B.fail("iso round trip", {"class": cls.__name__, "serial": serial, "pos": pos})
                    return
    for serial in range(1, MAX_ORD + 1, 7 if B.thorough else 211):
        B.case()
        p = D.DailyPeriod(serial)
        q = D.Period.from_sdmx_string(p.to_sdmx_string())
        if type(q) is not D.DailyPeriod or q.serial != serial or eval(repr(p), {"dd": D.dd}).serial != serial \
                or D.Period.from_iso_string(p.to_iso_string()).serial != serial:
            B.fail("daily sdmx/iso/repr round trip", {"serial": serial})
            return
    for serial in range(-2000, 2001):
        B.case()
        p = D.IntegerPeriod(serial)
        q = D.Period.from_sdmx_string(p.to_sdmx_string())
        if type(q) is not D.IntegerPeriod or q.serial != serial or eval(repr(p), {"ii": D.ii}).serial != serial:
            B.fail("integer sdmx/repr round trip", {"serial": serial})
            return


# ------------------------------------------------------------------------------ the generic constructors dispatch to the class of the frequency
@contract("C11", targets=[P + "Period.from_year_segment", P + "Period.from_ymd"], instances=[(c,) for c in ALL])
def generic_constructors_agree_with_the_class_constructors(K, cls):
    """Period.from_year_segment(freq, year, segment) / Period.from_ymd(freq, y, m, d) create the period of THAT frequency
    that the (year, segment) / the calendar day denotes: the round trip through the period's own accessors is the identity."""
    p = cal_period(K, cls)
    if cls is D.IntegerPeriod:
        # integer periods have no (year, segment) accessor: the generic constructor must be the class constructor
        y, s = K.int("year", -500, 500), K.int("segment", -500, 500)
        a, b = K.call(D.Period.from_year_segment, FREQ[cls], y, s), K.call(cls.from_year_segment, y, s)
        K.ensure("generic from_year_segment == IntegerPeriod.from_year_segment", same(K, a, cls, b))
        return
    y, s = K.method(p, "to_year_segment")
    back = K.call(D.Period.from_year_segment, FREQ[cls], y, s)
    K.ensure("from_year_segment(freq, *p.to_year_segment()) == p", same(K, back, cls, p))
    if cls in CAL:
        yy, mm, dd = K.method(p, "to_ymd", position="start")
        back2 = K.call(D.Period.from_ymd, FREQ[cls], yy, mm, dd)
        K.ensure("from_ymd(freq, *p.to_ymd()) == p", same(K, back2, cls, p))


HISTORY = [(a, b) for a in ALL for b in ALL if a is not b]


_QUICK_HISTORY = [(a, b) for a, b in HISTORY if a in (D.YearlyPeriod, D.MonthlyPeriod) or b is D.YearlyPeriod]


@contract("C11", targets=[P + "Frequency.from_sdmx_string", P + "Period.from_sdmx_string"], instances=_QUICK_HISTORY, opts={"max_paths": 3000},
          thorough=[h for h in HISTORY if h not in _QUICK_HISTORY])
def sdmx_detection_does_not_depend_on_earlier_calls(K, first, cls):
    """History: whatever string was parsed before (here one of another frequency), the library's own SDMX string of a
    period is detected as its frequency and parses back to the period - detection keeps no memory between calls."""
    q = cal_period(K, first, "earlier")
    K.call(D.Period.from_sdmx_string, K.method(q, "to_sdmx_string"))
    p = cal_period(K, cls)
    s = K.method(p, "to_sdmx_string")
    K.ensure("frequency auto-detected after an earlier call", K.call(D.Frequency.from_sdmx_string, s) is FREQ[cls])
    K.ensure("round trip after an earlier call", same(K, K.call(D.Period.from_sdmx_string, s), cls, p))
