"""C10 - a Series is a period-indexed map.

Ghost view of a series s:  V(s)(t, c) = data[t - start, c] inside the stored rows, NaN outside (and for the
empty series, whose start is None).  Representation invariant RI(s): start is None <=> no rows; a non-empty
series has an observation in its first and in its last row.  Every public operation below is proved to
transform the WHOLE view as the property states (so that any sequence of operations is covered by induction
on the sequence), to re-establish RI where the property promises it, and to respect its frame.
Rows are symbolic (unbounded); the number of variants is enumerated (1, 2)."""
import fractions
import operator
import numpy as np
from pyvc.prove import contract
from pyvc.bounded import bounded
import irispie.dates as D
from irispie.series import main as M
from irispie.series.main import Series

P = "irispie.series.main:"
NV = [1, 2]
CLS = [D.QuarterlyPeriod, D.IntegerPeriod]
LO, HI = 8000, 8040


def ser(K, cls):
    return (LO, HI) if cls is not D.DailyPeriod else (730000, 730040)


def row_has_obs(K, data, i, nv):
    return K.Or(*[K.Not(K.cell_is_nan(K.cell(data, i, c))) for c in range(nv)])


def mk_series(K, name, cls, nv, empty=False, trimmed=True, max_rows=6):
    """A series satisfying RI.  Returns (obj, start_serial|None, data)."""
    if empty:
        data = K.array(name + "_data", (0, nv))
        s = K.obj(Series, start=None, data=data, data_type=np.float64, metadata={}, __description__="")
        return s, None, data
    lo, hi = ser(K, cls)
    rows = K.int(name + "_rows", 1, None, sample=(1, max_rows))
    start = K.int(name + "_start", lo, hi)
    data = K.array(name + "_data", (rows, nv))
    if trimmed:
        K.assume(row_has_obs(K, data, 0, nv))
        K.assume(row_has_obs(K, data, rows - 1, nv))
    s = K.obj(Series, start=K.obj(cls, serial=start), data=data, data_type=np.float64, metadata={}, __description__="")
    return s, start, data


def V(K, start, data, t, c):
    """The view: cell of period serial t, variant c."""
    if start is None:
        return K.nan_cell()
    rows = K.shape(data)[0]
    pos = t - start
    return K.cell_ite(K.And(pos >= 0, pos < rows), lambda: K.cell(data, pos, c), lambda: K.nan_cell())


def state(K, s):
    st = K.attr(s, "start")
    return (None if K.is_none(st) else K.attr(st, "serial")), K.attr(s, "data")


def RI(K, s, nv, cls=None):
    start, data = state(K, s)
    rows = K.shape(data)[0]
    if start is None:
        return rows == 0
    if not K.symbolic and rows < 1:
        return False                    # a start without rows (natively the cells below do not exist)
    ok = K.And(rows >= 1, row_has_obs(K, data, 0, nv), row_has_obs(K, data, rows - 1, nv))
    if cls is not None:
        ok = K.And(ok, K.cls_of(K.attr(s, "start")) is cls)
    return ok


def generic_cell(K, cls, nv, name="t"):
    lo, hi = ser(K, cls)
    t = K.int(name, lo - 30, hi + 60)
    c = K.int(name + "_c", 0, nv - 1)
    return t, c


# ------------------------------------------------------------------------------ trim and its helper
@contract("C10", targets=[P + "_get_num_leading_trailing_missing_rows"], instances=[(n,) for n in NV])
def leading_trailing_missing_rows(K, nv):
    rows = K.int("rows", 1, None, sample=(1, 6))
    data = K.array("data", (rows, nv))
    lead, trail = K.call(M._get_num_leading_trailing_missing_rows, data)
    i = K.int("i", 0, None, sample=(0, 5))
    K.assume(i < rows)
    K.ensure("bounds", K.And(lead >= 0, trail >= 0, lead <= rows, trail <= rows))
    K.ensure("rows before `lead` are all-missing", K.Implies(i < lead, K.Not(row_has_obs(K, data, i, nv))))
    K.ensure("rows after rows-trail are all-missing", K.Implies(i >= rows - trail, K.Not(row_has_obs(K, data, i, nv))))
    K.ensure("a row with an observation is kept", K.Implies(row_has_obs(K, data, i, nv), K.And(i >= lead, i < rows - trail)))
    K.ensure("first kept row has an observation", K.Implies(trail < rows, row_has_obs(K, data, lead, nv)))
    K.ensure("last kept row has an observation", K.Implies(trail < rows, row_has_obs(K, data, rows - 1 - trail, nv)))


@contract("C10", targets=[P + "Series.trim", P + "Series.reset", P + "_get_num_leading_trailing_missing_rows"],
          instances=[(c, n) for c in CLS for n in NV])
def trim_preserves_view(K, cls, nv):
    s, start, data = mk_series(K, "s", cls, nv, trimmed=False)
    old = K.snapshot(data)
    K.method(s, "trim")
    t, c = generic_cell(K, cls, nv)
    K.instantiate(t)
    ns, nd = state(K, s)
    K.ensure("view unchanged", K.cell_eq(V(K, ns, nd, t, c), V(K, start, old, t, c)))
    K.ensure("RI after trim", RI(K, s, nv, cls))
    K.ensure("variants kept", K.shape(nd)[1] == nv)


# ------------------------------------------------------------------------------ positions / expansion
@contract("C10", targets=[P + "_get_date_positions", "irispie.dates:period_indexes"], instances=[(c, k) for c in CLS for k in (1, 2, 3)])
def date_positions(K, cls, k):
    lo, hi = ser(K, cls)
    base = K.int("base", lo, hi)
    n = K.int("num_periods", 0, None, sample=(0, 6))
    ds = [K.int(f"d{i}", lo - 20, hi + 40) for i in range(k)]
    dates = tuple(K.obj(cls, serial=d) for d in ds)
    pos, b, a = K.call(M._get_date_positions, dates, K.obj(cls, serial=base), n)
    pos = K.items(pos)
    K.ensure("paddings non-negative", K.And(b >= 0, a >= 0))
    for i in range(k):
        K.ensure(f"pos[{i}] is the row of the period in the expanded data", pos[i] == (ds[i] - base) + b)
        K.ensure(f"pos[{i}] inside the expanded rows", K.And(pos[i] >= 0, pos[i] < b + n + a))
    K.ensure("minimal padding before", K.Or(b == 0, *[pos[i] == 0 for i in range(k)]))
    K.ensure("minimal padding after", K.Or(a == 0, *[pos[i] == b + n + a - 1 for i in range(k)]))


@contract("C10", targets=[P + "Series._create_expanded_data"], instances=[(n,) for n in NV])
def expanded_data(K, nv):
    s, start, data = mk_series(K, "s", D.QuarterlyPeriod, nv, trimmed=False)
    b = K.int("before", 0, None, sample=(0, 3))
    a = K.int("after", 0, None, sample=(0, 3))
    rows = K.shape(data)[0]
    new = K.method(s, "_create_expanded_data", b, a)
    K.ensure("shape", K.And(K.shape(new)[0] == rows + b + a, K.shape(new)[1] == nv))
    i = K.int("i", 0, None, sample=(0, 11))
    c = K.int("c", 0, nv - 1)
    K.assume(i < rows + b + a)
    K.ensure("cells shifted by `before`, NaN in the padding",
             K.cell_eq(K.cell(new, i, c), K.cell_ite(K.And(i >= b, i < b + rows), lambda: K.cell(data, i - b, c), lambda: K.nan_cell())))
    K.ensure("fresh memory", K.Not(K.same_buffer(new, data)) if not K.symbolic else not K.same_buffer(new, data))


# ------------------------------------------------------------------------------ writes
def set_data_case(K, cls, nv, k, mode, empty):
    s, start, data = mk_series(K, "s", cls, nv, empty=empty)
    old = K.snapshot(data)
    lo, hi = ser(K, cls)
    ds = [K.int(f"d{i}", lo - 10, hi + 20) for i in range(k)]
    dates = tuple(K.obj(cls, serial=d) for d in ds)
    if mode == "scalar":
        x = K.real("x")
        value = x
        written = lambda i, c: K.real_cell(x)     # noqa: E731
    elif mode == "nan":
        value = float("nan")
        written = lambda i, c: K.nan_cell()       # noqa: E731
    else:
        vals = K.array("vals", (k, nv))
        value = vals
        written = lambda i, c: K.cell(vals, i, c)  # noqa: E731
    K.method(s, "set_data", dates, value)
    ns, nd = state(K, s)
    t, c = generic_cell(K, cls, nv)
    K.instantiate(t)
    # last write to an addressed period wins; everything else keeps its value
    expect = V(K, start, old, t, c)
    for i in range(k):
        expect = K.cell_ite(t == ds[i], lambda i=i: written(i, c), lambda e=expect: e)
    K.ensure("write changes exactly the addressed cells", K.cell_eq(V(K, ns, nd, t, c), expect))
    K.ensure("RI after write", RI(K, s, nv, cls))


@contract("C10", targets=[P + "Series.set_data", P + "_get_date_positions", P + "Series._create_expanded_data", P + "Series.trim",
                          P + "Series.resolve_periods", P + "Series._resolve_variants", "irispie.has_variants:iter_variants",
                          "irispie.conveniences.iterators:exhaust_then_last"],
          instances=[(c, n, k, m, e) for c in CLS[:1] for n in NV for k in (1, 2) for m in ("scalar", "nan", "array") for e in (False, True) if not (k == 2 and n == 2 and m != "array")]
          + [(CLS[1], 1, 1, "scalar", False), (CLS[1], 1, 1, "array", True)],
          thorough=[(c, n, k, m, e) for c in CLS for n in NV for k in (1, 2) for m in ("scalar", "nan", "array") for e in (False, True)],
          opts={"max_paths": 4000})
def set_data_tuple(K, cls, nv, k, mode, empty):
    set_data_case(K, cls, nv, k, mode, empty)


@contract("C10", targets=[P + "Series.set_data"], instances=[(c, n, m) for c in CLS for n in NV for m in ("scalar", "nan")], opts={"max_paths": 4000})
def set_data_span(K, cls, nv, mode):
    """Write of one value over a whole span (symbolic length)."""
    s, start, data = mk_series(K, "s", cls, nv)
    old = K.snapshot(data)
    lo, hi = ser(K, cls)
    a = K.int("from", lo - 10, hi + 20)
    b = K.int("until", lo - 10, hi + 20)
    K.assume(a <= b)
    span = K.call(D.Span, K.obj(cls, serial=a), K.obj(cls, serial=b))
    x = K.real("x")
    K.method(s, "set_data", span, x if mode == "scalar" else float("nan"))
    ns, nd = state(K, s)
    t, c = generic_cell(K, cls, nv)
    K.instantiate(t)
    newcell = (lambda: K.real_cell(x)) if mode == "scalar" else (lambda: K.nan_cell())
    K.ensure("span write changes exactly the periods of the span",
             K.cell_eq(V(K, ns, nd, t, c), K.cell_ite(K.And(a <= t, t <= b), newcell, lambda: V(K, start, old, t, c))))
    K.ensure("RI after write", RI(K, s, nv, cls))


# ------------------------------------------------------------------------------ reads
@contract("C10", targets=[P + "Series.get_data", P + "Series.get_data_and_periods", P + "Series._resolve_dates_and_positions"],
          instances=[(c, n, k, e) for c in CLS for n in NV for k in (1, 2) for e in (False, True)], opts={"max_paths": 3000})
def get_data_tuple(K, cls, nv, k, empty):
    s, start, data = mk_series(K, "s", cls, nv, empty=empty)
    old = K.snapshot(data)
    lo, hi = ser(K, cls)
    ds = [K.int(f"d{i}", lo - 10, hi + 20) for i in range(k)]
    dates = tuple(K.obj(cls, serial=d) for d in ds)
    out = K.method(s, "get_data", dates)
    K.ensure("shape (len(dates), variants)", K.And(K.shape(out)[0] == k, K.shape(out)[1] == nv))
    c = K.int("c", 0, nv - 1)
    for i in range(k):
        K.ensure(f"read[{i}] returns the stored value or NaN", K.cell_eq(K.cell(out, i, c), V(K, start, old, ds[i], c)))
    ns, nd = state(K, s)
    t, c2 = generic_cell(K, cls, nv)
    K.ensure("read does not modify the receiver", K.cell_eq(V(K, ns, nd, t, c2), V(K, start, old, t, c2)))
    K.ensure("result does not alias the receiver's data", not K.same_buffer(out, nd))


@contract("C10", targets=[P + "Series.get_data", P + "Series.get_data_from_until"], instances=[(c, n) for c in CLS for n in NV], opts={"max_paths": 3000})
def get_data_span(K, cls, nv):
    s, start, data = mk_series(K, "s", cls, nv)
    lo, hi = ser(K, cls)
    a = K.int("from", lo - 10, hi + 20)
    b = K.int("until", lo - 10, hi + 20)
    K.assume(a <= b)
    span = K.call(D.Span, K.obj(cls, serial=a), K.obj(cls, serial=b))
    out = K.method(s, "get_data", span)
    i = K.int("i", 0, None, sample=(0, 12))
    c = K.int("c", 0, nv - 1)
    K.assume(i <= b - a)
    K.ensure("rows == len(span)", K.shape(out)[0] == b - a + 1)
    K.ensure("row i is period from+i", K.cell_eq(K.cell(out, i, c), V(K, start, data, a + i, c)))
    out2 = K.method(s, "get_data_from_until", (K.obj(cls, serial=a), K.obj(cls, serial=b)))
    K.ensure("from_until rows", K.shape(out2)[0] == b - a + 1)
    K.ensure("from_until row i is period from+i", K.cell_eq(K.cell(out2, i, c), V(K, start, data, a + i, c)))


# ------------------------------------------------------------------------------ shift / clip / span
@contract("C10", targets=[P + "Series.shift", P + "Series._shift_by_number", P + "Series._shift_yoy"], instances=[(c, n) for c in CLS for n in NV])
def shift_by_number(K, cls, nv):
    s, start, data = mk_series(K, "s", cls, nv)
    by = K.int("by", -40, 40)
    K.method(s, "shift", by)
    ns, nd = state(K, s)
    t, c = generic_cell(K, cls, nv)
    K.instantiate(t)
    K.ensure("shift(by): value at t is the old value at t+by", K.cell_eq(V(K, ns, nd, t, c), V(K, start, data, t + by, c)))
    K.ensure("RI kept", RI(K, s, nv, cls))
    e, _, _ = mk_series(K, "e", cls, nv, empty=True)
    K.method(e, "shift", by)
    K.ensure("empty series stays empty", K.is_none(K.attr(e, "start")))


@contract("C10", targets=[P + "Series.end", P + "Series.span", P + "Series.periods", P + "Series.from_until", P + "Series.frequency",
                          P + "Series.num_periods", P + "Series.num_variants", P + "Series.is_empty"], instances=[(c, n) for c in CLS for n in NV])
def span_covers_observations(K, cls, nv):
    s, start, data = mk_series(K, "s", cls, nv)
    rows = K.shape(data)[0]
    end = K.getattr(s, "end")
    K.ensure("end == start + rows - 1", K.And(K.cls_of(end) is cls, K.attr(end, "serial") == start + rows - 1))
    sp = K.getattr(s, "span")
    K.ensure("span == start..end", K.And(K.attr(K.getattr(sp, "start"), "serial") == start, K.attr(K.getattr(sp, "end"), "serial") == start + rows - 1,
                                         K.getattr(sp, "step") == 1))
    t, c = generic_cell(K, cls, nv)
    K.instantiate(t)
    K.ensure("every non-missing value lies inside the reported span",
             K.Implies(K.Not(K.cell_is_nan(V(K, start, data, t, c))), K.And(start <= t, t <= start + rows - 1)))
    K.ensure("no all-missing leading/trailing period", K.And(row_has_obs(K, data, 0, nv), row_has_obs(K, data, rows - 1, nv)))
    K.ensure("num_periods / num_variants", K.And(K.getattr(s, "num_periods") == rows, K.getattr(s, "num_variants") == nv))
    K.ensure("frequency", K.getattr(s, "frequency") is cls.frequency)
    e, _, _ = mk_series(K, "e", cls, nv, empty=True)
    K.ensure("empty series: no start, no end, empty span", K.And(K.is_none(K.getattr(e, "end")), len(K.items(K.getattr(e, "span"))) == 0))


@contract("C10", targets=[P + "Series.clip", P + "Series.get_data_from_until"], instances=[(c, n, w) for c in CLS for n in NV for w in ("both", "start", "end")],
          opts={"max_paths": 3000})
def clip_restricts_view(K, cls, nv, which):
    s, start, data = mk_series(K, "s", cls, nv)
    rows = K.shape(data)[0]
    lo, hi = ser(K, cls)
    a = K.int("new_start", lo - 10, hi + 20)
    b = K.int("new_end", lo - 10, hi + 20)
    # the clipping window meets the series (clip to a disjoint window is outside the documented use)
    na = None if which == "end" else K.obj(cls, serial=a)
    nb = None if which == "start" else K.obj(cls, serial=b)
    eff_a = start if na is None else K.ite(a < start, start, a)
    eff_b = start + rows - 1 if nb is None else K.ite(b > start + rows - 1, start + rows - 1, b)
    K.assume(eff_a <= eff_b)
    K.method(s, "clip", na, nb)
    ns, nd = state(K, s)
    t, c = generic_cell(K, cls, nv)
    K.instantiate(t)
    K.ensure("clip keeps exactly the periods inside [max(start,new_start), min(end,new_end)]",
             K.cell_eq(V(K, ns, nd, t, c), K.cell_ite(K.And(eff_a <= t, t <= eff_b), lambda: V(K, start, data, t, c), lambda: K.nan_cell())))
    K.ensure("start is the effective start", ns == eff_a)


# ------------------------------------------------------------------------------ arithmetic
OPS = {"add": (operator.add, lambda K, x, y: x + y), "sub": (operator.sub, lambda K, x, y: x - y),
       "mul": (operator.mul, lambda K, x, y: x * y), "truediv": (operator.truediv, lambda K, x, y: x / y)}


def op_cell(K, name, a, b):
    """Cell-level result of a binary operator: NaN if either operand is NaN."""
    nan = K.Or(K.cell_is_nan(a), K.cell_is_nan(b))
    return K.cell_ite(nan, lambda: K.nan_cell(), lambda: K.real_cell(OPS[name][1](K, K.cell_val(a), K.cell_val(b))))


@contract("C10", targets=[P + "Series._binop", P + "Series.__add__", P + "Series.__sub__", P + "Series.__mul__", P + "Series.__truediv__",
                          P + "Series._replace_start_and_values", P + "Series._replace_data", P + "Series.get_data_from_until",
                          "irispie.dates:get_encompassing_span", "irispie.dates:_get_period"],
          instances=[(c, n, "add") for c in CLS for n in NV] + [(CLS[0], 1, o) for o in ("sub", "mul", "truediv")],
          thorough=[(c, n, o) for c in CLS for n in NV for o in OPS], opts={"max_paths": 6000})
def binop_aligns_on_periods(K, cls, nv, op):
    x, xs, xd = mk_series(K, "x", cls, nv)
    y, ys, yd = mk_series(K, "y", cls, nv)
    if op == "truediv":
        pass
    r = K.binop({"add": "+", "sub": "-", "mul": "*", "truediv": "/"}[op], x, y)
    rs, rd = state(K, r)
    t, c = generic_cell(K, cls, nv)
    K.instantiate(t)
    a, b = V(K, xs, xd, t, c), V(K, ys, yd, t, c)
    if op == "truediv":
        K.assume(K.Or(K.cell_is_nan(b), K.cell_val(b) != 0))
    K.ensure("result(t) == x(t) op y(t), period by period", K.cell_eq(V(K, rs, rd, t, c), op_cell(K, op, a, b)))
    K.ensure("RI of the result (all-missing => empty series)", RI(K, r, nv, cls))
    nxs, nxd = state(K, x)
    nys, nyd = state(K, y)
    K.ensure("operands untouched", K.And(K.cell_eq(V(K, nxs, nxd, t, c), a), K.cell_eq(V(K, nys, nyd, t, c), b)))
    K.ensure("result shares no memory with the operands", (not K.same_buffer(rd, nxd)) and (not K.same_buffer(rd, nyd)))


@contract("C10", targets=[P + "Series._binop", P + "Series.apply", P + "Series.__neg__", P + "Series.__mul__", P + "Series.__rmul__", P + "Series.__radd__"],
          instances=[(c, n) for c in CLS for n in NV], opts={"max_paths": 3000})
def scalar_arithmetic(K, cls, nv):
    x, xs, xd = mk_series(K, "x", cls, nv)
    k = K.real("k")
    t, c = generic_cell(K, cls, nv)
    K.instantiate(t)
    a = V(K, xs, xd, t, c)
    for label, r, f in (("x*k", K.binop("*", x, k), lambda v: v * k), ("k*x", K.binop("*", k, x), lambda v: k * v),
                        ("x+k", K.binop("+", x, k), lambda v: v + k), ("k+x", K.binop("+", k, x), lambda v: k + v),
                        ("-x", K.method(x, "__neg__"), lambda v: -v)):
        rs, rd = state(K, r)
        want = K.cell_ite(K.cell_is_nan(a), lambda: K.nan_cell(), lambda f=f: K.real_cell(f(K.cell_val(a))))
        K.ensure(f"{label}: element-wise on the same periods", K.cell_eq(V(K, rs, rd, t, c), want))
        K.ensure(f"{label}: RI", RI(K, r, nv, cls))
        K.ensure(f"{label}: no aliasing of the operand", not K.same_buffer(rd, K.attr(x, "data")))
    nxs, nxd = state(K, x)
    K.ensure("operand untouched", K.cell_eq(V(K, nxs, nxd, t, c), a))


@contract("C10", targets=[P + "Series._binop"], instances=[(c, n, w) for c in CLS[:1] for n in NV for w in ("left", "right")], opts={"max_paths": 3000})
def binop_with_empty_operand(K, cls, nv, which):
    x, xs, xd = mk_series(K, "x", cls, nv)
    e, _, _ = mk_series(K, "e", cls, nv, empty=True)
    r = K.binop("+", x, e) if which == "right" else K.binop("+", e, x)
    K.ensure("x + empty is the empty series (every cell NaN)", K.And(K.is_none(K.attr(r, "start")), K.shape(K.attr(r, "data"))[0] == 0))


@contract("C10", targets=[P + "Series._binop"], instances=[(n,) for n in NV])
def binop_of_two_empty_series(K, nv):
    """empty op empty must be the empty series (property: 'including empty series')."""
    e1, _, _ = mk_series(K, "e1", D.QuarterlyPeriod, nv, empty=True)
    e2, _, _ = mk_series(K, "e2", D.QuarterlyPeriod, nv, empty=True)
    r = K.binop("+", e1, e2)
    K.ensure("empty + empty is the empty series", K.And(K.is_none(K.attr(r, "start")), K.shape(K.attr(r, "data"))[0] == 0))


# ------------------------------------------------------------------------------ copy / functional forms
@contract("C10", targets=["irispie.conveniences.copies:Mixin.copy", P + "Series.__pos__"], instances=[(c, n) for c in CLS for n in NV])
def copy_is_independent(K, cls, nv):
    x, xs, xd = mk_series(K, "x", cls, nv)
    y = K.method(x, "copy")
    ys, yd = state(K, y)
    t, c = generic_cell(K, cls, nv)
    K.instantiate(t)
    K.ensure("copy has the same view", K.cell_eq(V(K, ys, yd, t, c), V(K, xs, xd, t, c)))
    K.ensure("copy shares no memory", not K.same_buffer(yd, K.attr(x, "data")))
    K.ensure("copy has its own start object", K.attr(y, "start") is not K.attr(x, "start"))
    # mutating the copy leaves the original alone
    v = K.real("v")
    d = K.int("d", ser(K, cls)[0] - 5, ser(K, cls)[1] + 10)
    K.method(y, "set_data", (K.obj(cls, serial=d),), v)
    nxs, nxd = state(K, x)
    K.ensure("writing into the copy does not change the original", K.cell_eq(V(K, nxs, nxd, t, c), V(K, xs, xd, t, c)))


@contract("C10", targets=[P + "Series.trim"], instances=[(D.QuarterlyPeriod, 1)], canary=True)
def canary_trim_keeps_rows(K, cls, nv):
    s, start, data = mk_series(K, "s", cls, nv, trimmed=False)
    rows = K.shape(data)[0]
    K.method(s, "trim")
    ns, nd = state(K, s)
    K.ensure("WRONG: trim never removes rows", K.shape(nd)[0] == rows)


# ------------------------------------------------------------------------------ callee contract of trim (modular use)
TRIM_FACTS = ["trim.empty: no start, no rows", "trim.empty: every row was all-missing",
              "trim.kept block lies inside the old rows", "trim.new data is the kept block", "trim.rows outside the kept block were all-missing",
              "trim.first and last kept rows have an observation", "trim.start moved by the number of leading rows",
              "trim.frame: description, metadata and data type are left as they were"]


@contract("C10", targets=[P + "Series.trim"], instances=[(c, n) for c in CLS for n in NV])
def trim_spec(K, cls, nv):
    """Strongest postcondition of trim, in the form the summary below assumes at call sites."""
    lo, hi = ser(K, cls)
    rows = K.int("s_rows", 0, None, sample=(0, 6))
    start = K.int("s_start", lo, hi)
    data = K.array("s_data", (rows, nv))
    meta = {"source": "somewhere"}
    s = K.obj(Series, start=K.obj(cls, serial=start), data=data, data_type=np.float64, metadata=meta, __description__="a description")
    old = K.snapshot(data)
    K.method(s, "trim")
    ns, nd = state(K, s)
    K.ensure(TRIM_FACTS[7], K.attr(s, "__description__") == "a description" and K.attr(s, "metadata") is meta and K.attr(s, "metadata") == {"source": "somewhere"}
             and K.attr(s, "data_type") is np.float64)
    nrows = K.shape(nd)[0]
    i = K.int("i", 0, None, sample=(0, 6))
    c = K.int("c", 0, nv - 1)
    K.assume(i < rows)
    if ns is None:
        K.ensure(TRIM_FACTS[0], K.And(nrows == 0, K.shape(nd)[1] == nv))
        K.ensure(TRIM_FACTS[1], K.Not(row_has_obs(K, old, i, nv)))
    else:
        lead = ns - start
        trail = rows - lead - nrows
        K.ensure(TRIM_FACTS[2], K.And(lead >= 0, trail >= 0, nrows >= 1, K.shape(nd)[1] == nv, K.cls_of(K.attr(s, "start")) is cls))
        K.ensure(TRIM_FACTS[3], K.Implies(i < nrows, K.cell_eq(K.cell(nd, K.ite(i < nrows, i, 0), c), K.cell(old, K.ite(i < nrows, lead + i, 0), c))))
        K.ensure(TRIM_FACTS[4], K.Implies(K.Or(i < lead, i >= rows - trail), K.Not(row_has_obs(K, old, i, nv))))
        K.ensure(TRIM_FACTS[5], K.And(row_has_obs(K, old, lead, nv), row_has_obs(K, old, rows - 1 - trail, nv)))
        K.ensure(TRIM_FACTS[6], ns == start + lead)


from pyvc.prove import summary
from pyvc.values import SV, Obj, Unsupported
import z3 as _z3


@summary(P + "Series.trim", proved_by="trim_spec", assumes=TRIM_FACTS, prop="C10")
def trim_summary(I, args, kwargs, node):
    """Call-site form of trim_spec: the receiver's (start, data) are replaced by ANY pair satisfying the proved
    facts: either the empty state, or the block data[lead : rows-trail] (a view, as in the real code) with
    start+lead, where rows outside the block are all-missing and the block's edge rows have an observation."""
    from pyvc.ndarray import zint, NDArr
    from pyvc.values import LibObj
    self = args[0]
    data = self.attrs["data"]
    start = self.attrs["start"]
    if not isinstance(data, NDArr) or data.ndim != 2 or not isinstance(data.shape[1], int):
        raise Unsupported("trim summary: data must be a 2-D array with a concrete number of variants")
    nv = data.shape[1]
    rows = zint(data.shape[0])
    ctx = I.ctx

    def has_obs(i):
        from pyvc.interp import nan_of
        fl = []
        for c in range(nv):
            n = nan_of(data.get(i, _z3.IntVal(c)))
            fl.append(_z3.BoolVal(True) if n is None else _z3.Not(n))
        return _z3.Or(*fl)
    nonempty = _z3.Bool(ctx.fresh_name("trim_nonempty"))
    j = _z3.Int(ctx.fresh_name("trim_j"))
    if ctx.branch(nonempty):
        ctx.assume(rows >= 1)
        if start is None:
            # precondition of the contract: a series with data has a start
            I.fail("TypeError", "trim of data without a start period", node)
        lead = _z3.Int(ctx.fresh_name("trim_lead"))
        trail = _z3.Int(ctx.fresh_name("trim_trail"))
        ctx.assume(_z3.And(lead >= 0, trail >= 0, lead + trail < rows))
        ctx.assume(_z3.And(has_obs(lead), has_obs(rows - 1 - trail)))
        ctx.assume(_z3.ForAll([j], _z3.Implies(_z3.And(j >= 0, j < rows, _z3.Or(j < lead, j >= rows - trail)), _z3.Not(has_obs(j)))))
        s0 = zint(start.attrs["serial"]) if isinstance(start, Obj) else None
        if s0 is not None:      # the same fact keyed by period serial, for explicit instantiation by client contracts
            ctx.universals.append(lambda key, s0=s0, lead=lead, trail=trail: _z3.Implies(
                _z3.And(key - s0 >= 0, key - s0 < rows, _z3.Or(key - s0 < lead, key - s0 >= rows - trail)), _z3.Not(has_obs(key - s0))))
        view = I.lib.numpy.basic_index_keep(I, data, [LibObj("slice", start=SV(lead), stop=SV(rows - trail), step=None),
                                                       LibObj("slice", start=None, stop=None, step=None)], node)
        view = NDArr(view.buf, (SV(_z3.simplify(rows - lead - trail)), nv), view.axes)
        self.attrs["data"] = view
        self.attrs["start"] = I.binop("+", start, SV(lead), node)
    else:
        ctx.assume(_z3.ForAll([j], _z3.Implies(_z3.And(j >= 0, j < rows), _z3.Not(has_obs(j)))))
        s0 = zint(start.attrs["serial"]) if isinstance(start, Obj) else None
        if s0 is not None:
            ctx.universals.append(lambda key, s0=s0: _z3.Implies(_z3.And(key - s0 >= 0, key - s0 < rows), _z3.Not(has_obs(key - s0))))
        # the empty state of the proved facts: no start, no rows, same number of variants; nothing else is touched
        self.attrs["start"] = None
        self.attrs["data"] = I.lib.numpy.np_empty(I, [(0, nv)], {}, node)
    return self


# ------------------------------------------------------------------------------ overlay / underlay / hstack
def in_span(K, start, data, t):
    if start is None:
        return False
    return K.And(t >= start, t < start + K.shape(data)[0])


@contract("C10", targets=[P + "Series.overlay", P + "Series.overlay_by_span", P + "Series.underlay", P + "Series.underlay_by_span",
                          P + "_broadcast_variants_if_needed", P + "Series._shallow_copy_data"],
          instances=[(c, n, n, w) for c in CLS[:1] for n in NV for w in ("overlay", "underlay")] + [(CLS[1], 1, 1, "overlay")]
                    + [(CLS[0], a, b, w) for a, b in ((2, 1), (1, 2)) for w in ("overlay", "underlay")], opts={"max_paths": 6000})
def overlay_underlay(K, cls, nv, nvy, which):
    """x.overlay(y) / x.underlay(y), also between a single-variant and a multi-variant series (the single variant stands
    for every variant): the receiver becomes the laid series; the OTHER series keeps its values, its number of variants
    and its memory."""
    x, xs, xd = mk_series(K, "x", cls, nv)
    y, ys, yd = mk_series(K, "y", cls, nvy)
    oldx, oldy = K.snapshot(xd), K.snapshot(yd)
    K.method(x, which, y)
    ns, nd = state(K, x)
    out_nv = max(nv, nvy)
    t, c = generic_cell(K, cls, out_nv)
    K.instantiate(t)
    a, b = V(K, xs, oldx, t, c if nv > 1 else 0), V(K, ys, oldy, t, c if nvy > 1 else 0)
    if which == "overlay":
        want = K.cell_ite(in_span(K, ys, oldy, t), lambda: b, lambda: a)
        K.ensure("overlay: the other series wins on its whole span, the receiver elsewhere", K.cell_eq(V(K, ns, nd, t, c), want))
    else:
        want = K.cell_ite(in_span(K, xs, oldx, t), lambda: a, lambda: b)
        K.ensure("underlay: the receiver wins on its whole span, the other series elsewhere", K.cell_eq(V(K, ns, nd, t, c), want))
    K.ensure("number of variants of the receiver", K.shape(nd)[1] == out_nv)
    K.ensure("RI after lay", RI(K, x, out_nv, cls))
    nys, nyd = state(K, y)
    cy = K.int("cy", 0, nvy - 1)
    K.ensure("the other series keeps its number of variants", K.shape(nyd)[1] == nvy)
    K.ensure("the other series is untouched", K.cell_eq(V(K, nys, nyd, t, cy), V(K, ys, oldy, t, cy)))
    K.ensure("no memory shared with the other series", not K.same_buffer(nd, nyd))


@contract("C10", targets=[P + "Series.hstack", P + "hstack", P + "Series.__or__"], instances=[(c, n1, n2) for c in CLS[:1] for n1 in NV for n2 in NV],
          opts={"max_paths": 6000})
def hstack_aligns_on_periods(K, cls, n1, n2):
    x, xs, xd = mk_series(K, "x", cls, n1)
    y, ys, yd = mk_series(K, "y", cls, n2)
    r = K.method(x, "hstack", y)
    rs, rd = state(K, r)
    K.ensure("variants concatenated", K.shape(rd)[1] == n1 + n2)
    lo, hi = ser(K, cls)
    t = K.int("t", lo - 30, hi + 60)
    K.instantiate(t)
    for c in range(n1 + n2):
        want = V(K, xs, xd, t, c) if c < n1 else V(K, ys, yd, t, c - n1)
        K.ensure(f"column {c} aligned on periods", K.cell_eq(V(K, rs, rd, t, c), want))
    K.ensure("RI", RI(K, r, n1 + n2, cls))
    K.ensure("fresh memory", (not K.same_buffer(rd, K.attr(x, "data"))) and (not K.same_buffer(rd, K.attr(y, "data"))))


# ------------------------------------------------------------------------------ functional forms never touch their input
import irispie.series._elementwise as EW
import irispie.series._temporal as TT


@contract("C10", targets=["irispie.series._functionalize:FUNC_STRING", P + "shift", P + "Series.shift", P + "redate", P + "Series.redate"],
          instances=[(c, n) for c in CLS for n in NV])
def functional_shift_leaves_input(K, cls, nv):
    x, xs, xd = mk_series(K, "x", cls, nv)
    by = K.int("by", -40, 40)
    r = K.call(M.shift, x, by)
    rs, rd = state(K, r)
    t, c = generic_cell(K, cls, nv)
    K.ensure("functional shift returns the shifted series", K.cell_eq(V(K, rs, rd, t, c), V(K, xs, xd, t + by, c)))
    nxs, nxd = state(K, x)
    K.ensure("input untouched", K.And(nxs == xs, K.cell_eq(V(K, nxs, nxd, t, c), V(K, xs, xd, t, c))))
    K.ensure("result is a different object with its own memory and start", (r is not x) and (not K.same_buffer(rd, nxd)) and (K.attr(r, "start") is not K.attr(x, "start")))
    r2 = K.index(x, by)
    r2s, r2d = state(K, r2)
    K.ensure("x[k] is the functional shift", K.cell_eq(V(K, r2s, r2d, t, c), V(K, xs, xd, t + by, c)))
    K.ensure("x[k] does not alias x", not K.same_buffer(r2d, nxd))


@contract("C10", targets=["irispie.series._functionalize:FUNC_STRING", P + "overlay", P + "underlay"], instances=[(CLS[0], 1, w) for w in ("overlay", "underlay")],
          opts={"max_paths": 6000})
def functional_lay_leaves_inputs(K, cls, nv, which):
    x, xs, xd = mk_series(K, "x", cls, nv)
    y, ys, yd = mk_series(K, "y", cls, nv)
    r = K.call(getattr(M, which), x, y)
    rs, rd = state(K, r)
    t, c = generic_cell(K, cls, nv)
    K.instantiate(t)
    a, b = V(K, xs, xd, t, c), V(K, ys, yd, t, c)
    want = K.cell_ite(in_span(K, ys, yd, t), lambda: b, lambda: a) if which == "overlay" else K.cell_ite(in_span(K, xs, xd, t), lambda: a, lambda: b)
    K.ensure(f"functional {which} result", K.cell_eq(V(K, rs, rd, t, c), want))
    nxs, nxd = state(K, x)
    nys, nyd = state(K, y)
    K.ensure("both inputs untouched", K.And(K.cell_eq(V(K, nxs, nxd, t, c), a), K.cell_eq(V(K, nys, nyd, t, c), b)))
    K.ensure("no aliasing", (not K.same_buffer(rd, nxd)) and (not K.same_buffer(rd, nyd)))


ELEM = {"exp": lambda K, v: K.exp(v), "abs": lambda K, v: K.ite(v >= 0, v, -v), "log": lambda K, v: K.log(v)}


@contract("C10", targets=["irispie.series._elementwise:Inlay.exp", "irispie.series._elementwise:Inlay.abs", "irispie.series._elementwise:Inlay.log",
                          "irispie.series._elementwise:exp", "irispie.series._elementwise:abs", "irispie.series._elementwise:log"],
          instances=[(CLS[0], n, f) for n in NV for f in ELEM])
def elementwise_function(K, cls, nv, fname):
    x, xs, xd = mk_series(K, "x", cls, nv)
    r = K.call(getattr(EW, fname), x)
    rs, rd = state(K, r)
    t, c = generic_cell(K, cls, nv)
    a = V(K, xs, xd, t, c)
    if fname == "log":
        K.assume(K.Or(K.cell_is_nan(a), K.cell_val(a) > 0))
    want = K.cell_ite(K.cell_is_nan(a), lambda: K.nan_cell(), lambda: K.real_cell(ELEM[fname](K, K.cell_val(a))))
    K.ensure(f"irispie.{fname}(x)(t) == {fname}(x(t)) period by period", K.cell_eq(V(K, rs, rd, t, c), want))
    nxs, nxd = state(K, x)
    K.ensure("functional form leaves its input untouched", K.cell_eq(V(K, nxs, nxd, t, c), a))
    K.ensure("functional form does not alias its input", (r is not x) and (not K.same_buffer(rd, nxd)))
    K.method(x, fname)
    mxs, mxd = state(K, x)
    K.ensure("method form changes the receiver in place", K.cell_eq(V(K, mxs, mxd, t, c), want))


@contract("C10", targets=["irispie.series._statistics:Inlay.sum", "irispie.series._statistics:Inlay.mean", "irispie.series._statistics:sum",
                          "irispie.series._statistics:mean"], instances=[(CLS[0], 2, f) for f in ("sum", "mean")], opts={"max_paths": 4000})
def statistics_across_variants(K, cls, nv, fname):
    import irispie.series._statistics as ST
    x, xs, xd = mk_series(K, "x", cls, nv)
    r = K.call(getattr(ST, fname), x)
    rs, rd = state(K, r)
    lo, hi = ser(K, cls)
    t = K.int("t", lo - 30, hi + 60)
    K.instantiate(t)
    a0, a1 = V(K, xs, xd, t, 0), V(K, xs, xd, t, 1)
    nan = K.Or(K.cell_is_nan(a0), K.cell_is_nan(a1))
    tot = K.cell_val(a0) + K.cell_val(a1)
    want = K.cell_ite(nan, lambda: K.nan_cell(), lambda: K.real_cell(tot if fname == "sum" else tot / 2))
    K.ensure(f"{fname} across variants, period by period", K.cell_eq(V(K, rs, rd, t, 0), want))
    K.ensure("single variant result", K.shape(rd)[1] == 1)
    K.ensure("RI", RI(K, r, 1, cls))
    nxs, nxd = state(K, x)
    K.ensure("input untouched", K.And(K.cell_eq(V(K, nxs, nxd, t, 0), a0), K.cell_eq(V(K, nxs, nxd, t, 1), a1)))


@contract("C10", targets=["irispie.series._indexing:Inlay.__getitem__", "irispie.series._indexing:Inlay.__setitem__", "irispie.series._indexing:Inlay.__call__",
                          P + "Series._get_data_and_recreate"], instances=[(CLS[0], n) for n in NV], opts={"max_paths": 4000})
def indexing_dunders(K, cls, nv):
    x, xs, xd = mk_series(K, "x", cls, nv)
    old = K.snapshot(xd)
    lo, hi = ser(K, cls)
    d = K.int("d", lo - 10, hi + 20)
    per = K.obj(cls, serial=d)
    out = K.index(x, per)
    c = K.int("c", 0, nv - 1)
    K.ensure("x[p] reads the period", K.cell_eq(K.cell(out, 0, c), V(K, xs, old, d, c)))
    v = K.real("v")
    K.setitem(x, per, v)
    ns, nd = state(K, x)
    t, c2 = generic_cell(K, cls, nv)
    K.instantiate(t)
    K.ensure("x[p] = v writes exactly that period", K.cell_eq(V(K, ns, nd, t, c2), K.cell_ite(t == d, lambda: K.real_cell(v), lambda: V(K, xs, old, t, c2))))
    K.ensure("RI", RI(K, x, nv, cls))


# ------------------------------------------------------------------------------ bounded stand-ins (NOT proofs)
def _enum_series(B, cls, nv, max_rows, values):
    import itertools, math
    start = cls(8000) if cls is not D.DailyPeriod else cls(730000)
    for rows in range(1, max_rows + 1):
        cells = rows * nv
        combos = itertools.product(values, repeat=cells)
        for combo in combos:
            arr = np.array(combo, dtype=float).reshape(rows, nv)
            if np.all(np.isnan(arr[0])) or np.all(np.isnan(arr[-1])):
                continue
            yield Series(start=start, values=arr.copy()), arr


def _as_map(s):
    if s.start is None:
        return {}
    return {(s.start.serial + i, c): float(s.data[i, c]) for i in range(s.data.shape[0]) for c in range(s.data.shape[1]) if not np.isnan(s.data[i, c])}


def _close(a, b):
    if a in (float("inf"), float("-inf")) or b in (float("inf"), float("-inf")):
        return a == b
    return (a != a and b != b) or (a == a and b == b and abs(a - b) <= 1e-9 * max(1.0, abs(a), abs(b)))


@bounded("C10", bound="all series with <= 4 periods x 1 variant (and <= 3 x 2 in thorough) over values {NaN,-1,0.5,2}, quarterly+integer; fill methods previous/next/nearest/linear/constant; windows -1..-3; AR(1), AR(2) extrapolation over 3 periods")
def fill_moving_extrapolate_native(B):
    """fill_missing / moving windows / extrapolate act period by period (checked against a dictionary model);
    functional forms leave their input untouched and do not alias it."""
    import irispie as ir
    nan = float("nan")
    vals = (nan, -1.0, 0.5, 2.0)
    for cls in (D.QuarterlyPeriod, D.IntegerPeriod):
        for nv, max_rows in ((1, 4),) + (((2, 3),) if B.thorough else ((2, 2),)):
            for s, arr in _enum_series(B, cls, nv, max_rows, vals):
                before = _as_map(s)
                before_data = s.data.copy()
                start = s.start.serial
                rows = arr.shape[0]
                # ---- fill_missing
                for method in ("previous", "next", "nearest", "linear", "constant"):
                    B.case()
                    r = ir.fill_missing(s, method, 7.0 if method == "constant" else None)
                    if _as_map(s) != before or np.shares_memory(r.data, s.data) or r is s:
                        B.fail("functional fill_missing modified or aliased its input", {"method": method, "data": arr.tolist()})
                        return
                    got = _as_map(r)
                    for c in range(nv):
                        obs = [i for i in range(rows) if not np.isnan(arr[i, c])]
                        for i in range(rows):
                            if not np.isnan(arr[i, c]):
                                want = arr[i, c]
                            elif not obs:
                                want = 7.0 if method == "constant" else nan
                            elif method == "constant":
                                want = 7.0
                            else:
                                prev = max([j for j in obs if j < i], default=None)
                                nxt = min([j for j in obs if j > i], default=None)
                                if method == "previous":
                                    want = arr[prev, c] if prev is not None else nan
                                elif method == "next":
                                    want = arr[nxt, c] if nxt is not None else nan
                                elif method == "nearest":
                                    cand = [j for j in (prev, nxt) if j is not None]
                                    j = min(cand, key=lambda j: (abs(j - i), j))
                                    want = arr[j, c]
                                else:
                                    if prev is not None and nxt is not None:
                                        want = arr[prev, c] + (arr[nxt, c] - arr[prev, c]) * (i - prev) / (nxt - prev)
                                    else:
                                        want = arr[prev if prev is not None else nxt, c]
                            have = got.get((start + i, c), nan)
                            if not _close(have, want):
                                B.fail(f"fill_missing({method}) is not period-by-period", {"data": arr.tolist(), "row": i, "variant": c, "got": have, "want": want})
                                return
                # ---- moving windows
                for window in (-1, -2, -3):
                    for fname, red in (("mov_sum", sum), ("mov_avg", lambda xs: sum(xs) / len(xs))):
                        B.case()
                        r = getattr(ir, fname)(s, window)
                        if _as_map(s) != before or np.shares_memory(r.data, s.data):
                            B.fail(f"functional {fname} modified or aliased its input", {"data": arr.tolist()})
                            return
                        got = _as_map(r)
                        for c in range(nv):
                            for i in range(rows):
                                win = [arr[i - k, c] if i - k >= 0 else nan for k in range(-window)]
                                want = nan if any(w != w for w in win) else red(win)
                                have = got.get((start + i, c), nan)
                                if not _close(have, want):
                                    B.fail(f"{fname} window {window} is not period-by-period", {"data": arr.tolist(), "row": i, "got": have, "want": want})
                                    return
                # ---- extrapolate
                if nv == 1 and not np.isnan(arr).any() and rows >= 2:
                    for coeffs in ((0.5,), (0.5, 0.25)):
                        B.case()
                        span = cls(start + rows) >> cls(start + rows + 2)
                        r = ir.extrapolate(s, coeffs, span, intercept=1.0)
                        if _as_map(s) != before:
                            B.fail("functional extrapolate modified its input", {"data": arr.tolist()})
                            return
                        path = list(arr[:, 0])
                        for _ in range(3):
                            path.append(1.0 + sum(cf * path[-1 - j] for j, cf in enumerate(coeffs) if len(path) - 1 - j >= 0))
                        got = _as_map(r)
                        for i, want in enumerate(path):
                            if not _close(got.get((start + i, 0), nan), want):
                                B.fail("extrapolate does not follow the AR recursion period by period", {"data": arr.tolist(), "coeffs": coeffs, "row": i})
                                return
                if not np.array_equal(s.data, before_data, equal_nan=True):
                    B.fail("input data changed", {"data": arr.tolist()})
                    return


@bounded("C10", bound="random operation histories of length 12 (set/shift/clip/overlay/underlay/hstack/+,*,neg/copy/functional shift) on 2 series, <= 8 periods, values {NaN,-1,0,2}; 150 histories quick / 1500 thorough")
def operation_histories_native(B):
    """Sequences of public operations against a dictionary model (stand-in for the induction over histories)."""
    import irispie as ir
    nan = float("nan")
    rng = B.rng
    cls = D.QuarterlyPeriod
    for h in range(1500 if B.thorough else 150):
        ser = [Series(), Series()]
        model = [dict(), dict()]
        log = []
        for step in range(12):
            B.case()
            k = rng.randint(0, 1)
            op = rng.choice(["set", "shift", "clip", "overlay", "underlay", "add", "mul", "neg", "copy", "fshift", "setnan"])
            try:
                if op in ("set", "setnan"):
                    t = 8000 + rng.randint(-3, 4)
                    v = nan if op == "setnan" else rng.choice([-1.0, 0.0, 2.0])
                    ser[k].set_data((cls(t),), v)
                    model[k].pop(t, None)
                    if v == v:
                        model[k][t] = v
                    log.append((op, k, t, v))
                elif op == "shift":
                    by = rng.randint(-2, 2)
                    ser[k].shift(by)
                    model[k] = {t - by: v for t, v in model[k].items()}
                    log.append((op, k, by))
                elif op == "clip":
                    if not model[k]:
                        continue
                    lo_, hi_ = min(model[k]), max(model[k])
                    a, b = lo_ + rng.randint(-1, 1), hi_ + rng.randint(-1, 1)
                    if max(a, lo_) > min(b, hi_):
                        continue
                    ser[k].clip(cls(a), cls(b))
                    model[k] = {t: v for t, v in model[k].items() if a <= t <= b}
                    ser[k].trim()
                    log.append((op, k, a, b))
                elif op in ("overlay", "underlay"):
                    if not model[1 - k] or not model[k]:
                        continue
                    span_o = range(min(model[1 - k]), max(model[1 - k]) + 1)
                    span_s = range(min(model[k]), max(model[k]) + 1)
                    getattr(ser[k], op)(ser[1 - k])
                    if op == "overlay":
                        new = {t: v for t, v in model[k].items() if t not in span_o}
                        new.update(model[1 - k])
                    else:
                        new = {t: v for t, v in model[1 - k].items() if t not in span_s}
                        new.update(model[k])
                    model[k] = new
                    log.append((op, k))
                elif op in ("add", "mul"):
                    if not model[0] and not model[1]:
                        continue
                    r = ser[0] + ser[1] if op == "add" else ser[0] * ser[1]
                    f = (lambda a, b: a + b) if op == "add" else (lambda a, b: a * b)
                    ser[k] = r
                    model[k] = {t: f(model[0][t], model[1][t]) for t in model[0] if t in model[1]}
                    log.append((op, k))
                elif op == "neg":
                    ser[k] = -ser[k]
                    model[k] = {t: -v for t, v in model[k].items()}
                    log.append((op, k))
                elif op == "copy":
                    ser[1 - k] = ser[k].copy()
                    model[1 - k] = dict(model[k])
                    log.append((op, k))
                elif op == "fshift":
                    by = rng.randint(-2, 2)
                    r = ir.shift(ser[k], by)
                    ser[1 - k] = r
                    model[1 - k] = {t - by: v for t, v in model[k].items()}
                    log.append((op, k, by))
            except Exception as ex:
                B.fail(f"exception {type(ex).__name__}: {ex}", {"history": log, "op": op})
                return
            for j in (0, 1):
                got = {t: v for (t, c), v in _as_map(ser[j]).items()}
                if got != model[j]:
                    B.fail("series disagrees with the period-indexed map model", {"history": log, "series": j, "got": got, "want": model[j]})
                    return
                if ser[j].start is not None and (np.all(np.isnan(ser[j].data[0])) or np.all(np.isnan(ser[j].data[-1]))):
                    B.fail("leading/trailing all-missing period after an operation", {"history": log, "series": j})
                    return
                if (ser[j].start is None) != (ser[j].data.shape[0] == 0):
                    B.fail("start/rows invariant broken", {"history": log, "series": j})
                    return
            if ser[0].data.size and ser[1].data.size and np.shares_memory(ser[0].data, ser[1].data):
                B.fail("two series share memory", {"history": log})
                return
    return {"exhaustive_within_bound": False}


# ------------------------------------------------------------------------------ periods addressed through open-ended and stepped spans
@contract("C10", targets=[P + "Series.resolve_periods", "irispie.dates:Span.resolve", "irispie.dates:Span.__init__", "irispie.dates:Span.__iter__", "irispie.dates:Span.__len__"],
          instances=[(CLS[0], w, d) for w in ("both", "start", "end", "ellipsis") for d in (1, -1) if not (w == "ellipsis" and d == -1)], opts={"max_paths": 3000})
def open_spans_address_the_periods_of_the_series(K, cls, which, direction):
    """A span with an open end (None) addresses periods relative to the series it indexes: the open start is the
    first period of the series, the open end the last one; the step and the direction of the span are kept.
    x[...] / x[:] address every period of the series."""
    s, start, data = mk_series(K, "s", cls, 1)
    rows = K.shape(data)[0]
    lo, hi = ser(K, cls)
    a = K.int("from", lo - 10, hi + 20)
    b = K.int("until", lo - 10, hi + 20)
    step = K.int("step", 1, 3) * direction
    first_s, last_s = start, start + rows - 1
    if which == "ellipsis":
        ps = K.method(s, "resolve_periods", ...)
        exp_first, exp_last, step = first_s, last_s, 1
    else:
        # a backward span runs from its (later) start down to its (earlier) end
        open_start = which in ("both", "start")
        open_end = which in ("both", "end")
        sp = K.call(D.Span, None if open_start else K.obj(cls, serial=a), None if open_end else K.obj(cls, serial=b), step)
        ps = K.method(s, "resolve_periods", sp)
        if direction == 1:
            exp_first = first_s if open_start else a
            exp_last = last_s if open_end else b
        else:
            exp_first = last_s if open_start else a
            exp_last = first_s if open_end else b
    n = K.length(ps)
    dist = (exp_last - exp_first) * direction
    astep = step * direction if which != "ellipsis" else 1
    want_n = K.ite(dist >= 0, dist / astep + 1, 0) if K.symbolic else (dist // astep + 1 if dist >= 0 else 0)       # z3 integer division is floor for a positive divisor
    K.ensure("number of addressed periods", n == want_n)
    k = K.int("k", 0, None, sample=(0, 8))
    K.assume(k < want_n)
    pk = K.index(ps, k)
    K.ensure("k-th addressed period: start plus k steps, in the span's direction", K.And(K.cls_of(pk) is cls, K.attr(pk, "serial") == exp_first + k * step))


# ------------------------------------------------------------------------------ redate
@contract("C10", targets=[P + "Series.redate"], instances=[(CLS[0], n, w) for n in NV for w in ("start", "anchor")], opts={"max_paths": 2000})
def redate_moves_the_whole_series(K, cls, nv, which):
    """redate(new) makes `new` the first period of the series; redate(new, old) moves the series so that what was dated
    `old` is dated `new`.  Every value moves by the same number of periods; nothing else changes."""
    s, start, data = mk_series(K, "s", cls, nv)
    old = K.snapshot(data)
    lo, hi = ser(K, cls)
    new = K.int("new", lo - 20, hi + 40)
    if which == "start":
        K.method(s, "redate", K.obj(cls, serial=new))
        move = new - start
    else:
        anchor = K.int("anchor", lo - 20, hi + 40)
        K.method(s, "redate", K.obj(cls, serial=new), K.obj(cls, serial=anchor))
        move = new - anchor
    ns, nd = state(K, s)
    t, c = generic_cell(K, cls, nv)
    K.instantiate(t)
    K.instantiate(t - move)
    K.ensure("value at t is the value that was at t - move", K.cell_eq(V(K, ns, nd, t, c), V(K, start, old, t - move, c)))
    K.ensure("RI", RI(K, s, nv, cls))


# ------------------------------------------------------------------------------ number of variants
@contract("C10", targets=[P + "Series.alter_num_variants", P + "Series.expand_num_variants", P + "Series.shrink_num_variants", P + "Series.extract_variants"],
          instances=[(CLS[0], nv, new, how) for nv in (1, 2, 3) for new in (1, 2, 3) for how in ("alter", "direct") if not (how == "direct" and False)], opts={"max_paths": 2000})
def changing_the_number_of_variants(K, cls, nv, new, how):
    """alter_num_variants(n): the first min(old, n) variants keep their values period by period, added variants are copies
    of the last existing one, surplus variants are dropped; the periods do not change.  Calling expand/shrink directly
    with the current number is a no-op."""
    s, start, data = mk_series(K, "s", cls, nv)
    old = K.snapshot(data)
    if how == "alter":
        K.method(s, "alter_num_variants", new)
    elif new >= nv:
        K.method(s, "expand_num_variants", new)
    else:
        K.method(s, "shrink_num_variants", new)
    if how == "direct" and new == nv:
        K.method(s, "shrink_num_variants", new)        # both directions with the current number
    ns, nd = state(K, s)
    K.ensure("number of variants", K.shape(nd)[1] == new)
    K.ensure("same periods", K.And(ns == start, K.shape(nd)[0] == K.shape(old)[0]))
    t = K.int("t", *[x + d for x, d in zip(ser(K, cls), (-5, 45))])
    K.instantiate(t)
    for c in range(new):
        src = min(c, nv - 1)
        K.ensure(f"variant {c}: values of old variant {src}", K.cell_eq(V(K, ns, nd, t, c), V(K, start, old, t, src)))
    if new < nv or how == "alter":
        pass
    e = K.method(s, "extract_variants", (new - 1, 0))
    es, ed = state(K, s)
    K.ensure("extract_variants keeps the listed variants in the listed order", K.And(K.shape(ed)[1] == 2, K.cell_eq(V(K, es, ed, t, 0), V(K, start, old, t, min(new - 1, nv - 1))),
                                                                                        K.cell_eq(V(K, es, ed, t, 1), V(K, start, old, t, 0))))


# ------------------------------------------------------------------------------ reflected and unary operators
@contract("C10", targets=[P + "Series.__rsub__", P + "Series.__rtruediv__", P + "Series.__sub__", P + "Series.__truediv__", P + "Series.__abs__", P + "Series.abs", P + "Series.__pos__",
                          P + "Series.apply"], instances=[(CLS[0], n) for n in NV], opts={"max_paths": 3000})
def reflected_and_unary_operators(K, cls, nv):
    """number (op) series and the unary operators act value by value on the same periods, return a new series and leave
    the operand as it was."""
    x, xs, xd = mk_series(K, "x", cls, nv)
    k = K.real("k", nonzero=True)
    t, c = generic_cell(K, cls, nv)
    K.instantiate(t)
    a = V(K, xs, xd, t, c)
    av = K.cell_val(a)
    cases = [("k-x", K.binop("-", k, x), lambda v: k - v, None), ("x-k", K.binop("-", x, k), lambda v: v - k, None), ("x/k", K.binop("/", x, k), lambda v: v / k, None),
             ("abs(x)", K.builtin("abs", x) if hasattr(K, "builtin") else K.method(x, "__abs__"), lambda v: K.ite(v >= 0, v, -v), None), ("+x", K.method(x, "__pos__"), lambda v: v, None)]
    for label, r, f, _ in cases:
        rs, rd = state(K, r)
        want = K.cell_ite(K.cell_is_nan(a), lambda: K.nan_cell(), lambda f=f: K.real_cell(f(av)))
        K.ensure(f"{label}: value by value on the same periods", K.cell_eq(V(K, rs, rd, t, c), want))
        K.ensure(f"{label}: a new series", r is not x and not K.same_buffer(rd, K.attr(x, "data")))
    nxs, nxd = state(K, x)
    K.ensure("operand untouched", K.cell_eq(V(K, nxs, nxd, t, c), a))


# ------------------------------------------------------------------------------ moving windows
import irispie.series._moving as MV


@contract("C10", targets=["irispie.series._moving:Inlay.moving_window", "irispie.series._moving:Inlay.mov_sum", "irispie.series._moving:Inlay.mov_avg",
                          "irispie.series._moving:Inlay.mov_prod", "irispie.series._moving:Inlay._get_default_moving_window",
                          "irispie.series._moving:mov_sum", "irispie.series._moving:mov_avg", "irispie.series._moving:mov_prod",
                          P + "Series._replace_data", P + "Series.trim"],
          instances=[(c, n, f, w) for c in CLS[:1] for n in NV for f in ("mov_sum", "mov_avg", "mov_prod") for w in (1, 2, 3)]
                    + [(CLS[1], 1, "mov_sum", None), (CLS[0], 1, "mov_avg", None), (CLS[0], 1, "mov_sum", 5)],
          opts={"max_paths": 4000})
def moving_window_acts_period_by_period(K, cls, nv, fname, w):
    """mov_f(x, -w)(t) == f(x(t-w+1), ..., x(t)) in every period (missing when any of them is missing, inside,
    before or after the stored rows - also for series shorter than the window); the default window is one year."""
    x, xs, xd = mk_series(K, "x", cls, nv)
    r = K.call(getattr(MV, fname), x, -w) if w is not None else K.call(getattr(MV, fname), x)
    if w is None:
        w = 4
    rs, rd = state(K, r)
    t, c = generic_cell(K, cls, nv)
    K.instantiate(t)
    cells = [V(K, xs, xd, t - j, c) for j in range(w)]
    nan = K.Or(*[K.cell_is_nan(a) for a in cells])
    acc = K.cell_val(cells[0])
    for a in cells[1:]:
        acc = (acc * K.cell_val(a)) if fname == "mov_prod" else (acc + K.cell_val(a))
    if fname == "mov_avg":
        acc = acc / w
    want = K.cell_ite(nan, lambda: K.nan_cell(), lambda: K.real_cell(acc))
    K.ensure(f"{fname}(x, -{w})(t) folds the last {w} periods", K.cell_eq(V(K, rs, rd, t, c), want))
    K.ensure("RI", RI(K, r, nv, cls))
    nxs, nxd = state(K, x)
    K.ensure("functional form leaves its input untouched", K.cell_eq(V(K, nxs, nxd, t, c), cells[0]))
    K.ensure("functional form does not alias its input", (r is not x) and (not K.same_buffer(rd, nxd)))
    K.method(x, fname, -w)
    mxs, mxd = state(K, x)
    K.ensure("method form changes the receiver in place", K.cell_eq(V(K, mxs, mxd, t, c), want))


# ------------------------------------------------------------------------------ x(dates): a new series made of the requested periods
@contract("C10", targets=["irispie.series._indexing:Inlay.__call__", P + "Series._get_data_and_recreate", P + "Series._resolve_dates_and_positions",
                          P + "Series.set_data", P + "_get_date_positions", P + "Series._create_expanded_data", P + "Series.trim"],
          instances=[(CLS[0], n, k, v) for n in NV for k in (1, 2, 3) for v in ((None,) if n == 1 else (None, 1))], opts={"max_paths": 6000})
def recreation_keeps_exactly_the_requested_periods(K, cls, nv, k, variant):
    """x(dates)[t] == x[t] for the requested periods (in any order, with gaps or repetitions, inside or outside the
    stored rows) and is missing elsewhere; the result satisfies RI and x is untouched."""
    x, xs, xd = mk_series(K, "x", cls, nv)
    old = K.snapshot(xd)
    lo, hi = ser(K, cls)
    ds = [K.int(f"d{i}", lo - 10, hi + 20) for i in range(k)]
    dates = tuple(K.obj(cls, serial=d) for d in ds)
    r = K.method(x, "__call__", dates) if variant is None else K.method(x, "__call__", dates, variant)
    rs, rd = state(K, r)
    out_nv = nv if variant is None else 1
    t = K.int("t", lo - 30, hi + 60)
    c = K.int("t_c", 0, out_nv - 1)
    K.instantiate(t)
    src_c = c if variant is None else variant
    want = K.cell_ite(K.Or(*[t == d for d in ds]), lambda: V(K, xs, old, t, src_c), lambda: K.nan_cell())
    K.ensure("x(dates) has the requested periods and nothing else", K.cell_eq(V(K, rs, rd, t, c), want))
    K.ensure("number of variants", K.shape(rd)[1] == out_nv)
    K.ensure("RI", RI(K, r, out_nv))
    nxs, nxd = state(K, x)
    c0 = K.int("c0", 0, nv - 1)
    K.ensure("x is untouched", K.cell_eq(V(K, nxs, nxd, t, c0), V(K, xs, old, t, c0)))
    K.ensure("the result has its own memory", (r is not x) and (not K.same_buffer(rd, nxd)))


# ------------------------------------------------------------------------------ the empty series
@contract("C10", targets=["irispie.series._moving:Inlay.moving_window", "irispie.series._moving:mov_sum", "irispie.series._moving:mov_avg",
                          "irispie.series._moving:mov_prod", "irispie.series._elementwise:exp", P + "Series.empty", P + "Series.trim"],
          instances=[(n, f) for n in NV for f in ("mov_sum", "mov_avg", "mov_prod", "exp")], opts={"max_paths": 2000})
def functions_of_the_empty_series_are_empty(K, nv, fname):
    """A series without observations is a series like any other: a period-by-period function of it is the empty series
    (no start, no rows, same number of variants), and the input stays as it was."""
    x, _, xd = mk_series(K, "x", CLS[0], nv, empty=True)
    fn = getattr(MV, fname) if fname.startswith("mov") else getattr(EW, fname)
    r = K.call(fn, x, -2) if fname.startswith("mov") else K.call(fn, x)
    rs, rd = state(K, r)
    K.ensure("the result is the empty series", rs is None and K.shape(rd) == (0, nv))
    xs2, xd2 = state(K, x)
    K.ensure("the input is still the empty series", xs2 is None and K.shape(xd2) == (0, nv) and r is not x)


@contract("C10", targets=[P + "Series.empty"], instances=[(c, n) for c in CLS for n in NV])
def emptying_a_series_leaves_the_empty_series(K, cls, nv):
    """x.empty() removes every observation: what is left is the empty series - no rows and NO start (a start left
    behind would make the next write extend the series from a period that holds nothing)."""
    x, xs, xd = mk_series(K, "x", cls, nv)
    K.method(x, "empty")
    K.ensure("RI: the empty series has no start", RI(K, x, nv))
    ns, nd = state(K, x)
    K.ensure("no rows, same number of variants", K.shape(nd) == (0, nv))
    t, c = generic_cell(K, cls, nv)
    K.ensure("every period is missing", K.cell_is_nan(V(K, ns, nd, t, c)))


@contract("C10", targets=[P + "Series.get_values", P + "Series.get_data", "irispie.has_variants:unpack_singleton"],
          instances=[(1, True), (1, False), (2, True), (2, False)], opts={"max_paths": 3000})
def get_values_returns_every_variant(K, nv, unpack):
    """get_values(periods): the values of EVERY variant - one tuple per variant (a bare tuple for a single-variant
    series unless unpack_singleton=False), each with the value of every requested period, missing outside the rows."""
    cls = CLS[0]
    x, xs, xd = mk_series(K, "x", cls, nv)
    lo, hi = ser(K, cls)
    ds = [K.int(f"d{i}", lo - 10, hi + 20) for i in range(2)]
    dates = tuple(K.obj(cls, serial=d) for d in ds)
    out = K.method(x, "get_values", dates) if unpack else K.method(x, "get_values", dates, unpack_singleton=False)
    bare = nv == 1 and unpack
    per_variant = [out] if bare else list(K.items(out))
    ok = len(per_variant) == nv and (isinstance(out, tuple) if bare else isinstance(out, list)) and all(isinstance(v, tuple) for v in per_variant)
    K.ensure("one tuple of values per variant", ok)
    if not ok:
        return
    for c, vals in enumerate(per_variant[:nv]):
        vals = list(K.items(vals))
        K.ensure(f"variant {c}: one value per requested period", len(vals) == 2)
        for i, v in enumerate(vals[:2]):
            K.ensure(f"variant {c}, period {i}", K.cell_eq(v if K.is_cell(v) else K.real_cell(v), V(K, xs, xd, ds[i], c)))


# ------------------------------------------------------------------------------ fill_missing: one column, every missing-value pattern
import itertools as _itertools
from irispie.series import _filling as FILL

_PATTERNS = [p for p in _itertools.product((False, True), repeat=4)]       # True: missing


def _spec_fill(K, method, pattern, vals, i):
    """Documented value of position i after filling (None: stays missing)."""
    obs = [j for j, miss in enumerate(pattern) if not miss]
    if not pattern[i]:
        return vals[i]
    if not obs:
        return 7 if method == "constant" else None
    if method == "constant":
        return 7
    prev = max((j for j in obs if j < i), default=None)
    nxt = min((j for j in obs if j > i), default=None)
    if method == "previous":
        return vals[prev] if prev is not None else None
    if method == "next":
        return vals[nxt] if nxt is not None else None
    if method == "nearest":
        cand = [j for j in (prev, nxt) if j is not None]
        return vals[min(cand, key=lambda j: (abs(j - i), j))]
    if prev is not None and nxt is not None and method == "log_linear":      # the straight line between the LOGS of the neighbours
        return K.exp(K.log(vals[prev]) + (K.log(vals[nxt]) - K.log(vals[prev])) * K.frac(fractions.Fraction(i - prev, nxt - prev)))
    if prev is not None and nxt is not None:                      # linear
        return vals[prev] + (vals[nxt] - vals[prev]) * K.frac(fractions.Fraction(i - prev, nxt - prev))
    return vals[prev if prev is not None else nxt]


@contract("C10", targets=["irispie.series._filling:_fill_neighbor", "irispie.series._filling:_fill_interp", "irispie.series._filling:_fill_constant",
                          "irispie.series._filling:_next_index", "irispie.series._filling:_previous_index", "irispie.series._filling:_nearest_index",
                          "irispie.series._filling:_interpolation_linear", "irispie.series._filling:_interpolation_log_linear", "irispie.series._filling:_FILL_METHOD_DISPATCH"],
          instances=[(m, p) for m in ("previous", "next", "nearest", "linear", "constant") for p in _PATTERNS]
                    + [("log_linear", p) for p in _PATTERNS if any(p) and not all(p)], cross=3, opts={"max_paths": 2000})
def filling_one_column(K, method, pattern):
    """The column-level fillers behind fill_missing, for EVERY pattern of missing values in four periods and arbitrary
    observed values: an observed period keeps its value; a missing period takes the previous / next / nearest observation
    (the earlier one at equal distance), the value on the straight line between its neighbours (the single neighbour's
    value at the ends), or the constant; where the method has no source the period stays missing."""
    vals = [K.real(f"v{j}", positive=(method == "log_linear"), sample=(0.5, 3) if method == "log_linear" else None) for j in range(4)]
    data = K.array_cells([K.nan_cell() if miss else K.real_cell(v) for miss, v in zip(pattern, vals)])
    out = K.call(FILL._FILL_METHOD_DISPATCH[method], data, 7 if method == "constant" else None)
    K.ensure("four periods in, four periods out", K.shape(out) == (4,))
    for i in range(4):
        want = _spec_fill(K, method, pattern, vals, i)
        got = K.cell(out, i)
        if want is None:
            K.ensure(f"period {i} stays missing", K.cell_is_nan(got))
        else:
            K.ensure(f"period {i}", K.And(K.Not(K.cell_is_nan(got)), K.real_eq(K.cell_val(got), want)))


@contract("C10", targets=["irispie.series._filling:Inlay.fill_missing", "irispie.series._filling:fill_missing", P + "Series.get_data_and_periods",
                          P + "Series.set_data"],
          instances=[(m, p, nv) for m in ("previous", "linear", "constant") for p in _PATTERNS if not p[0] and not p[3] and any(p) for nv in NV],
          cross=3, opts={"max_paths": 3000})
def fill_missing_fills_every_variant_period_by_period(K, method, pattern, nv):
    """fill_missing on a series: each variant is filled on its own (variant 0 has the missing pattern, a second variant is
    fully observed and must come back unchanged), period by period as the column-level contract says; the functional
    form returns a new series and leaves its input alone."""
    cls = CLS[0]
    lo, hi = ser(K, cls)
    start = K.int("x_start", lo, hi)
    vals = [K.real(f"v{j}") for j in range(4)]
    other = [K.real(f"w{j}") for j in range(4)]
    rows = [[K.nan_cell() if miss else K.real_cell(v)] + ([K.real_cell(w)] if nv == 2 else []) for miss, v, w in zip(pattern, vals, other)]
    data = K.array_cells(rows)
    x = K.obj(Series, start=K.obj(cls, serial=start), data=data, data_type=np.float64, metadata={}, __description__="")
    old = K.snapshot(data)
    r = K.call(FILL.fill_missing, x, method, 7) if method == "constant" else K.call(FILL.fill_missing, x, method)
    rs, rd = state(K, r)
    K.ensure("same span and variants", K.And(rs == start, K.shape(rd)[0] == 4, K.shape(rd)[1] == nv))
    for i in range(4):
        want = _spec_fill(K, method, pattern, vals, i)
        got = K.cell(rd, i, 0)
        K.ensure(f"variant 0, period {i}", K.And(K.Not(K.cell_is_nan(got)), K.real_eq(K.cell_val(got), want)))
        if nv == 2:
            K.ensure(f"variant 1, period {i}: nothing to fill, nothing changed", K.cell_eq(K.cell(rd, i, 1), K.real_cell(other[i])))
    xs2, xd2 = state(K, x)
    K.ensure("the input is left alone", K.And(xs2 == start, *[K.cell_eq(K.cell(xd2, i, c), K.cell(old, i, c)) for i in range(4) for c in range(nv)]))
    K.ensure("the result has its own memory", (r is not x) and (not K.same_buffer(rd, xd2)))


# ------------------------------------------------------------------------------ autoregressive extrapolation
from irispie.series import _extrapolate as XT


@contract("C10", targets=["irispie.series._extrapolate:Inlay.extrapolate", "irispie.series._extrapolate:extrapolate", "irispie.series._extrapolate:_extrapolate_data",
                          P + "Series.iter_own_data_variants_from_until", P + "Series.set_data"],
          instances=[(order, nv, log) for order in (1, 2) for nv in NV for log in (False,)] + [(1, 1, True)], cross=3, opts={"max_paths": 4000})
def extrapolation_follows_the_autoregression_period_by_period(K, order, nv, log):
    """extrapolate(x, (rho_1..rho_p), span, intercept=c): in every period of the span, in order, x(t) = rho_1 x(t-1) + ... +
    rho_p x(t-p) + c (in logs when log=True), each variant from its own history; periods outside the span keep their
    values; the functional form leaves its input alone.  (The filter kernel of scipy is an assumed contract.)"""
    cls = CLS[0]
    rows = 3
    T = 3
    lo, hi = ser(K, cls)
    start = K.int("x_start", lo, hi)
    data = K.array("x_data", (rows, nv), nan=False)
    if log:
        K.assume(K.And(*[K.cell_val(K.cell(data, i, c)) > 0 for i in range(rows) for c in range(nv)]))
    x = K.obj(Series, start=K.obj(cls, serial=start), data=data, data_type=np.float64, metadata={}, __description__="")
    old = K.snapshot(data)
    # sample=: narrows only the random draws of the native cross-check (floats overflow in exp() for explosive coefficients;
    # floats-as-reals is an assumption of the proof), not the precondition - the obligations are for all real coefficients
    rho = [K.real(f"rho{j}", sample=(-0.9, 0.9)) for j in range(order)]
    c0 = K.real("c", sample=(-0.5, 0.5))
    first = start + rows                         # the span starts right after the last observation
    span = K.call(D.Span, K.obj(cls, serial=first), K.obj(cls, serial=first + T - 1))
    r = K.call(XT.extrapolate, x, tuple(rho), span, intercept=c0, log=log)
    rs, rd = state(K, r)
    K.ensure("span of the result", K.And(rs == start, K.shape(rd)[0] == rows + T, K.shape(rd)[1] == nv))
    for c in range(nv):
        path = [K.cell_val(K.cell(old, i, c)) for i in range(rows)]
        if log:
            path = [K.log(v) for v in path]
        for t in range(T):
            nxt = c0
            for j in range(order):
                nxt = nxt + rho[j] * path[-1 - j]
            path.append(nxt)
            got = K.cell(rd, rows + t, c)
            if log:
                K.ensure(f"variant {c}, period +{t + 1}: positive, and its log follows the recursion",
                         K.And(K.Not(K.cell_is_nan(got)), K.cell_val(got) > 0, K.real_eq(K.log(K.cell_val(got)), nxt)))
            else:
                K.ensure(f"variant {c}, period +{t + 1} follows the recursion", K.And(K.Not(K.cell_is_nan(got)), K.real_eq(K.cell_val(got), nxt)))
        for i in range(rows):
            K.ensure(f"variant {c}, observation {i} kept", K.cell_eq(K.cell(rd, i, c), K.cell(old, i, c)))
    xs2, xd2 = state(K, x)
    K.ensure("the input is left alone", K.And(xs2 == start, K.shape(xd2)[0] == rows, *[K.cell_eq(K.cell(xd2, i, c), K.cell(old, i, c)) for i in range(rows) for c in range(nv)]))
    K.ensure("the result has its own memory", (r is not x) and (not K.same_buffer(rd, xd2)))


@contract("C10", targets=["irispie.series._moving:Inlay._get_default_moving_window", P + "Series.frequency"],
          instances=[(D.YearlyPeriod, -1), (D.QuarterlyPeriod, -4), (D.MonthlyPeriod, -12), (D.DailyPeriod, -365), (D.IntegerPeriod, -4), (None, -4)])
def default_moving_window_is_the_documented_one(K, cls, window):
    """The window used when none is given (table in the moving-window documentation): one year of periods for yearly,
    quarterly, monthly and daily series (-1, -4, -12, -365), and -4 for integer-dated and empty series."""
    if cls is None:
        x, _, _ = mk_series(K, "x", CLS[0], 1, empty=True)
    elif cls is D.DailyPeriod:
        x = K.obj(Series, start=K.obj(cls, serial=K.int("x_start", 730000, 730400)), data=K.array("x_data", (3, 1)), data_type=np.float64, metadata={}, __description__="")
    else:
        x = K.obj(Series, start=K.obj(cls, serial=K.int("x_start", 8000, 8040)), data=K.array("x_data", (3, 1)), data_type=np.float64, metadata={}, __description__="")
    K.ensure("default window", K.method(x, "_get_default_moving_window") == window)


# ------------------------------------------------------------------------------ queries about missing values
@contract("C10", targets=[P + "Series.any_missing", P + "Series.all_missing", P + "Series.count_missing", P + "Series._func_missing", P + "Series.has_missing",
                          P + "Series.get_data"], instances=[(n,) for n in NV], opts={"max_paths": 4000})
def missing_value_queries_agree_with_the_view(K, nv):
    """any_missing / all_missing / count_missing over given periods answer about exactly the cells a read of those periods
    returns: is any / are all of them missing, and HOW MANY are (a number, not a truth value)."""
    cls = CLS[0]
    x, xs, xd = mk_series(K, "x", cls, nv)
    lo, hi = ser(K, cls)
    ds = [K.int(f"d{i}", lo - 10, hi + 20) for i in range(2)]
    dates = tuple(K.obj(cls, serial=d) for d in ds)
    miss = [K.cell_is_nan(V(K, xs, xd, d, c)) for d in ds for c in range(nv)]
    count = sum(K.ite(m, 1, 0) for m in miss)
    got_any = K.method(x, "any_missing", dates)
    got_all = K.method(x, "all_missing", dates)
    got_count = K.method(x, "count_missing", dates)
    K.ensure("any_missing", K.truth(got_any) == K.Or(*miss))
    K.ensure("all_missing", K.truth(got_all) == K.And(*miss))
    is_truth_value = K.builtin("isinstance", got_count, bool)
    K.ensure("count_missing is a number of cells, not a truth value", is_truth_value is False)
    if is_truth_value is False:
        K.ensure("count_missing counts the missing cells among those read", got_count == count)


# ------------------------------------------------------------------------------ replace_where; fill from another series; log-linear interpolation
@contract("C10", targets=[P + "Series.replace_where", P + "Series.trim"], instances=[(c, n) for c in CLS[:1] for n in NV], opts={"max_paths": 3000})
def replace_where_changes_exactly_the_cells_that_pass_the_test(K, cls, nv):
    """x.replace_where(test, v): every observation for which test is true becomes v, every other cell (missing ones
    included - a comparison with a missing value is false) stays; RI afterwards."""
    x, xs, xd = mk_series(K, "x", cls, nv)
    old = K.snapshot(xd)
    bound = K.real("bound")
    v = K.real("v")
    K.method(x, "replace_where", K.callable(lambda data: K.compare(">", data, bound)), v)
    ns, nd = state(K, x)
    t, c = generic_cell(K, cls, nv)
    K.instantiate(t)
    a = V(K, xs, old, t, c)
    want = K.cell_ite(K.And(K.Not(K.cell_is_nan(a)), K.cell_val(a) > bound), lambda: K.real_cell(v), lambda: a)
    K.ensure("cells passing the test take the new value, the others stay", K.cell_eq(V(K, ns, nd, t, c), want))
    K.ensure("RI", RI(K, x, nv, cls))


@contract("C10", targets=["irispie.series._filling:fill_from_series", "irispie.series._filling:Inlay.fill_missing", "irispie.series._filling:fill_missing"],
          instances=[(p,) for p in _PATTERNS if not p[0] and not p[3] and any(p)], cross=3, opts={"max_paths": 3000})
def fill_missing_from_another_series(K, pattern):
    """fill_missing(x, "from_series", f): a missing period of x takes f's value of the SAME period (missing if f has none
    there), observed periods keep theirs; f and the input are left alone."""
    cls = CLS[0]
    lo, hi = ser(K, cls)
    start = K.int("x_start", lo, hi)
    vals = [K.real(f"v{j}") for j in range(4)]
    data = K.array_cells([[K.nan_cell() if miss else K.real_cell(v)] for miss, v in zip(pattern, vals)])
    x = K.obj(Series, start=K.obj(cls, serial=start), data=data, data_type=np.float64, metadata={}, __description__="")
    f, fs, fd = mk_series(K, "f", cls, 1)
    oldf = K.snapshot(fd)
    r = K.call(FILL.fill_missing, x, "from_series", f)
    rs, rd = state(K, r)
    for i in range(4):
        K.instantiate(start + i)
        want = V(K, fs, oldf, start + i, 0) if pattern[i] else K.real_cell(vals[i])
        K.ensure(f"period {i}", K.cell_eq(V(K, rs, rd, start + i, 0), want))
    nfs, nfd = state(K, f)
    t = K.int("t", lo - 30, hi + 60)
    K.instantiate(t)
    K.ensure("the source series is left alone", K.cell_eq(V(K, nfs, nfd, t, 0), V(K, fs, oldf, t, 0)))
    K.ensure("a new series", r is not x and not K.same_buffer(rd, K.attr(x, "data")))
