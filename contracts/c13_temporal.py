"""C13 - change and cumulation transforms follow their formulas and invert each other.

Scalar layer: the lambdas that the real methods hand to temporal_change / the real _CUMULATIVE_FACTORY
entries are extracted by running the real methods with the call of temporal_change intercepted
(K.capture), then proved against the documented formulas over the reals.  numpy element-wise semantics:
a scalar stands for the generic array element."""
from pyvc.prove import contract
import irispie.dates as D
from irispie.series import _temporal as T
from irispie.series.main import Series

P = "irispie.series._temporal:"
FREQ_CLASSES = [D.YearlyPeriod, D.HalfyearlyPeriod, D.QuarterlyPeriod, D.MonthlyPeriod, D.DailyPeriod, D.IntegerPeriod]
FLEX = ["diff", "diff_log", "pct", "roc"]
NEUTRAL = {"diff": 0, "diff_log": 0, "roc": 1, "pct": None, "adiff": 0, "adiff_log": 0, "aroc": 1, "apct": None}


def series_stub(K, cls=D.QuarterlyPeriod, data=None):
    attrs = dict(start=K.obj(cls, serial=K.int("start_serial", 8000, 8100) if cls is not D.DailyPeriod else K.int("start_serial", 730000, 730100)))
    if data is not None:
        attrs["data"] = data
    return K.obj(Series, **attrs)


def documented(K, name, x, y, a=1):
    """Formulas of the overview table in the temporal_change docstring."""
    if name == "diff":
        return x - y
    if name == "diff_log":
        return K.log(x) - K.log(y)
    if name == "pct":
        return 100 * (x / y - 1)
    if name == "roc":
        return x / y
    if name == "adiff":
        return a * (x - y)
    if name == "adiff_log":
        return a * (K.log(x) - K.log(y))
    if name == "apct":
        return 100 * (K.pow(x / y, a) - 1)
    if name == "aroc":
        return K.pow(x / y, a)
    raise KeyError(name)


def capture_change(K, name, s, *args):
    calls = K.capture(T.Inlay, "temporal_change", lambda: K.method(s, name, *args))
    K.ensure(f"{name} delegates to temporal_change exactly once", len(calls) == 1)
    (self_, by, func), kw = calls[0]
    return by, func, kw


def pos_pair(K, name):
    """x_t and the reference value x_s in the domain of the transform."""
    logs = "log" in name
    ann = name in ("apct", "aroc")          # (x/y)**365 overflows floats away from 1: narrow only the native cross-check draws
    x = K.real("x", positive=logs, sample=(0.98, 1.02) if ann else None)
    y = K.real("y", positive=logs, nonzero=name in ("pct", "roc", "apct", "aroc"), sample=(0.98, 1.02) if ann else None)
    return x, y


@contract("C13", targets=[P + "Inlay." + n for n in FLEX], instances=[(n,) for n in FLEX])
def flexible_change_formula(K, name):
    s = series_stub(K)
    k = K.int("shift", -400, -1)
    by, func, kw = capture_change(K, name, s, k)
    K.ensure("shift passed through", by == k)
    K.ensure("neutral value", kw.get("neutral_value", "missing") == NEUTRAL[name] if NEUTRAL[name] is not None else kw.get("neutral_value", "missing") is None)
    x, y = pos_pair(K, name)
    K.ensure(f"{name}(x_t, x_s) == documented formula", K.real_eq(K.call(func, x, y), documented(K, name, x, y)))
    for kwd in ("yoy", "soy", "eopy", "tty"):
        by2, func2, _ = capture_change(K, name, s, kwd)
        K.ensure(f"keyword shift {kwd} passed through", by2 == kwd)
        K.ensure(f"{name}[{kwd}] same formula", K.real_eq(K.call(func2, x, y), documented(K, name, x, y)))
    by3, _, _ = capture_change(K, name, s)
    K.ensure("default shift is -1", by3 == -1)


ANN = ["adiff", "adiff_log", "aroc", "apct"]


@contract("C13", targets=[P + "Inlay." + n for n in ANN], instances=[(n, c) for n in ANN for c in FREQ_CLASSES])
def annualised_change_formula(K, name, cls):
    s = series_stub(K, cls)
    a = int(cls.frequency) or 1
    by, func, kw = capture_change(K, name, s)
    K.ensure("fixed shift -1", by == -1)
    x, y = pos_pair(K, name)
    K.ensure(f"{name}(x_t, x_t-1) == documented formula with a={a}", K.real_eq(K.call(func, x, y), documented(K, name, x, y, a)))


@contract("C13", targets=[P + "_CUMULATIVE_FACTORY"] + [P + "Inlay." + n for n in FLEX], instances=[(n,) for n in FLEX])
def cumulation_inverts_change(K, name):
    """forward(x_s, change(x_t, x_s)) == x_t and backward(x_t, change(x_t, x_s)) == x_s."""
    s = series_stub(K)
    _, change, _ = capture_change(K, name, s, -1)
    x = K.real("x", positive=True) if name == "diff_log" else K.real("x", nonzero=name in ("pct", "roc"))
    y = K.real("y", positive=True) if name == "diff_log" else K.real("y", nonzero=name in ("pct", "roc"))
    c = K.call(change, x, y)
    fac = T._CUMULATIVE_FACTORY[name]
    K.ensure("forward cumulation step restores x_t", K.real_eq(K.call(fac["forward"], y, c), x))
    K.ensure("backward cumulation step restores x_s", K.real_eq(K.call(fac["backward"], x, c), y))
    # the two directions are inverse to each other for any change value in the domain
    v = K.real("v")
    ch = K.real("ch")
    if name == "pct":
        K.assume(ch != -100)
    if name == "roc":
        K.assume(ch != 0)
    K.ensure("backward(forward(v, ch), ch) == v", K.real_eq(K.call(fac["backward"], K.call(fac["forward"], v, ch), ch), v))
    K.ensure("forward(backward(v, ch), ch) == v", K.real_eq(K.call(fac["forward"], K.call(fac["backward"], v, ch), ch), v))


@contract("C13", targets=[P + "Inlay.roc_from_pct", P + "Inlay.pct_from_roc", P + "_roc_from_pct"] + [P + "Inlay.pct", P + "Inlay.roc"], instances=[()])
def pct_roc_conversions(K):
    x = K.real("x")
    y = K.real("y", nonzero=True)
    st = series_stub(K)
    _, pct, _ = capture_change(K, "pct", st, -1)
    _, roc, _ = capture_change(K, "roc", st, -1)
    s = series_stub(K, data=K.scalar_array(K.call(pct, x, y)))
    K.method(s, "roc_from_pct")
    K.ensure("roc_from_pct(pct(x,y)) == roc(x,y)", K.real_eq(K.elem(K.attr(s, "data")), K.call(roc, x, y)))
    s = series_stub(K, data=K.scalar_array(K.call(roc, x, y)))
    K.method(s, "pct_from_roc")
    K.ensure("pct_from_roc(roc(x,y)) == pct(x,y)", K.real_eq(K.elem(K.attr(s, "data")), K.call(pct, x, y)))
    K.ensure("_roc_from_pct helper", K.real_eq(K.call(T._roc_from_pct, K.call(pct, x, y)), K.call(roc, x, y)))


@contract("C13", targets=[P + "Inlay.pct_from_apct", P + "Inlay.roc_from_apct", P + "Inlay.roc_from_aroc", P + "Inlay.apct", P + "Inlay.aroc"],
          instances=FREQ_CLASSES)
def annualised_conversions(K, cls):
    """Converting an annualised rate back gives the plain rate of the same (x_t, x_t-1), x/y > 0."""
    x = K.real("x", positive=True, sample=(1.0, 1.02))
    y = K.real("y", positive=True, sample=(1.0, 1.02))
    st = series_stub(K, cls)
    _, pct, _ = capture_change(K, "pct", st, -1)
    _, roc, _ = capture_change(K, "roc", st, -1)
    _, apct, _ = capture_change(K, "apct", st)
    _, aroc, _ = capture_change(K, "aroc", st)
    s = series_stub(K, cls, data=K.scalar_array(K.call(aroc, x, y)))
    K.method(s, "roc_from_aroc")
    K.ensure("roc_from_aroc(aroc) == roc", K.real_eq(K.elem(K.attr(s, "data")), K.call(roc, x, y)))
    s = series_stub(K, cls, data=K.scalar_array(K.call(apct, x, y)))
    K.method(s, "roc_from_apct")
    K.ensure("roc_from_apct(apct) == roc", K.real_eq(K.elem(K.attr(s, "data")), K.call(roc, x, y)))
    s = series_stub(K, cls, data=K.scalar_array(K.call(apct, x, y)))
    K.method(s, "pct_from_apct")
    K.ensure("pct_from_apct(apct) == pct", K.real_eq(K.elem(K.attr(s, "data")), K.call(pct, x, y)))


@contract("C13", targets=[P + "_catch_invalid_shift"], instances=[()])
def invalid_shift_rejected(K):
    k = K.int("shift", -50, 50)
    if K.branch(k >= 0):
        K.raises(ValueError, lambda: K.call(T._catch_invalid_shift, k), "non-negative shift rejected")
    else:
        K.ensure("negative shift accepted", K.is_none(K.call(T._catch_invalid_shift, k)))
    for kw in ("yoy", "soy", "eopy", "tty"):
        K.ensure(f"keyword {kw} accepted", K.is_none(K.call(T._catch_invalid_shift, kw)))


@contract("C13", targets=[P + "_CUMULATIVE_FACTORY"], instances=[()], canary=True)
def canary_wrong_pct_inverse(K):
    x = K.real("x")
    y = K.real("y", nonzero=True)
    fac = T._CUMULATIVE_FACTORY["pct"]
    K.ensure("WRONG: forward pct step adds the change", K.real_eq(K.call(fac["forward"], y, 100 * (x / y - 1)), x + 1))


# The keyword shifts (yoy/soy/eopy/tty) of the change functions land on the reference period computed by
# dates.py: the C09 contracts on those functions are obligations of C13 too.
from contracts.c09_dates import regular_keyword_shifts, daily_keyword_shifts, REG as _REG
contract("C13", name="regular_keyword_shifts", targets=["irispie.dates:Period.shift", "irispie.dates:RegularPeriodMixin.create_soy",
         "irispie.dates:RegularPeriodMixin.create_eopy", "irispie.dates:RegularPeriodMixin.create_tty"], instances=_REG)(regular_keyword_shifts)
contract("C13", name="daily_keyword_shifts", targets=["irispie.dates:DailyPeriod.create_soy", "irispie.dates:DailyPeriod.create_eopy",
         "irispie.dates:DailyPeriod.create_tty"], instances=[()])(daily_keyword_shifts)
