"""C13 - change and cumulation transforms follow their formulas and invert each other.

Scalar layer: the lambdas that the real methods hand to temporal_change / the real _CUMULATIVE_FACTORY
entries are extracted by running the real methods with the call of temporal_change intercepted
(K.capture), then proved against the documented formulas over the reals.  numpy element-wise semantics:
a scalar stands for the generic array element."""
from pyvc.prove import contract
import irispie.dates as D
from irispie.series import _temporal as T
from irispie.series.main import Series

P = "irispie.series._temporal:"
FREQ_CLASSES = [D.YearlyPeriod, D.HalfyearlyPeriod, D.QuarterlyPeriod, D.MonthlyPeriod, D.DailyPeriod, D.IntegerPeriod]
FLEX = ["diff", "diff_log", "pct", "roc"]
# shift="tty" (documentation of temporal_change): like shift=-1, except that in start-of-year periods "the value of the
# resulting series is unchanged" - the reference value there is a neutral element of the formula, so that the result is
# the value itself in the units of the function: x for diff and roc, log x for diff_log (exp(diff_log) == roc has to hold
# in every period); pct declares no neutral element (None: missing in start-of-year periods).
START_OF_YEAR = {"diff": lambda K, x: x, "roc": lambda K, x: x, "diff_log": lambda K, x: K.log(x), "pct": None}


def series_stub(K, cls=D.QuarterlyPeriod, data=None):
    attrs = dict(start=K.obj(cls, serial=K.int("start_serial", 8000, 8100) if cls is not D.DailyPeriod else K.int("start_serial", 730000, 730100)))
    if data is not None:
        attrs["data"] = data
    return K.obj(Series, **attrs)


def documented(K, name, x, y, a=1):
    """Formulas of the overview table in the temporal_change docstring."""
    if name == "diff":
        return x - y
    if name == "diff_log":
        return K.log(x) - K.log(y)
    if name == "pct":
        return 100 * (x / y - 1)
    if name == "roc":
        return x / y
    if name == "adiff":
        return a * (x - y)
    if name == "adiff_log":
        return a * (K.log(x) - K.log(y))
    if name == "apct":
        return 100 * (K.pow(x / y, a) - 1)
    if name == "aroc":
        return K.pow(x / y, a)
    raise KeyError(name)


def capture_change(K, name, s, *args):
    calls = K.capture(T.Inlay, "temporal_change", lambda: K.method(s, name, *args))
    K.ensure(f"{name} delegates to temporal_change exactly once", len(calls) == 1)
    (self_, by, func), kw = calls[0]
    return by, func, kw


def pos_pair(K, name):
    """x_t and the reference value x_s in the domain of the transform."""
    logs = "log" in name
    ann = name in ("apct", "aroc")          # (x/y)**365 overflows floats away from 1: narrow only the native cross-check draws
    x = K.real("x", positive=logs, sample=(0.98, 1.02) if ann else None)
    y = K.real("y", positive=logs, nonzero=name in ("pct", "roc", "apct", "aroc"), sample=(0.98, 1.02) if ann else None)
    return x, y


@contract("C13", targets=[P + "Inlay." + n for n in FLEX], instances=[(n,) for n in FLEX])
def flexible_change_formula(K, name):
    s = series_stub(K)
    k = K.int("shift", -400, -1)
    by, func, kw = capture_change(K, name, s, k)
    K.ensure("shift passed through", by == k)
    x, y = pos_pair(K, name)
    neutral = kw.get("neutral_value", "missing")
    if START_OF_YEAR[name] is None:
        K.ensure("no neutral element declared: start-of-year periods under tty are missing", neutral is None)
    else:
        K.ensure("a neutral element is declared for start-of-year periods under tty", neutral not in (None, "missing"))
        if neutral not in (None, "missing"):
            K.ensure(f"{name} in a start-of-year period under tty: the value itself in the units of {name}",
                     K.real_eq(K.call(func, x, neutral), START_OF_YEAR[name](K, x)))
    K.ensure(f"{name}(x_t, x_s) == documented formula", K.real_eq(K.call(func, x, y), documented(K, name, x, y)))
    for kwd in ("yoy", "soy", "eopy", "tty"):
        by2, func2, _ = capture_change(K, name, s, kwd)
        K.ensure(f"keyword shift {kwd} passed through", by2 == kwd)
        K.ensure(f"{name}[{kwd}] same formula", K.real_eq(K.call(func2, x, y), documented(K, name, x, y)))
    by3, _, _ = capture_change(K, name, s)
    K.ensure("default shift is -1", by3 == -1)


ANN = ["adiff", "adiff_log", "aroc", "apct"]


@contract("C13", targets=[P + "Inlay." + n for n in ANN], instances=[(n, c) for n in ANN for c in FREQ_CLASSES])
def annualised_change_formula(K, name, cls):
    s = series_stub(K, cls)
    a = int(cls.frequency) or 1
    by, func, kw = capture_change(K, name, s)
    K.ensure("fixed shift -1", by == -1)
    x, y = pos_pair(K, name)
    K.ensure(f"{name}(x_t, x_t-1) == documented formula with a={a}", K.real_eq(K.call(func, x, y), documented(K, name, x, y, a)))


@contract("C13", targets=[P + "_CUMULATIVE_FACTORY"] + [P + "Inlay." + n for n in FLEX], instances=[(n,) for n in FLEX])
def cumulation_inverts_change(K, name):
    """forward(x_s, change(x_t, x_s)) == x_t and backward(x_t, change(x_t, x_s)) == x_s."""
    s = series_stub(K)
    _, change, _ = capture_change(K, name, s, -1)
    x = K.real("x", positive=True) if name == "diff_log" else K.real("x", nonzero=name in ("pct", "roc"))
    y = K.real("y", positive=True) if name == "diff_log" else K.real("y", nonzero=name in ("pct", "roc"))
    c = K.call(change, x, y)
    fac = T._CUMULATIVE_FACTORY[name]
    K.ensure("forward cumulation step restores x_t", K.real_eq(K.call(fac["forward"], y, c), x))
    K.ensure("backward cumulation step restores x_s", K.real_eq(K.call(fac["backward"], x, c), y))
    # the two directions are inverse to each other for any change value in the domain
    v = K.real("v")
    ch = K.real("ch")
    if name == "pct":
        K.assume(ch != -100)
    if name == "roc":
        K.assume(ch != 0)
    K.ensure("backward(forward(v, ch), ch) == v", K.real_eq(K.call(fac["backward"], K.call(fac["forward"], v, ch), ch), v))
    K.ensure("forward(backward(v, ch), ch) == v", K.real_eq(K.call(fac["forward"], K.call(fac["backward"], v, ch), ch), v))


@contract("C13", targets=[P + "Inlay.roc_from_pct", P + "Inlay.pct_from_roc", P + "_roc_from_pct"] + [P + "Inlay.pct", P + "Inlay.roc"], instances=[()])
def pct_roc_conversions(K):
    x = K.real("x")
    y = K.real("y", nonzero=True)
    st = series_stub(K)
    _, pct, _ = capture_change(K, "pct", st, -1)
    _, roc, _ = capture_change(K, "roc", st, -1)
    s = series_stub(K, data=K.scalar_array(K.call(pct, x, y)))
    K.method(s, "roc_from_pct")
    K.ensure("roc_from_pct(pct(x,y)) == roc(x,y)", K.real_eq(K.elem(K.attr(s, "data")), K.call(roc, x, y)))
    s = series_stub(K, data=K.scalar_array(K.call(roc, x, y)))
    K.method(s, "pct_from_roc")
    K.ensure("pct_from_roc(roc(x,y)) == pct(x,y)", K.real_eq(K.elem(K.attr(s, "data")), K.call(pct, x, y)))
    K.ensure("_roc_from_pct helper", K.real_eq(K.call(T._roc_from_pct, K.call(pct, x, y)), K.call(roc, x, y)))


@contract("C13", targets=[P + "Inlay.pct_from_apct", P + "Inlay.roc_from_apct", P + "Inlay.roc_from_aroc", P + "Inlay.apct", P + "Inlay.aroc"],
          instances=FREQ_CLASSES)
def annualised_conversions(K, cls):
    """Converting an annualised rate back gives the plain rate of the same (x_t, x_t-1), x/y > 0."""
    x = K.real("x", positive=True, sample=(1.0, 1.02))
    y = K.real("y", positive=True, sample=(1.0, 1.02))
    st = series_stub(K, cls)
    _, pct, _ = capture_change(K, "pct", st, -1)
    _, roc, _ = capture_change(K, "roc", st, -1)
    _, apct, _ = capture_change(K, "apct", st)
    _, aroc, _ = capture_change(K, "aroc", st)
    s = series_stub(K, cls, data=K.scalar_array(K.call(aroc, x, y)))
    K.method(s, "roc_from_aroc")
    K.ensure("roc_from_aroc(aroc) == roc", K.real_eq(K.elem(K.attr(s, "data")), K.call(roc, x, y)))
    s = series_stub(K, cls, data=K.scalar_array(K.call(apct, x, y)))
    K.method(s, "roc_from_apct")
    K.ensure("roc_from_apct(apct) == roc", K.real_eq(K.elem(K.attr(s, "data")), K.call(roc, x, y)))
    s = series_stub(K, cls, data=K.scalar_array(K.call(apct, x, y)))
    K.method(s, "pct_from_apct")
    K.ensure("pct_from_apct(apct) == pct", K.real_eq(K.elem(K.attr(s, "data")), K.call(pct, x, y)))


@contract("C13", targets=[P + "_catch_invalid_shift"], instances=[()])
def invalid_shift_rejected(K):
    k = K.int("shift", -50, 50)
    if K.branch(k >= 0):
        K.raises(ValueError, lambda: K.call(T._catch_invalid_shift, k), "non-negative shift rejected")
    else:
        K.ensure("negative shift accepted", K.is_none(K.call(T._catch_invalid_shift, k)))
    for kw in ("yoy", "soy", "eopy", "tty"):
        K.ensure(f"keyword {kw} accepted", K.is_none(K.call(T._catch_invalid_shift, kw)))


@contract("C13", targets=[P + "_CUMULATIVE_FACTORY"], instances=[()], canary=True)
def canary_wrong_pct_inverse(K):
    x = K.real("x")
    y = K.real("y", nonzero=True)
    fac = T._CUMULATIVE_FACTORY["pct"]
    K.ensure("WRONG: forward pct step adds the change", K.real_eq(K.call(fac["forward"], y, 100 * (x / y - 1)), x + 1))


# The keyword shifts (yoy/soy/eopy/tty) of the change functions land on the reference period computed by
# dates.py: the C09 contracts on those functions are obligations of C13 too.
from contracts.c09_dates import regular_keyword_shifts, daily_keyword_shifts, REG as _REG
contract("C13", name="regular_keyword_shifts", targets=["irispie.dates:Period.shift", "irispie.dates:RegularPeriodMixin.create_soy",
         "irispie.dates:RegularPeriodMixin.create_eopy", "irispie.dates:RegularPeriodMixin.create_tty"], instances=_REG)(regular_keyword_shifts)
contract("C13", name="daily_keyword_shifts", targets=["irispie.dates:DailyPeriod.create_soy", "irispie.dates:DailyPeriod.create_eopy",
         "irispie.dates:DailyPeriod.create_tty"], instances=[()])(daily_keyword_shifts)


# ------------------------------------------------------------------------------ series level: alignment of the change functions
from contracts.c10_series import mk_series, V, state, RI, generic_cell
import numpy as np

CHANGE_CELL = {
    "diff": lambda K, a, b: a - b,
    "roc": lambda K, a, b: a / b,
    "pct": lambda K, a, b: 100 * (a / b - 1),
    "diff_log": lambda K, a, b: K.log(a) - K.log(b),
}


@contract("C13", targets=[P + "Inlay.temporal_change", P + "Inlay.diff", P + "Inlay.roc", P + "Inlay.pct", P + "Inlay.diff_log", P + "_catch_invalid_shift",
                          "irispie.series.main:Series.shift", "irispie.series.main:Series._binop"],
          instances=[(n, 1) for n in CHANGE_CELL] + [("diff", 2)], opts={"max_paths": 6000})
def change_is_period_by_period(K, name, nv):
    """x.diff(k) etc. on a series of unbounded length, any negative integer shift: value at t is f(x(t), x(t+k)),
    NaN where either is missing; the result has no all-missing leading/trailing period."""
    cls = D.QuarterlyPeriod
    x, xs, xd = mk_series(K, "x", cls, nv)
    old = K.snapshot(xd)
    k = K.int("shift", -12, -1)
    K.method(x, name, k)
    ns, nd = state(K, x)
    t, c = generic_cell(K, cls, nv)
    K.instantiate(t)
    a, b = V(K, xs, old, t, c), V(K, xs, old, t + k, c)
    if name in ("roc", "pct"):
        K.assume(K.Or(K.cell_is_nan(b), K.cell_val(b) != 0))
    if name == "diff_log":
        K.assume(K.And(K.Or(K.cell_is_nan(a), K.cell_val(a) > 0), K.Or(K.cell_is_nan(b), K.cell_val(b) > 0)))
    nan = K.Or(K.cell_is_nan(a), K.cell_is_nan(b))
    want = K.cell_ite(nan, lambda: K.nan_cell(), lambda: K.real_cell(CHANGE_CELL[name](K, K.cell_val(a), K.cell_val(b))))
    K.ensure(f"{name}(x, k)(t) == f(x(t), x(t+k)) period by period", K.cell_eq(V(K, ns, nd, t, c), want))
    K.ensure("RI of the result", RI(K, x, nv, cls))


# ------------------------------------------------------------------------------ series level: the cumulation loops (loop contracts)
CUM = {"diff": (lambda K, a, b: a - b), "roc": (lambda K, a, b: a / b), "pct": (lambda K, a, b: 100 * (a / b - 1))}


def _full_series(K, name, cls, lo_serial, hi_serial, positive=False, nonzero=False):
    """A series observed on every period of [lo, hi] (no interior missing values): returns (obj, start, data, cell(t))."""
    rows = hi_serial - lo_serial + 1
    data = K.array(name + "_data", (rows, 1), nan=False)
    s = K.obj(Series, start=K.obj(cls, serial=lo_serial), data=data, data_type=np.float64, metadata={}, __description__="")
    return s, data


def _x_cell(K, xd, lo, t):
    return K.cell(xd, t - lo, 0)


@contract("C13", targets=[P + "Inlay._cumulate_forward", P + "Inlay.temporal_cumulation", P + "_CUMULATIVE_FACTORY",
                          "irispie.series.main:Series.set_data", "irispie.series.main:Series.get_data", "irispie.series.main:Series.empty"],
          instances=[(n,) for n in CUM], cross=0, opts={"max_paths": 20000})
def forward_cumulation_reproduces_the_series(K, name):
    """Loop contract for _cumulate_forward with the original series x as initial condition and change = f(x, shift):
    invariant (independent of the iteration): self == x on [from+shift, until] and NaN elsewhere.  init: the code before
    the loop establishes it; step: one iteration at ANY period t of the span keeps it; exit: it is the result, which
    contains the span - so cum_f(change(x), initial=x) == x on the span, for every negative shift."""
    cls = D.QuarterlyPeriod
    k = K.int("shift", -6, -1)
    a = K.int("from", 8010, 8040)
    b = K.int("until", 8010, 8060)
    K.assume(a <= b)
    lo = a + k
    x, xd = _full_series(K, "x", cls, lo, b)
    f = CUM[name]
    i = K.int("i", 0, 60)
    K.assume(i <= b - a)
    if name in ("roc", "pct"):
        # x has no zero on [from+shift, until] (domain of the rate transforms): the instance the step needs
        K.assume(K.cell_val(_x_cell(K, xd, lo, a + i + k)) != 0)
    # the change series: f(x(t), x(t+k)) on [from, until] (what the real change function leaves, by change_is_period_by_period)
    crows = b - a + 1
    from pyvc.ndarray import NDArr
    cdata = K.derived_array((crows, 1), lambda i, c: K.real_cell(f(K, K.cell_val(_x_cell(K, xd, lo, a + i)), K.cell_val(_x_cell(K, xd, lo, a + i + k)))))
    cdata0 = K.snapshot(cdata)
    change = K.obj(Series, start=K.obj(cls, serial=a), data=cdata, data_type=np.float64, metadata={}, __description__="")
    span = K.call(D.Span, K.obj(cls, serial=a), K.obj(cls, serial=b))
    fac = T._CUMULATIVE_FACTORY[name]
    t = K.int("t", 7990, 8070)
    K.instantiate(t)
    inv_cell = lambda: K.cell_ite(K.And(lo <= t, t <= b), lambda: _x_cell(K, xd, lo, K.ite(K.And(lo <= t, t <= b), t, lo)), lambda: K.nan_cell())   # noqa: E731

    # ---- init: run the real code before the loop on self = change series
    h0 = K.run_prefix(T.Inlay._cumulate_forward, change, k, fac["forward"], x, span)
    K.instantiate(t)
    s0 = K.local(h0, "self")
    ss, sd = state(K, s0)
    K.ensure("init: the invariant holds before the first iteration", K.cell_eq(V(K, ss, sd, t, 0), inv_cell()))
    ch = K.local(h0, "change")
    cs, cd = state(K, ch)
    K.ensure("init: `change` holds the change series", K.And(cs == a, K.Implies(K.And(a <= t, t <= b), K.cell_eq(V(K, cs, cd, t, 0), K.cell(cdata0, K.ite(K.And(a <= t, t <= b), t - a, 0), 0)))))
    z = K.local(h0, "zipped_span")
    ti, shi = K.seq_at(z, i)
    K.ensure("init: iteration i visits (from+i, from+i+shift)", K.And(K.seq_len(z) == b - a + 1, K.attr(ti, "serial") == a + i, K.attr(shi, "serial") == a + i + k))

    # ---- step: from ANY state satisfying the invariant, one iteration at period from+i
    self_data = K.derived_array((b - lo + 1, 1), lambda r, c: _x_cell(K, xd, lo, lo + r))
    me = K.obj(Series, start=K.obj(cls, serial=lo), data=self_data, data_type=np.float64, metadata={}, __description__="")
    # (the init part above ran the real prefix on `change` as self and mutated it: the step uses a fresh change series)
    change2 = K.obj(Series, start=K.obj(cls, serial=a), data=K.derived_array((crows, 1), lambda i_, c_: K.cell(cdata0, i_, 0)), data_type=np.float64, metadata={}, __description__="")
    h = K.loop_frame(T.Inlay._cumulate_forward, {"self": me, "change": change2, "cum_func": fac["forward"], "shift": k})
    K.loop_body(h, (K.obj(cls, serial=a + i), K.obj(cls, serial=a + i + k)))
    K.instantiate(t)
    K.instantiate(a + i)
    ms, md = state(K, me)
    K.ensure("step: the invariant is preserved by an iteration at any period of the span", K.cell_eq(V(K, ms, md, t, 0), inv_cell()))
    K.ensure("step: the reconstructed value at the visited period is x(t_i)", K.cell_eq(V(K, ms, md, a + i, 0), _x_cell(K, xd, lo, a + i)))


@contract("C13", targets=[P + "Inlay._cumulate_backward", "irispie.dates:Span.resolve", "irispie.dates:Span.shift"], instances=[("diff", w) for w in ("explicit", "until", "from", "both")], cross=0, opts={"max_paths": 20000})
def backward_cumulation_initial_condition_covers_the_chain(K, name, which):
    """_cumulate_backward, code before the loop: with x as initial condition the series is initialised to x on the whole
    range [min(target span), max(target span) - shift], i.e. every anchor period the backward chain reads (t = sh - shift
    for every reconstructed sh) carries its value - for EVERY negative shift, not only -1."""
    cls = D.QuarterlyPeriod
    k = K.int("shift", -6, -1)
    lo_t = K.int("target_from", 8010, 8040)        # reconstructed periods sh in [lo_t, hi_t], visited downwards
    hi_t = K.int("target_until", 8010, 8050)
    K.assume(lo_t <= hi_t)
    top = hi_t - k
    x, xd = _full_series(K, "x", cls, lo_t, top)
    # an end of the descending span left open means "as far as the change series reaches": the change series of x over
    # [lo_t, top] is stored on [lo_t - shift, top], so the open until-period is lo_t and the open from-period is hi_t
    c_lo = lo_t if which == "explicit" else lo_t - k
    cdata = K.derived_array((top - c_lo + 1, 1), lambda i, c: K.real_cell(K.cell_val(_x_cell(K, xd, lo_t, lo_t + i)) - 1))
    change = K.obj(Series, start=K.obj(cls, serial=c_lo), data=cdata, data_type=np.float64, metadata={}, __description__="")
    span = K.call(D.Span, None if which in ("from", "both") else K.obj(cls, serial=hi_t),
                  None if which in ("until", "both") else K.obj(cls, serial=lo_t), -1)
    fac = T._CUMULATIVE_FACTORY[name]
    h0 = K.run_prefix(T.Inlay._cumulate_backward, change, k, fac["backward"], x, span)
    s0 = K.local(h0, "self")
    ss, sd = state(K, s0)
    t = K.int("t", 7990, 8070)
    K.instantiate(t)
    K.ensure("init: self == x on [min(target), max(target) - shift], NaN elsewhere",
             K.cell_eq(V(K, ss, sd, t, 0), K.cell_ite(K.And(lo_t <= t, t <= top), lambda: _x_cell(K, xd, lo_t, K.ite(K.And(lo_t <= t, t <= top), t, lo_t)), lambda: K.nan_cell())))
    br, sbr = K.local(h0, "backward_range"), K.local(h0, "shifted_backward_range")
    K.ensure("iteration pairs are (sh - shift, sh) for sh from max(target) down to min(target)",
             K.And(K.attr(K.getattr(sbr, "start"), "serial") == hi_t, K.attr(K.getattr(sbr, "end"), "serial") == lo_t, K.getattr(sbr, "step") == -1,
                   K.attr(K.getattr(br, "start"), "serial") == hi_t - k, K.attr(K.getattr(br, "end"), "serial") == lo_t - k, K.getattr(br, "step") == -1))


@contract("C13", targets=[P + "Inlay._cumulate_backward"], instances=[(n,) for n in CUM], cross=0, opts={"max_paths": 20000})
def backward_cumulation_step(K, name):
    """Step of the backward loop from the invariant `self == x on [lo, top]` (x fully observed): an iteration at the pair
    (t, sh = t + shift) with orig.get_data(t) == f(x(t), x(sh)) keeps the invariant, i.e. writes x(sh) at sh."""
    cls = D.QuarterlyPeriod
    k = K.int("shift", -6, -1)
    lo = K.int("lo", 8010, 8040)
    top = K.int("top", 8010, 8060)
    K.assume(lo - k <= top)
    x, xd = _full_series(K, "x", cls, lo, top)
    f = CUM[name]
    t_i = K.int("t_i", 8000, 8070)
    K.assume(K.And(lo - k <= t_i, t_i <= top))
    sh_i = t_i + k
    if name in ("roc", "pct"):
        K.assume(K.And(K.cell_val(_x_cell(K, xd, lo, sh_i)) != 0, K.cell_val(_x_cell(K, xd, lo, t_i)) != 0))
    # orig: the change series on [lo - shift, top]
    orows = top - (lo - k) + 1
    odata = K.derived_array((orows, 1), lambda i, c: K.real_cell(f(K, K.cell_val(_x_cell(K, xd, lo, lo - k + i)), K.cell_val(_x_cell(K, xd, lo, lo + i)))))
    orig = K.obj(Series, start=K.obj(cls, serial=lo - k), data=odata, data_type=np.float64, metadata={}, __description__="")
    me = K.obj(Series, start=K.obj(cls, serial=lo), data=K.derived_array((top - lo + 1, 1), lambda r, c: _x_cell(K, xd, lo, lo + r)), data_type=np.float64, metadata={}, __description__="")
    fac = T._CUMULATIVE_FACTORY[name]
    h = K.loop_frame(T.Inlay._cumulate_backward, {"self": me, "orig": orig, "cum_func": fac["backward"], "shift": k})
    K.loop_body(h, (K.obj(cls, serial=t_i), K.obj(cls, serial=sh_i)))
    t = K.int("t", 7990, 8070)
    K.instantiate(t)
    K.instantiate(sh_i)
    ms, md = state(K, me)
    K.ensure("step: invariant preserved", K.cell_eq(V(K, ms, md, t, 0), K.cell_ite(K.And(lo <= t, t <= top), lambda: _x_cell(K, xd, lo, K.ite(K.And(lo <= t, t <= top), t, lo)), lambda: K.nan_cell())))
    K.ensure("step: x(sh) reconstructed at sh", K.cell_eq(V(K, ms, md, sh_i, 0), _x_cell(K, xd, lo, sh_i)))


from pyvc.bounded import bounded


@bounded("C13", bound="series of 6-14 periods (yearly, quarterly, monthly, daily), 1-2 variants, positive data; shifts -1..-4; forward spans and backward spans inside the data; cum_diff, cum_diff_log, cum_pct, cum_roc; keyword shifts yoy/soy/eopy/tty of diff, diff_log, roc, pct against an independent per-period reference")
def cumulation_and_keyword_shifts_native(B):
    """Native replay of the series-level sentences: cumulating the change with the original as initial condition
    reproduces the original on the span (forward and backward, every negative shift); keyword-shift changes equal
    x(t) - x(reference period of t)."""
    import irispie as ir
    rng = B.rng
    for cls, start in ((D.YearlyPeriod, D.yy(2001)), (D.QuarterlyPeriod, D.qq(2001, 2)), (D.MonthlyPeriod, D.mm(2001, 11)), (D.DailyPeriod, D.dd(2019, 12, 20))):
        for n in (6, 14):
            for nv in (1, 2):
                vals = np.array([[rng.uniform(0.5, 3.0) for _ in range(nv)] for _ in range(n)])
                x = Series(start=start, values=vals.copy())
                for shift in (-1, -2, -3, -4):
                    for cname, chg in (("cum_diff", ir.diff), ("cum_diff_log", ir.diff_log), ("cum_pct", ir.pct), ("cum_roc", ir.roc)):
                        for direction in ("forward", "backward"):
                            B.case()
                            c = chg(x, shift)
                            if direction == "forward":
                                span = (start - shift) >> (start + n - 1)
                                check = [start - shift + i for i in range(n + shift)]
                            else:
                                span = ir.Span(start + n - 1 + shift, start, -1)
                                check = [start + i for i in range(n + shift)]
                            if len(check) < 1:
                                continue
                            try:
                                r = getattr(ir, cname)(c, shift, initial=x, span=span)
                            except Exception as ex:
                                B.fail(f"{cname} {direction}: exception {type(ex).__name__}: {ex}", {"class": cls.__name__, "shift": shift, "n": n})
                                return
                            for t in check:
                                got, want = r.get_data((t,)), x.get_data((t,))
                                if not np.allclose(got, want, equal_nan=False, rtol=1e-9):
                                    B.fail(f"{cname} {direction} with the original as initial condition does not reproduce the original", {"class": cls.__name__, "shift": shift, "n": n, "variants": nv, "period": str(t), "got": got.tolist(), "want": want.tolist()})
                                    return
                for kw in ("yoy", "soy", "eopy", "tty"):
                    if cls is D.DailyPeriod and kw == "yoy":
                        continue
                    forms = (("diff", lambda a, b: a - b, lambda a: a), ("diff_log", lambda a, b: np.log(a) - np.log(b), np.log),
                             ("roc", lambda a, b: a / b, lambda a: a), ("pct", lambda a, b: 100 * (a / b - 1), lambda a: np.full_like(a, np.nan)))
                    for fname, formula, start_of_year in forms:
                        B.case()
                        try:
                            d = getattr(ir, fname)(x, kw)
                        except Exception as ex:
                            B.fail(f"{fname}(x, {kw!r}): exception {type(ex).__name__}: {ex}", {"class": cls.__name__})
                            return
                        for i in range(n):
                            t = start + i
                            ref = {"yoy": t - int(cls.frequency), "soy": t.create_soy(), "eopy": t.create_eopy(), "tty": t.create_tty()}[kw]
                            xt = x.get_data((t,))[0]
                            if ref is None:
                                want = start_of_year(xt)     # tty, start-of-year period: the value itself in the units of the function (pct: missing)
                            else:
                                want = formula(xt, x.get_data((ref,))[0])
                            got = d.get_data((t,))[0]
                            if not np.allclose(got, want, equal_nan=True, rtol=1e-9):
                                B.fail(f"{fname} with shift {kw!r} is not its formula on x(t) and x(reference period)", {"class": cls.__name__, "period": str(t), "got": got.tolist(), "want": want.tolist()})
                                return
                    # cumulating the keyword-shift change forward with the original as initial condition reproduces it
                    if n >= 10 and cls is not D.DailyPeriod:
                        F_ = int(cls.frequency)
                        span = (start + F_ + 1) >> (start + n - 1)
                        for cname, chg in (("cum_diff", ir.diff), ("cum_pct", ir.pct), ("cum_roc", ir.roc), ("cum_diff_log", ir.diff_log)):
                            B.case()
                            try:
                                r = getattr(ir, cname)(chg(x, kw), kw, initial=x, span=span)
                            except Exception as ex:
                                B.fail(f"{cname} with shift {kw!r}: exception {type(ex).__name__}: {ex}", {"class": cls.__name__})
                                return
                            if not np.allclose(r.get_data(span), x.get_data(span), rtol=1e-9):
                                B.fail(f"{cname} with shift {kw!r} and the original as initial condition does not reproduce the original", {"class": cls.__name__, "n": n, "variants": nv})
                                return


# ------------------------------------------------------------------------------ series level: keyword shifts
def _ref_serial(K, kw, t, F):
    """Serial of the reference period of a regular period with serial t (serial = year*F + segment - 1)."""
    seg0 = t % F                       # zero-based segment within the year (serials here are positive)
    if kw == "yoy":
        return t - F
    if kw == "soy":
        return t - seg0
    if kw == "eopy":
        return t - seg0 - 1
    raise KeyError(kw)


@contract("C13", targets=["irispie.series.main:Series.shift", "irispie.series.main:Series._shift_yoy", "irispie.series.main:Series._shift_soy",
                          "irispie.series.main:Series._shift_eopy", "irispie.series.main:Series._replace_data", "irispie.series.main:Series.get_data",
                          "irispie.dates:RegularPeriodMixin.create_soy", "irispie.dates:RegularPeriodMixin.create_eopy"],
          instances=[(kw, cls) for kw in ("yoy", "soy", "eopy") for cls in (D.QuarterlyPeriod, D.HalfyearlyPeriod)], opts={"max_paths": 6000})
def keyword_shift_moves_the_reference_observation_into_place(K, kw, cls):
    """x.shift("yoy"|"soy"|"eopy") on a series of unbounded length: afterwards the value AT period t is the observation of
    the documented reference period of t (same period a year earlier / first period of t's year / last period of the
    year before), for every t of the original span - so that f(x, shifted x) is the documented keyword-shift change."""
    F = int(cls.frequency)
    x, xs, xd = mk_series(K, "x", cls, 1)
    old = K.snapshot(xd)
    rows = K.shape(xd)[0]
    K.method(x, "shift", kw)
    ns, nd = state(K, x)
    t, c = generic_cell(K, cls, 1)
    K.instantiate(t)
    ref = _ref_serial(K, kw, t, F)
    K.instantiate(ref)
    if kw == "yoy":
        want = V(K, xs, old, ref, c)            # the whole series moves by a year
    else:
        inside = K.And(t >= xs, t < xs + rows)
        want = K.cell_ite(inside, lambda: V(K, xs, old, ref, c), lambda: K.nan_cell())
    K.ensure(f"after shift({kw!r}) period t holds the observation of its reference period", K.cell_eq(V(K, ns, nd, t, c), want))


@contract("C13", targets=["irispie.series.main:Series.shift", "irispie.series.main:Series._shift_tty", "irispie.dates:RegularPeriodMixin.create_tty",
                          "irispie.series.main:Series.set_data", "irispie.series.main:Series.get_data"],
          instances=[(D.QuarterlyPeriod, 6, 0), (D.QuarterlyPeriod, 6, 1), (D.HalfyearlyPeriod, 4, 1)], cross=4, opts={"max_paths": 6000})
def throughout_the_year_shift_on_a_series(K, cls, rows, neutral):
    """x.shift("tty", neutral_value=n) on a fully observed series of a fixed number of periods starting in ANY period of
    the year: afterwards every period that is not the first of its year holds the observation of the period before it,
    and every start-of-year period holds the neutral value."""
    F = int(cls.frequency)
    lo, hi = 8000, 8040
    start = K.int("x_start", lo, hi)
    data = K.array("x_data", (rows, 1), nan=False)
    x = K.obj(Series, start=K.obj(cls, serial=start), data=data, data_type=np.float64, metadata={}, __description__="")
    old = K.snapshot(data)
    K.method(x, "shift", "tty", neutral_value=neutral)
    ns, nd = state(K, x)
    for i in range(rows):
        t = start + i
        first_of_year = (t % F) == 0
        prev = K.cell(old, i - 1, 0) if i > 0 else K.nan_cell()
        want = K.cell_ite(first_of_year, lambda: K.real_cell(K.frac(neutral)), lambda: prev)
        K.instantiate(t)
        K.ensure(f"period {i} after shift('tty')", K.cell_eq(V(K, ns, nd, t, 0), want))


# ------------------------------------------------------------------------------ cum_*: which loop runs, with which step, from which initial value
@contract("C13", targets=[P + "Inlay.temporal_cumulation", P + "Inlay.cum_diff", P + "Inlay.cum_diff_log", P + "Inlay.cum_pct", P + "Inlay.cum_roc",
                          P + "_catch_invalid_shift", "irispie.dates:Span.resolve", "irispie.dates:Span.direction"],
          instances=[(n, d, i) for n in ("diff", "diff_log", "pct", "roc") for d in ("forward", "backward", "default") for i in (False, True)],
          cross=0, opts={"max_paths": 2000})
def cumulation_dispatch(K, name, direction, with_initial):
    """cum_<f>(shift, initial, span): an ascending span (or none: the whole series) runs the forward loop with the forward
    step of f, a descending span the backward loop with the backward step - the steps the contract above proves inverse to
    f -, over exactly that span, with the given shift and initial condition (documented default when none is given: 0 for
    diff and diff_log, 1 for pct and roc)."""
    cls = D.QuarterlyPeriod
    x, xs, xd = mk_series(K, "x", cls, 1)
    rows = K.shape(xd)[0]
    a = K.int("a", 8000, 8060)
    b = K.int("b", 8000, 8060)
    k = K.int("shift", -8, -1)
    init = K.real("initial") if with_initial else None
    if direction == "forward":
        K.assume(a <= b)
        span = K.call(D.Span, K.obj(cls, serial=a), K.obj(cls, serial=b))
    elif direction == "backward":
        K.assume(a >= b)
        span = K.call(D.Span, K.obj(cls, serial=a), K.obj(cls, serial=b), -1)
    else:
        span = None
    kw = {}
    if span is not None:
        kw["span"] = span
    if with_initial:
        kw["initial"] = init
    calls_f, calls_b = [], []

    def run():
        inner_b = K.capture(T.Inlay, "_cumulate_backward", lambda: K.method(x, "cum_" + name, k, **kw))
        calls_b.extend(inner_b)
    calls_f.extend(K.capture(T.Inlay, "_cumulate_forward", run))
    want_loop = "backward" if direction == "backward" else "forward"
    K.ensure("exactly one loop runs, in the direction of the span", (len(calls_f), len(calls_b)) == ((1, 0) if want_loop == "forward" else (0, 1)))
    calls = calls_f if want_loop == "forward" else calls_b
    if len(calls) != 1:
        return
    (self_, shift_, cum_func, initial_, span_), _ = calls[0]
    fac = T._CUMULATIVE_FACTORY[name]
    K.ensure("the step of this function and direction", cum_func is fac[want_loop])
    K.ensure("the shift is passed on", shift_ == k)
    if with_initial:
        K.ensure("the initial condition given", initial_ is init or K.real_eq(initial_, init))
    else:
        K.ensure("the documented default initial value", initial_ == {"diff": 0, "diff_log": 0, "pct": 1, "roc": 1}[name])
    s0, s1 = K.attr(K.getattr(span_, "start"), "serial"), K.attr(K.getattr(span_, "end"), "serial")
    if direction == "default":
        K.ensure("no span given: the whole series, forward", K.And(s0 == xs, s1 == xs + rows - 1, K.getattr(span_, "step") == 1))
    else:
        K.ensure("the span given", K.And(s0 == a, s1 == b, K.getattr(span_, "step") == (1 if direction == "forward" else -1)))
