"""C20 - copies, pickles and parameter variants are independent, equivalent models.

Ownership contracts: footprint(x) = the mutable heap cells (objects, lists, dicts, sets, array buffers) reachable
from x.  A copy is correct when (1) every slot is carried with an equal abstract value and (2) the footprints of
the copy and the original are disjoint - then no mutation of one can be observed through the other, whatever
sequence of operations follows.  The engine tracks object identity and array buffers, so disjointness is decided
on the real copy() code.  Numerical equivalence of the copies in steady/solve/simulate/filter is NOT covered
(it is C01/C03/C05)."""
import itertools
import numpy as np
from pyvc.prove import contract
from pyvc.bounded import bounded
import irispie as ir
from irispie.simultaneous import _variants as SV_
from irispie.red_vars import _variants as RV
from irispie import has_variants as HV
from irispie.conveniences import iterators as IT
from irispie import quantities as Q
from irispie.simultaneous import _flags as FL

PSV = "irispie.simultaneous._variants:"
PHV = "irispie.has_variants:"

SRC_SIM = "!transition_variables\n x, y\n!transition_shocks\n ex\n!parameters\n a\n!transition_equations\n x = a*x[-1] + ex;\n y = x + 0.5*y[-1];\n"
SRC_SEQ = "!equations\n x = 0.5*x[-1] + y;\n z === x + 1;\n"
_models = {}


def model(kind):
    if kind not in _models:
        if kind == "simultaneous":
            m = ir.Simultaneous.from_string(SRC_SIM, linear=True)
            m.assign(a=0.5)
            m.solve()
        elif kind == "simultaneous2":
            m = ir.Simultaneous.from_string(SRC_SIM, linear=True)
            m.alter_num_variants(2)
            m.assign(a=[0.5, 0.7])
            m.solve()
        else:
            m = ir.Sequential.from_string(SRC_SEQ)
        _models[kind] = m
    return _models[kind]


# ------------------------------------------------------------------------------ variant of a Simultaneous model
@contract("C20", targets=[PSV + "Variant.copy", PSV + "Variant.__init__", "irispie.fords.solutions:Solution.copy"], instances=[(False,), (True,)])
def simultaneous_variant_copy_owns_its_state(K, with_solution):
    lv = {0: K.real("l0"), 1: K.real("l1"), 2: None}
    ch = {0: K.real("c0"), 1: None, 2: None}
    sol = K.lift(model("simultaneous")._variants[0].solution) if with_solution else None
    v = K.obj(SV_.Variant, levels=lv, changes=ch, solution=sol)
    c = K.method(v, "copy")
    K.ensure("copy is a new Variant", K.cls_of(c) is SV_.Variant and c is not v)
    cl, cc = K.attr(c, "levels"), K.attr(c, "changes")
    K.ensure("levels and changes carried with equal values", set(cl) == {0, 1, 2} and set(cc) == {0, 1, 2} and cl[2] is None and cc[1] is None)
    K.ensure("level values equal", K.And(K.real_eq(cl[0], lv[0]), K.real_eq(cl[1], lv[1]), K.real_eq(cc[0], ch[0])))
    K.ensure("solution carried" if with_solution else "no solution stays no solution", (K.attr(c, "solution") is not None) == with_solution)
    K.ensure("no mutable cell shared with the original", K.shared_cells(c, v) == [])
    cl[0] = 99
    K.ensure("assigning into the copy leaves the original", K.real_eq(K.attr(v, "levels")[0], lv[0]))


# ------------------------------------------------------------------------------ whole models
@contract("C20", targets=["irispie.simultaneous.main:Simultaneous.copy", "irispie.simultaneous._invariants:Invariant.copy" if hasattr(ir.simultaneous._invariants.Invariant, "copy") else PSV + "Variant.copy",
                          PSV + "Variant.copy"], instances=[("simultaneous",), ("simultaneous2",)], cross=2, opts={"max_paths": 50})
def simultaneous_copy_is_independent(K, kind):
    m = K.lift(model(kind))
    c = K.method(m, "copy")
    K.ensure("a new model of the same class", c is not m and K.cls_of(c) is ir.Simultaneous)
    mv, cv = K.items(K.attr(m, "_variants")), K.items(K.attr(c, "_variants"))
    K.ensure("same number of variants", len(mv) == len(cv))
    K.ensure("no mutable cell shared between copy and original (invariant, variants, solutions)", K.shared_cells(c, m) == [])
    for a, b in zip(mv, cv):
        K.ensure("variant parameter values carried", dict(K.attr(a, "levels")) == dict(K.attr(b, "levels")) and dict(K.attr(a, "changes")) == dict(K.attr(b, "changes")))
    K.ensure("names, kinds and equations carried", [(q.human, q.kind, q.logly) for q in K.native_attr(K.attr(c, "_invariant"), "quantities")]
             == [(q.human, q.kind, q.logly) for q in model(kind)._invariant.quantities]
             and [e.human for e in K.native_attr(K.attr(c, "_invariant"), "dynamic_equations")] == [e.human for e in model(kind)._invariant.dynamic_equations])


@contract("C20", targets=["irispie.sequentials.main:Sequential.copy"], instances=[()], cross=2, opts={"max_paths": 50})
def sequential_copy_is_independent(K):
    m = K.lift(model("sequential"))
    c = K.method(m, "copy")
    K.ensure("a new model of the same class", c is not m and K.cls_of(c) is ir.Sequential)
    K.ensure("no mutable cell shared between copy and original (explanatories included)", K.shared_cells(c, m) == [])
    K.ensure("equations carried in order", [K.attr(K.attr(x, "equation"), "human") for x in K.items(K.attr(K.attr(c, "_invariant"), "explanatories"))]
             == [x.equation.human for x in model("sequential")._invariant.explanatories])


# ------------------------------------------------------------------------------ variants machinery (has_variants.Mixin)
class _Holder(HV.Mixin):
    """Minimal has-variants object: the mixin only needs _invariant and _variants."""
    def __init__(self, invariant=None):
        self._invariant = invariant
        self._variants = []


def holder(K, n):
    h = K.obj(_Holder, _invariant="INV", _variants=[K.obj(SV_.Variant, levels={0: K.real(f"p{i}")}, changes={0: None}, solution=None) for i in range(n)])
    return h


@contract("C20", targets=[PHV + "Mixin.expand_num_variants", PHV + "Mixin.shrink_num_variants", PHV + "Mixin.alter_num_variants", PHV + "Mixin.num_variants",
                          PSV + "Variant.copy"], instances=[(n, m) for n in (1, 2) for m in (1, 2, 3, 4)], cross=0)
def altering_the_number_of_variants(K, n, new_num):
    h = holder(K, n)
    old = list(K.items(K.attr(h, "_variants")))
    K.method(h, "alter_num_variants", new_num)
    vs = K.items(K.attr(h, "_variants"))
    K.ensure("requested number of variants", len(vs) == new_num and K.getattr(h, "num_variants") == new_num)
    K.ensure("existing variants kept as the same objects", all(vs[i] is old[i] for i in range(min(n, new_num))))
    for i in range(n, new_num):
        K.ensure(f"added variant {i} equals the last one", K.real_eq(K.attr(vs[i], "levels")[0], K.attr(old[-1], "levels")[0]))
    for i, j in itertools.combinations(range(len(vs)), 2):
        K.ensure(f"variants {i} and {j} are independent objects", vs[i] is not vs[j] and K.shared_cells(vs[i], vs[j]) == [])


@contract("C20", targets=[PHV + "Mixin.iter_variants", PHV + "Mixin.iter_own_variants", PHV + "Mixin.get_variant", PHV + "Mixin.new_with_shallow_variants",
                          PHV + "Mixin.skeleton", PHV + "_resolve_vids", "irispie.conveniences.iterators:exhaust_then_last", PHV + "iter_variants"],
          instances=[(1,), (2,), (3,)], cross=0)
def variant_iteration_broadcasts_the_last(K, n):
    """iter_variants yields own variant min(k, n-1) at position k (exhaust-then-last), each as a single-variant view
    sharing the invariant; get_variant(k) selects exactly variant k."""
    h = holder(K, n)
    vs = K.items(K.attr(h, "_variants"))
    it = K.method(h, "iter_variants")
    for k in range(n + 2):
        x = K.builtin("next", it)
        xv = K.items(K.attr(x, "_variants"))
        K.ensure(f"element {k} is a single-variant view of own variant min(k, n-1)", len(xv) == 1 and xv[0] is vs[min(k, n - 1)] and K.attr(x, "_invariant") == "INV")
    for k in range(n):
        g = K.method(h, "get_variant", k)
        K.ensure(f"get_variant({k})", [v for v in K.items(K.attr(g, "_variants"))] == [vs[k]] and g is not h)
    sh = K.method(h, "new_with_shallow_variants")
    K.ensure("shallow variants: new list, same variant objects", K.attr(sh, "_variants") is not K.attr(h, "_variants") and list(K.items(K.attr(sh, "_variants"))) == list(vs))
    data = [10, 20, 30][:n]
    it2 = K.call(HV.iter_variants, data)
    K.ensure("iter_variants of a list broadcasts its last element", [K.builtin("next", it2) for _ in range(n + 2)] == data + [data[-1]] * 2)
    it3 = K.call(IT.exhaust_then_last, [], "dflt")
    K.ensure("exhaust_then_last of an empty iterable yields the default", K.builtin("next", it3) == "dflt")


# ------------------------------------------------------------------------------ portable encode / decode pairs
@contract("C20", targets=["irispie.quantities:QuantityKind.to_portable", "irispie.quantities:QuantityKind.from_portable", "irispie.quantities:Quantity.to_portable",
                          "irispie.quantities:Quantity.from_portable"], instances=[(k,) for k in Q._TO_PORTABLES], cross=2)
def quantity_portable_roundtrip(K, kind):
    K.ensure("kind round-trips", K.call(Q.QuantityKind.from_portable, K.method(kind, "to_portable")) is kind)
    for logly in (None, False, True):
        q = K.call(Q.Quantity, id=3, human="name", kind=kind, logly=logly, description="some text", entry=1, attributes={"attr1"})
        back = K.call(Q.Quantity.from_portable, K.method(q, "to_portable"))
        K.ensure(f"quantity round-trips (logly={logly})", (K.attr(back, "human"), K.attr(back, "kind"), K.attr(back, "logly"), K.attr(back, "description"), K.attr(back, "attributes"))
                 == ("name", kind, logly, "some text", {"attr1"}))


@contract("C20", targets=["irispie.simultaneous._flags:Flags.to_portable", "irispie.simultaneous._flags:Flags.from_portable"] if hasattr(FL.Flags, "to_portable") else [],
          instances=[(l, f, d) for l in (False, True) for f in (False, True) for d in (False, True)], cross=2)
def flags_portable_roundtrip(K, linear, flat, deterministic):
    fl = FL.Flags.from_kwargs(linear=linear, flat=flat, deterministic=deterministic)
    back = K.call(FL.Flags.from_portable, K.method(fl, "to_portable"))
    K.ensure("flags round-trip", (back.is_linear, back.is_flat, back.is_deterministic) == (linear, flat, deterministic))


@contract("C20", targets=[PSV + "Variant.copy"], instances=[()], canary=True)
def canary_variant_copy_shares_levels(K):
    v = K.obj(SV_.Variant, levels={0: K.real("l0")}, changes={0: None}, solution=None)
    c = K.method(v, "copy")
    K.ensure("WRONG: the copy shares the levels dict", K.attr(c, "levels") is K.attr(v, "levels"))


# ------------------------------------------------------------------------------ bounded stand-ins (NOT proofs)
@bounded("C20", bound="three representative models (solved Simultaneous with 1 and 3 variants, Sequential with a transform and an identity); copy, pickle round trip, alter_num_variants 1->3, 2->4->3; every slot of Invariant")
def copies_and_pickles_native(B):
    """Native ownership/behaviour replay: copies and pickles share no mutable cell with the original, carry every
    serialized slot, recompute every derived slot, and simulate identically; added variants are distinct objects."""
    import pickle
    from pyvc.kit import native_footprint
    src = SRC_SIM
    for nv in (1, 3):
        B.case()
        m = ir.Simultaneous.from_string(src, linear=True)
        if nv > 1:
            m.alter_num_variants(nv)
        m.assign(a=[0.5, 0.6, 0.7][:nv] if nv > 1 else 0.5)
        m.solve()
        if len({id(v) for v in m._variants}) != nv or any(set(native_footprint(a)) & set(native_footprint(b)) for a, b in itertools.combinations(m._variants, 2)):
            B.fail("variants created by alter_num_variants share state", {"variants": nv})
            return
        for how in ("copy", "pickle"):
            c = m.copy() if how == "copy" else pickle.loads(pickle.dumps(m))
            shared = set(native_footprint(m)) & set(native_footprint(c))
            if shared:
                B.fail(f"{how} shares mutable state with the original", {"cells": len(shared)})
                return
            inv, cinv = m._invariant, c._invariant
            for slot in inv.__slots__:
                if (getattr(inv, slot, None) is None) != (getattr(cinv, slot, None) is None):
                    B.fail(f"{how} does not carry/recompute slot {slot}", {"slot": slot})
                    return
            span = ir.qq(2020, 1) >> ir.qq(2020, 8)
            db = ir.Databox.zero(m, span)
            db["ex"] = ir.Series(start=ir.qq(2020, 1), values=np.array([1.0] + [0.0] * 7))
            s1 = m.simulate(db, span, deviation=True)
            s2 = c.simulate(db, span, deviation=True)
            s1 = s1[0] if isinstance(s1, tuple) else s1
            s2 = s2[0] if isinstance(s2, tuple) else s2
            if not np.allclose(s1["y"].data, s2["y"].data, equal_nan=True):
                B.fail(f"{how} simulates differently from the original", {"variants": nv})
                return
            c.assign(a=0.1)
            if not np.allclose([v.levels[m.create_name_to_qid()["a"]] for v in m._variants], [0.5, 0.6, 0.7][:nv]):
                B.fail(f"assigning into the {how} changed the original", {"variants": nv})
                return
    B.case()
    s = ir.Sequential.from_string("!equations\n diff_log(x) = 0.5*y;\n z === x + 1;\n")
    for how in ("copy", "pickle"):
        try:
            c = s.copy() if how == "copy" else pickle.loads(pickle.dumps(s))
        except Exception as ex:
            if how == "pickle":
                continue         # reported by sequential_pickle_round_trip_native
            raise
        if set(native_footprint(s)) & set(native_footprint(c)):
            B.fail(f"Sequential {how} shares mutable state with the original", {})
            return
    B.case()
    m = ir.Simultaneous.from_string(src, linear=True)
    m.alter_num_variants(2)
    m.alter_num_variants(4)
    m.alter_num_variants(3)
    if len({id(v) for v in m._variants}) != 3 or any(set(native_footprint(a)) & set(native_footprint(b)) for a, b in itertools.combinations(m._variants, 2)):
        B.fail("variants after 1->2->4->3 share state", {})
        return


# ------------------------------------------------------------------------------ variant isolation in systemize
@contract("C20", targets=["irispie.simultaneous.main:Simultaneous._systemize"], instances=[(0,), (1,)], cross=2, opts={"max_paths": 50})
def systemize_reads_only_its_own_variant(K, vid):
    """The unsolved system of variant k is built from variant k's own steady arrays (current and lagged) and from
    nothing else: variant k of a multi-variant model is treated like a single-variant model with its values."""
    from irispie.fords import systems as SY
    native = ir.Simultaneous.from_string(SRC_SIM, linear=False)
    native.alter_num_variants(2)
    native.assign(a=[0.5, 0.7])
    m = K.lift(native)
    variants = K.items(K.attr(m, "_variants"))
    v = variants[vid]
    flags_ = FL.Flags.from_kwargs(linear=False, flat=True, deterministic=False)
    calls = []

    def run():
        inner = K.capture(SV_.Variant, "create_steady_array", lambda: K.method(m, "_systemize", v, K.attr(K.attr(m, "_invariant"), "dynamic_descriptor"), flags_))
        calls.extend(inner)
    systems = K.capture(SY.System, "__init__", run)
    K.ensure("two steady arrays are built (current and lagged) and one System", len(calls) == 2 and len(systems) == 1)
    K.ensure("both arrays come from the variant being systemized", all(c[0][0] is K.lift(v) or c[0][0] is v for c in calls))
    mn = native._invariant._min_shift
    K.ensure("current and once-lagged first columns", sorted(c[1].get("shift_in_first_column") for c in calls) == [mn - 1, mn])


# ------------------------------------------------------------------------------ the state a copy / pickle carries
from irispie.simultaneous import _invariants as SINV


@contract("C20", targets=["irispie.simultaneous._invariants:Invariant.__getstate__", "irispie.simultaneous._invariants:Invariant.__setstate__",
                          "irispie.simultaneous._tolerance:Inlay.override_tolerance"], instances=[("simultaneous",), ("simultaneous2",)], cross=2, opts={"max_paths": 100})
def invariant_state_round_trip_keeps_every_setting(K, kind):
    """copy(), pickle and dill rebuild the invariant from __getstate__/__setstate__: every serialized slot of the
    rebuilt object is the value that was saved - including settings the user changed from their defaults
    (tolerances) - so a clone behaves as the original (same unit-root classification, same equality checks)."""
    m0 = model(kind).copy()
    m = K.lift(m0)
    K.method(m, "override_tolerance", eigenvalue=1e-6, equality=1e-9)
    inv = K.attr(m, "_invariant")
    K.ensure("the override is in force", dict(K.attr(inv, "tolerance")) == {"eigenvalue": 1e-6, "equality": 1e-9})
    state = K.method(inv, "__getstate__")
    slots = list(SINV.Invariant._serialized_slots)
    K.ensure("the state holds every serialized slot", sorted(k for k in K.items(state)) == sorted(slots))
    fresh = K.obj(SINV.Invariant, **{k: None for k in SINV.Invariant.__slots__}) if K.symbolic else SINV.Invariant()
    K.stubbed(SINV.Invariant._populate_derived_attributes, lambda self: None, "derived attributes are recomputed from the serialized ones (descriptors; outside this contract)",
              lambda: K.method(fresh, "__setstate__", state)) if K.symbolic else _native_setstate(fresh, state)
    for k in slots:
        got, want = K.attr(fresh, k), K.index(state, k)
        same = (got is want) or (isinstance(got, (dict, list, tuple, str, int, float, bool, type(None))) and got == want)
        K.ensure(f"slot {k} restored as saved", same)
    K.ensure("tolerances of the rebuilt invariant are the user's, not the defaults", dict(K.attr(fresh, "tolerance")) == {"eigenvalue": 1e-6, "equality": 1e-9})


def _native_setstate(fresh, state):
    orig = SINV.Invariant._populate_derived_attributes
    SINV.Invariant._populate_derived_attributes = lambda self: None
    try:
        fresh.__setstate__(state)
    finally:
        SINV.Invariant._populate_derived_attributes = orig


# ------------------------------------------------------------------------------ reduced-form VARs
@contract("C20", targets=["irispie.red_vars._variants:Variant.copy", "irispie.red_vars._variants:System.copy", "irispie.red_vars.main:RedVAR.copy"] if hasattr(ir.RedVAR, "copy") else
          ["irispie.red_vars._variants:Variant.copy", "irispie.red_vars._variants:System.copy"], instances=[(True,), (False,)], cross=2, opts={"max_paths": 100})
def redvar_copy_carries_the_estimates_in_its_own_memory(K, intercept):
    """copy() of an estimated RedVAR - with or without an intercept - returns a model with equal system matrices held in
    arrays of its own (a later re-estimation or assignment of one does not reach the other)."""
    rng = np.random.default_rng(5)
    span = ir.qq(2000, 1) >> ir.qq(2004, 4)
    db = ir.Databox()
    for n in ("a", "b"):
        db[n] = ir.Series(periods=span, values=rng.normal(size=len(span)))
    m = ir.RedVAR(("a", "b"), order=2, intercept=intercept)
    m.estimate(db, span)
    ml = K.lift(m)
    c = K.method(ml, "copy")
    K.ensure("a new model", c is not ml)
    v0 = list(K.items(K.attr(ml, "_variants")))[0]
    v1 = list(K.items(K.attr(c, "_variants")))[0]
    s0, s1 = K.attr(v0, "system"), K.attr(v1, "system")
    for nme in ("A", "B", "cov_residuals") + (("c",) if intercept else ()):
        a0, a1 = K.attr(s0, nme), K.attr(s1, nme)
        K.ensure(f"{nme}: equal values", np.allclose(np.asarray(K.concrete_array(a0)), np.asarray(K.concrete_array(a1))))
        K.ensure(f"{nme}: own memory", not K.same_buffer(a0, a1))
    if not intercept:
        K.ensure("no intercept in the copy either", K.is_none(K.attr(s1, "c")))
    K.ensure("fitted periods carried", len(tuple(K.items(K.attr(v1, "fitted_periods")))) == len(m._variants[0].fitted_periods))


# ------------------------------------------------------------------------------ portable representation of whole models
PORT_DET = "!transition-variables\n \"Output\" x, z\n!parameters\n rho\n!log-variables\n z\n!transition-equations\n x = rho*x[-1] + 1;\n z = z[-1]^0.5*exp(x) !! z = 1;\n"
PORT_STO = PORT_DET.replace("!parameters", "!transition-shocks\n ex\n!parameters").replace("x[-1] + 1;", "x[-1] + ex;")


def _model_facts(m):
    inv = m._invariant
    return {"flags": (m.is_linear, m.is_flat, m.is_deterministic),
            "quantities": sorted((q.human, q.kind.name, bool(q.logly), q.description or "") for q in inv.quantities),
            "dynamic": [e.human for e in inv.dynamic_equations], "steady": [e.human for e in inv.steady_equations]}


@contract("C20", targets=["irispie.simultaneous._invariants:Invariant.from_portable", "irispie.simultaneous._invariants:Invariant.to_portable", "irispie.simultaneous._flags:Flags.from_kwargs"],
          instances=[(l, f) for l in (False, True) for f in (False, True)], cross=0, opts={"max_paths": 50})
def portable_round_trip_keeps_the_model_flags(K, linear, flat):
    """The flags stored in the portable representation are the flags of the model rebuilt from it."""
    m = ir.Simultaneous.from_string(PORT_DET, linear=linear, flat=flat, deterministic=True)
    portable = m._invariant.to_portable()
    K.ensure("flags are part of the portable representation", portable["flags"] == {"is_linear": linear, "is_flat": flat, "is_deterministic": True})
    Inv = type(m._invariant)
    calls = K.capture(Inv, "from_source", lambda: K.call(Inv.from_portable, portable))
    K.ensure("the model is rebuilt from a source object once", len(calls) == 1)
    args, kwargs = calls[0]
    # from_source derives the flags from its keyword arguments with Flags.from_kwargs (proved inverse of to_portable by
    # flags_portable_roundtrip): what matters here is that the stored flags REACH it
    fl = FL.Flags.from_kwargs(**{k: v for k, v in kwargs.items() if isinstance(v, bool)})
    K.ensure("linear flag reaches the rebuilt model", bool(fl.is_linear) == linear)
    K.ensure("flat flag reaches the rebuilt model", bool(fl.is_flat) == flat)
    K.ensure("deterministic flag reaches the rebuilt model", bool(fl.is_deterministic) is True)


@bounded("C20", bound="one deterministic model without shocks (a log-variable, a description, a steady-state version of an equation) under the four linear/flat flag combinations")
def portable_round_trip_of_models_without_shocks_native(B):
    """to_portable -> from_portable returns a model with the same names, kinds, log status, descriptions, equations and flags."""
    for linear in (False, True):
        for flat in (False, True):
            B.case()
            m = ir.Simultaneous.from_string(PORT_DET, linear=linear, flat=flat, deterministic=True)
            try:
                m2 = ir.Simultaneous.from_portable(m.to_portable())
            except Exception as ex:
                B.fail(f"portable round trip raises {type(ex).__name__}: {ex}", {"linear": linear, "flat": flat})
                return
            a, b = _model_facts(m), _model_facts(m2)
            for key in a:
                if a[key] != b[key]:
                    B.fail(f"portable round trip changes {key}", {"linear": linear, "flat": flat, "before": a[key], "after": b[key]})
                    return


@bounded("C20", bound="the same model with one transition shock (stochastic)")
def portable_round_trip_of_stochastic_models_native(B):
    """Known finding C20-portable-stochastic."""
    B.case()
    m = ir.Simultaneous.from_string(PORT_STO, linear=True)
    try:
        m2 = ir.Simultaneous.from_portable(m.to_portable())
    except Exception as ex:
        B.fail("portable round trip of a model with shocks raises", {"exception": f"{type(ex).__name__}: {str(ex)[:200]}"})
        return
    a, b = _model_facts(m), _model_facts(m2)
    for key in a:
        if a[key] != b[key]:
            B.fail(f"portable round trip of a model with shocks changes {key}", {"before": a[key], "after": b[key]})
            return


@bounded("C20", bound="one Sequential model (a transform and an identity), standard pickle and dill")
def sequential_pickle_round_trip_native(B):
    """Standard pickle and dill round-trip a Sequential model, and the result simulates identically."""
    import pickle
    s = ir.Sequential.from_string("!equations\n diff_log(x) = 0.5*y;\n z === x + 1;\n")
    span = ir.qq(2020, 1) >> ir.qq(2020, 4)
    db = ir.Databox()
    for n in ("x", "y", "z", "res_x"):
        db[n] = ir.Series(start=ir.qq(2019, 1), values=np.linspace(1.0, 2.0, 8))
    ref = s.simulate(db, span)
    ref = ref[0] if isinstance(ref, tuple) else ref
    try:
        import dill
        packers = (("dill", dill), ("pickle", pickle))
    except ImportError:
        packers = (("pickle", pickle),)
    for label, mod in packers:
        B.case()
        try:
            c = mod.loads(mod.dumps(s))
        except Exception as ex:
            B.fail(f"{label} round trip of a Sequential model raises", {"packer": label, "exception": f"{type(ex).__name__}: {str(ex)[:160]}"})
            return
        out = c.simulate(db, span)
        out = out[0] if isinstance(out, tuple) else out
        if not all(np.allclose(out[n].get_data(span), ref[n].get_data(span), equal_nan=True) for n in ("x", "z")):
            B.fail(f"{label} round trip of a Sequential model simulates differently", {"packer": label})
            return


# ------------------------------------------------------------------------------ selecting variants
_SELECTIONS = [slice(None), slice(1, None), slice(None, 2), slice(-2, None), slice(None, -1), slice(1, 10), slice(-10, 2), slice(None, None, 2),
               slice(None, None, -1), slice(3, 0, -1), slice(2, 2), ..., (0,), (2, 0), [3, 3], 0, 3, -1]


@contract("C20", targets=[PHV + "Mixin.get_variant", PHV + "_resolve_vids", PHV + "Mixin.skeleton"],
          instances=[(i,) for i in range(len(_SELECTIONS))], cross=0)
def selecting_variants_follows_python_indexing(K, which):
    """model.get_variant(sel) holds exactly the variants a Python list would give for sel - a slice (open-ended,
    negative, beyond the end, stepped, reversed, empty), the ellipsis, a list of positions, or one position - as the
    same variant objects, in that order, in a new holder that shares the invariant."""
    sel = _SELECTIONS[which]
    n = 4
    h = holder(K, n)
    vs = list(K.items(K.attr(h, "_variants")))
    if isinstance(sel, slice):
        want = vs[sel]
    elif sel is ...:
        want = vs
    elif isinstance(sel, int):
        want = [vs[sel]]
    else:
        want = [vs[i] for i in sel]
    g = K.method(h, "get_variant", sel)
    got = list(K.items(K.attr(g, "_variants")))
    K.ensure("the variants selected, in order", len(got) == len(want) and all(a is b for a, b in zip(got, want)))
    K.ensure("a new holder with the same invariant; the source keeps its variants",
             g is not h and K.attr(g, "_invariant") == "INV" and list(K.items(K.attr(h, "_variants"))) == vs)


# ------------------------------------------------------------------------------ steady-state databox: every variant its own column
from irispie.simultaneous import _steady_boxable_protocols as SBP
import irispie.dates as _D


class _SteadySource:
    """harness stand-in for a multi-variant model: the array of steady paths of a variant is a function of that variant"""

    def __init__(self, variants, table):
        self._variants = variants
        self.table = table

    @property
    def is_singleton(self):
        return len(self._variants) == 1

    def create_some_array(self, *, variant=None, deviation=False, num_columns=1, shift_in_first_column=0):
        return self.table(variant, num_columns)

    def create_qid_to_name(self):
        return {0: "x", 1: "p"}

    def create_qid_to_description(self):
        return {0: "the variable", 1: "the parameter"}

    def create_qid_to_kind(self):
        return {0: Q.QuantityKind.TRANSITION_VARIABLE, 1: Q.QuantityKind.PARAMETER}


@contract("C20", targets=["irispie.simultaneous._steady_boxable_protocols:generate_steady_items", "irispie.has_variants:unpack_singleton",
                          "irispie.series.main:Series.__init__"], instances=[(1,), (2,), (3,)], cross=0, opts={"max_paths": 4000})
def steady_items_hold_every_variant_in_its_own_column(K, nv):
    """The steady-state items of a model with several variants: column j of every series (entry j of every parameter
    list) comes from variant j's OWN steady state - not from the first variant repeated."""
    T = 3
    variants = [K.obj(SV_.Variant, levels={0: None}, changes={0: None}, solution=None) for _ in range(nv)]
    arrays = [K.array(f"steady{j}", (2, T), nan=False) for j in range(nv)]

    def table(variant, num_columns):
        hit = [a for v, a in zip(variants, arrays) if v is variant]
        K.ensure("the array is requested for one of the model's variants, on the span asked for", len(hit) == 1 and num_columns == T)
        return hit[0] if hit else arrays[0]
    src = K.obj(_SteadySource, _variants=list(variants), table=K.callable(table))
    start = K.obj(_D.QuarterlyPeriod, serial=K.int("start", 8000, 8040))
    end = K.obj(_D.QuarterlyPeriod, serial=K.attr(start, "serial") + T - 1)
    items = dict(K.items(K.builtin("list", K.call(SBP.generate_steady_items, src, start, end))))
    K.ensure("one item per quantity", set(items) == {"x", "p"})
    x = items["x"]
    xd = K.attr(x, "data")
    K.ensure("series: span and number of variants", K.And(K.attr(K.attr(x, "start"), "serial") == K.attr(start, "serial"), K.shape(xd) == (T, nv)))
    for j in range(nv):
        for t in range(T):
            K.ensure(f"series: period {t} of variant {j} is that variant's steady path", K.real_eq(K.cell_val(K.cell(xd, t, j)), K.cell_val(K.cell(arrays[j], 0, t))))
    p = items["p"]
    vals = [p] if nv == 1 else list(K.items(p))
    K.ensure("parameter: one value per variant (a bare value for a single variant)", len(vals) == nv)
    for j in range(min(nv, len(vals))):
        K.ensure(f"parameter: value of variant {j}", K.real_eq(vals[j], K.cell_val(K.cell(arrays[j], 1, 0))))


# ------------------------------------------------------------------------------ the forward expansion cached in a solution
from irispie.fords import solutions as FS


def _mm(A, B):
    return [[sum(A[i][k] * B[k][j] for k in range(len(B))) for j in range(len(B[0]))] for i in range(len(A))]


@contract("C20", targets=["irispie.fords.solutions:_get_solution_expansion"],
          instances=[(e, f) for e in (0, 1, 2) for f in (0, 1, 2, 3)], cross=4, opts={"max_paths": 2000})
def forward_expansion_cache_keeps_its_invariant(K, cached, forward):
    """A solution carries the expansion matrices computed so far (copies and pickles carry them too).  Invariant of that
    list: entry k is -X J^k Ru.  Whatever its length on entry, a request for `forward` periods returns
    [P, -X Ru, -X J Ru, ..., -X J^(forward-1) Ru], and leaves the list satisfying the invariant (extended, never
    shortened) - so a model that has simulated before answers like a fresh copy of itself."""
    n = 2
    X = K.array("X", (n, n), nan=False)
    J = K.array("J", (n, n), nan=False)
    Ru = K.array("Ru", (n, 1), nan=False)
    P = K.array("P", (n, 1), nan=False)
    val = lambda A, r, c: K.cell_val(K.cell(A, r, c))      # noqa: E731
    Xl = [[val(X, i, j) for j in range(n)] for i in range(n)]
    Jl = [[val(J, i, j) for j in range(n)] for i in range(n)]
    Rl = [[val(Ru, i, 0)] for i in range(n)]
    want = []
    Jk = [[1 if i == j else 0 for j in range(n)] for i in range(n)]
    for k in range(max(cached, forward)):
        m = _mm(_mm(Xl, Jk), Rl)
        want.append([[-m[i][0]] for i in range(n)])
        Jk = _mm(Jk, Jl)
    cache = [K.array_cells(want[k]) for k in range(cached)]
    out = K.call(FS._get_solution_expansion, cache, P, X, J, Ru, forward)
    out = list(K.items(out))
    K.ensure("one matrix for the current period and one per period ahead", len(out) == forward + 1)
    for i in range(n):
        K.ensure(f"current period: row {i} of P", K.real_eq(val(out[0], i, 0), val(P, i, 0)))
    for k in range(min(forward, len(out) - 1)):
        for i in range(n):
            K.ensure(f"period +{k + 1}: row {i} of -X J^{k} Ru", K.real_eq(val(out[k + 1], i, 0), want[k][i][0]))
    after = list(K.items(cache))
    K.ensure("the cached list is extended to what was asked for, never shortened", len(after) == max(cached, forward))
    for k in range(min(len(after), len(want))):
        for i in range(n):
            K.ensure(f"cache invariant after the call: entry {k}, row {i}", K.real_eq(val(after[k], i, 0), want[k][i][0]))


# ------------------------------------------------------------------------------ pickled state of an Explanatory
from irispie.explanatories import main as XM


@contract("C20", targets=["irispie.explanatories.main:Explanatory.__getstate__", "irispie.explanatories.main:Explanatory.__setstate__",
                          "irispie.makers:_prepare_globals"] if hasattr(XM.Explanatory, "__getstate__") else [],
          instances=[("diff_log(x) = 0.5*y + a;",), ("z === x + 1;",), ("x = 0.8*x[-1] + a;",)] if hasattr(XM.Explanatory, "__getstate__") else [],
          cross=2, opts={"max_paths": 400})
def explanatory_state_round_trip_recreates_the_evaluators(K, equation):
    """What pickle and deepcopy do with an equation of a Sequential model: __getstate__ hands over everything but the two
    exec()-made functions, __setstate__ on a blank instance restores it and re-creates them - the restored evaluators
    return, on ARBITRARY data, what the originals return, and no other slot is lost."""
    native = ir.Sequential.from_string("!equations\n " + equation + "\n")._invariant.explanatories[0]
    K.register_source(native.eval_level, native._eval_level_str, "Explanatory.eval_level")
    if native.eval_residual is not None:
        K.register_source(native.eval_residual, native._eval_residual_str, "Explanatory.eval_residual")
    e = K.lift(native)
    state = K.method(e, "__getstate__")
    K.ensure("the state holds no function", K.index(state, "eval_level") is None and K.index(state, "eval_residual") is None)
    K.ensure("the original keeps its evaluators", K.attr(e, "eval_level") is not None)
    back = K.obj(XM.Explanatory)
    K.method(back, "__setstate__", state)
    for slot in ("lhs_name", "residual_name", "lhs_qid", "is_identity", "_rhs_human", "_lhs_human", "_eval_level_str", "_eval_residual_str", "all_names"):
        K.ensure(f"slot {slot} restored", K.getattr(back, slot) == K.getattr(e, slot))
    nrows = len(native.all_names)
    cols = K.int("cols", 3, None, sample=(3, 6))
    t = K.int("t", 1, None, sample=(1, 5))
    K.assume(t < cols)
    X = K.array("X", (nrows, cols), nan=False)
    if "log" in equation:
        K.assume(K.cell_val(K.cell(X, native.lhs_qid, t - 1)) > 0)
    lvl0 = K.call(K.attr(e, "eval_level"), X, t)
    lvl1 = K.call(K.attr(back, "eval_level"), X, t)
    K.ensure("the re-created level evaluator is a function of its own", K.attr(back, "eval_level") is not None)
    K.ensure("the re-created level evaluator returns what the original returns", K.real_eq(lvl1, lvl0))
    if native.eval_residual is not None:
        if "log" in equation:
            K.assume(K.cell_val(K.cell(X, native.lhs_qid, t)) > 0)
        K.ensure("the re-created residual evaluator returns what the original returns",
                 K.real_eq(K.call(K.attr(back, "eval_residual"), X, t), K.call(K.attr(e, "eval_residual"), X, t)))
    else:
        K.ensure("an identity has no residual evaluator, before and after", K.getattr(back, "eval_residual") is None)


# ------------------------------------------------------------------------------ an operation applied to a multi-variant model reaches every variant
# "Variant k behaves like a single-variant model with variant k's values" also after an operation on the whole model:
# rescale_stds must rescale EVERY variant (the contract is the one proved for C15, registered here as well).
from contracts.c15_acov import rescaling_reaches_every_standard_deviation_of_every_variant as _rescale_all   # noqa: E402

contract("C20", name="an_operation_on_the_model_reaches_every_variant",
         targets=["irispie.simultaneous._covariances:Inlay.rescale_stds", "irispie.simultaneous._get:Inlay._get_std_qids", "irispie.simultaneous._variants:Variant.rescale_values"],
         instances=[()], cross=0, opts={"max_paths": 100})(_rescale_all)
