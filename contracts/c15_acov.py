"""C15 - model-implied autocovariances solve the solved model's Lyapunov equation.

The first-order solution is GIVEN here (its computation is C01, not applicable): a Solution object in its stored
block-triangular form  alpha_t = Ta alpha_{t-1} + Pa u_t,  xi_t = Ua alpha_t,  y_t = Za alpha_t + H w_t, with the first
`num_unit_roots` elements of alpha being the unit-root ones.  Under the ASSUMED contract of
scipy.linalg.solve_discrete_lyapunov the irispie code that turns such a solution and shock covariances into
autocovariances and autocorrelations is put under contract: the stable block handed to the Lyapunov solver, the rotation
to xi, the measurement block, the powers for higher orders, NaN for variables loaded on unit roots, the scaling to
correlations.  Matrix ENTRIES are symbolic; dimensions and the unit-root pattern are fixed per instance."""
import itertools
from fractions import Fraction
import numpy as np
from pyvc.prove import contract
from pyvc.bounded import bounded
import irispie as ir
from irispie.fords import covariances as COV
from irispie.fords import solutions as SOL

PC = "irispie.fords.covariances:"
EK = SOL.EigenvalueKind


def _mat(K, name, r, c):
    if r == 0 or c == 0:
        return np.zeros((r, c))
    return K.array(name, (r, c), nan=False)


def _cells(K, M, r, c):
    return [[K.cell_val(K.cell(M, i, j)) if r and c else 0 for j in range(c)] for i in range(r)]


def _mm(A, B):
    if not A or not B or not B[0]:
        return [[0 for _ in range(len(B[0]) if B else 0)] for _ in A]
    return [[sum(A[i][k] * B[k][j] for k in range(len(B))) for j in range(len(B[0]))] for i in range(len(A))]


def _tr(A):
    return [list(r) for r in zip(*A)] if A and A[0] else []


def _solution(K, na, r, ny, nu, nw, xi_unit, y_unit):
    """Solution object with symbolic triangular matrices; rows of Ua / Za of variables NOT loaded on unit roots have
    zeros in the unit-root columns (that is what 'not loaded' means; the classification itself is a separate contract)"""
    Ta, Pa, Za, H, Ua = _mat(K, "Ta", na, na), _mat(K, "Pa", na, nu), _mat(K, "Za", ny, na), _mat(K, "H", ny, nw), _mat(K, "Ua", na, na)
    for i in range(r, na):
        for j in range(r):
            K.assume(K.cell_val(K.cell(Ta, i, j)) == 0)          # block triangular: stable alphas do not depend on unit-root ones
    for i in range(na):
        if not xi_unit[i]:
            for j in range(r):
                K.assume(K.cell_val(K.cell(Ua, i, j)) == 0)
    for i in range(ny):
        if not y_unit[i]:
            for j in range(r):
                K.assume(K.cell_val(K.cell(Za, i, j)) == 0)
    sol = K.obj(SOL.Solution, **{n: None for n in SOL.Solution.__slots__})
    for nme, v in (("Ta", Ta), ("Pa", Pa), ("Za", Za), ("H", H), ("Ua", Ua), ("T", np.zeros((na, na))), ("Z", np.zeros((ny, na))), ("P", np.zeros((na, nu))),
                   ("eigenvalues_stability", (EK.UNIT_ROOT,) * r + (EK.STABLE,) * (na - r)),
                   ("transition_vector_stability", tuple(EK.UNIT_ROOT if u else EK.STABLE for u in xi_unit)),
                   ("measurement_vector_stability", tuple(EK.UNIT_ROOT if u else EK.STABLE for u in y_unit))):
        K.setattr(sol, nme, v)
    return sol, Ta, Pa, Za, H, Ua


def _instances():
    F, T = False, True
    return [(2, 0, 1, 1, 1, (F, F), (F,), 1), (2, 0, 2, 2, 1, (F, F), (F, F), 2), (2, 1, 1, 1, 1, (T, F), (F,), 1), (2, 1, 2, 1, 1, (T, F), (T, F), 1),
            (3, 1, 1, 2, 1, (T, F, F), (F,), 2), (3, 1, 2, 2, 0, (F, T, F), (F, T), 1), (3, 2, 1, 1, 1, (T, T, F), (F,), 1), (1, 0, 1, 1, 1, (F,), (F,), 2),
            (1, 1, 1, 1, 1, (T,), (T,), 1), (2, 2, 2, 2, 1, (T, T), (T, F), 0),          # no stable root at all (random walks, local level): everything loaded on them is NaN
            (2, 0, 0, 1, 0, (F, F), (), 1), (2, 1, 0, 1, 0, (T, F), (), 1)]              # a model without measurement variables (empty y block)


@contract("C15", targets=[PC + "get_autocov_square", PC + "get_autocov_square_00", PC + "get_autocov_triangular_00", PC + "get_cov_triangular_00", PC + "get_cov_alpha_00",
                          "irispie.fords.solutions:Solution.Ta_stable", "irispie.fords.solutions:Solution.Pa_stable", "irispie.fords.solutions:Solution.Za_stable",
                          "irispie.fords.solutions:Solution.num_unit_roots", "irispie.fords.solutions:Solution.boolex_stable_transition_vector",
                          "irispie.fords.solutions:Solution.boolex_stable_measurement_vector"],
          instances=_instances(), cross=0, opts={"max_paths": 100})
def autocovariances_of_the_solved_model(K, na, r, ny, nu, nw, xi_unit, y_unit, order):
    """For x = (xi, y):  order 0 is the stationary covariance implied by the solution - Omega_s solves
    Omega_s = Ta_s Omega_s Ta_s' + Pa_s Sigma_u Pa_s' on the stable block (the arguments handed to the Lyapunov solver are
    exactly these), cov(xi) = Ua_s Omega_s Ua_s', cov(y) = Za_s Omega_s Za_s' + H Sigma_w H', cov(xi, y) = Ua_s Omega_s Za_s';
    order j is cov(x_t, x_{t-j}), obtained with Ta_s^j; rows and columns of variables loaded on unit roots are NaN."""
    import z3
    sol, Ta, Pa, Za, H, Ua = _solution(K, na, r, ny, nu, nw, xi_unit, y_unit)
    Su, Sw = _mat(K, "Su", nu, nu), _mat(K, "Sw", nw, nw)
    for S_, d in ((Su, nu), (Sw, nw)):          # covariance matrices are symmetric
        for i in range(d):
            for j in range(i + 1, d):
                K.assume(K.cell_val(K.cell(S_, i, j)) == K.cell_val(K.cell(S_, j, i)))
    acov = list(K.items(K.call(COV.get_autocov_square, sol, Su, Sw, order)))
    K.ensure("one matrix per order 0..k", len(acov) == order + 1)
    lyaps = getattr(K.ctx, "lyaps", [])
    K.ensure("exactly one Lyapunov equation is solved", len(lyaps) == 1)
    if len(lyaps) != 1:
        return
    Al, Ql, X = lyaps[0]
    ns = na - r
    from pyvc.interp import to_z3
    tz = lambda x: to_z3(x) if not hasattr(x, "sort") else x      # noqa: E731
    Tas = [[K.cell_val(K.cell(Ta, r + i, r + j)) for j in range(ns)] for i in range(ns)]
    Pas = [[K.cell_val(K.cell(Pa, r + i, j)) for j in range(nu)] for i in range(ns)]
    Zas = [[K.cell_val(K.cell(Za, i, r + j)) for j in range(ns)] for i in range(ny)]
    Uas = [[K.cell_val(K.cell(Ua, i, r + j)) for j in range(ns)] for i in range(na)]
    Hc, Suc, Swc = _cells(K, H, ny, nw), _cells(K, Su, nu, nu), _cells(K, Sw, nw, nw)
    sig_u = _mm(_mm(Pas, Suc), _tr(Pas))
    K.ensure("the Lyapunov solver receives the stable block of Ta", K.And(len(Al) == ns, *[K.real_eq(tz(Al[i][j]), Tas[i][j]) for i in range(ns) for j in range(ns)]))
    K.ensure("... and Pa_s Sigma_u Pa_s'", K.And(True, *[K.real_eq(tz(Ql[i][j]), sig_u[i][j]) for i in range(ns) for j in range(ns)]))
    Om = [[X[i][j].t for j in range(ns)] for i in range(ns)]
    sig_w = _mm(_mm(Hc, Swc), _tr(Hc)) if nw else [[0] * ny for _ in range(ny)]
    n = na + ny
    unit = list(xi_unit) + list(y_unit)
    cur = Om                                  # cov(alpha_s,t , alpha_s,t-j)
    for j, M in enumerate(acov):
        K.ensure(f"order {j}: shape", K.shape(M) == (n, n))
        if ns:
            cxx = _mm(_mm(Uas, cur), _tr(Uas))
            cxy = _mm(_mm(Uas, cur), _tr(Zas))
            cyx = _mm(_mm(Zas, cur), _tr(Uas))
            cyy = _mm(_mm(Zas, cur), _tr(Zas))
        else:               # no stable state at all: the stationary part is empty
            cxx, cxy = [[0] * na for _ in range(na)], [[0] * ny for _ in range(na)]
            cyx, cyy = [[0] * na for _ in range(ny)], [[0] * ny for _ in range(ny)]
        if j == 0:
            cyy = [[cyy[a][b] + sig_w[a][b] for b in range(ny)] for a in range(ny)]
        want = [cxx[a] + cxy[a] for a in range(na)] + [cyx[a] + cyy[a] for a in range(ny)]
        for a in range(n):
            for b in range(n):
                cell = K.cell(M, a, b)
                if unit[a] or unit[b]:
                    K.ensure(f"order {j}: ({a},{b}) involves a variable loaded on a unit root: NaN", K.cell_is_nan(cell))
                else:
                    K.ensure(f"order {j}: ({a},{b}) is cov(x_a,t , x_b,t-{j}) implied by the solution", K.And(K.Not(K.cell_is_nan(cell)), K.real_eq(K.cell_val(cell), want[a][b])))
        cur = _mm(Tas, cur) if ns else cur


# ------------------------------------------------------------------------------ which variables are loaded on unit roots
@contract("C15", targets=["irispie.fords.solutions:_classify_solution_vector_stability", "irispie.fords.solutions:Solution._classify_transition_vector_stability",
                          "irispie.fords.solutions:Solution._classify_measurement_vector_stability"], instances=[(2, 1), (3, 1), (3, 2), (2, 0)], opts={"max_paths": 300})
def variables_loaded_on_unit_roots(K, n, r):
    """A variable is 'loaded on a unit root' iff its row of the transformation (Ua for xi, Za for y) has an entry larger
    than the tolerance in absolute value in one of the unit-root columns (the first num_unit_roots ones)."""
    M = K.array("M", (n, 3), nan=False)
    tol = K.real("tolerance", positive=True, sample=(0.01, 0.5))
    kinds = list(K.items(K.call(SOL._classify_solution_vector_stability, M, r, tolerance=tol)))
    K.ensure("one classification per variable", len(kinds) == n)
    for i in range(min(n, len(kinds))):
        loaded = K.Or(False, *[K.Or(K.cell_val(K.cell(M, i, j)) > tol, K.cell_val(K.cell(M, i, j)) < -tol) for j in range(r)])
        K.ensure(f"variable {i}: UNIT_ROOT iff loaded on a unit-root column, else STABLE",
                 K.And(K.Implies(loaded, kinds[i] is EK.UNIT_ROOT), K.Implies(K.Not(loaded), kinds[i] is EK.STABLE)) if not isinstance(kinds[i], EK) or True else True)


# ------------------------------------------------------------------------------ autocorrelations
@contract("C15", targets=[PC + "acorr_from_acov", PC + "_get_scale_matrix"], instances=[(2, 1, (False, False)), (3, 2, (False, True, False)), (2, 0, (True, False))], opts={"max_paths": 600})
def autocorrelations_are_scaled_autocovariances(K, n, order, nan_var):
    """acorr[j][a,b] = acov[j][a,b] / (std_a std_b) with std from the order-0 diagonal; a variable without a finite
    positive variance (loaded on a unit root: NaN) keeps NaN in its rows and columns."""
    mats = []
    for j in range(order + 1):
        rows = [[(K.nan_cell() if (nan_var[a] or nan_var[b]) else K.real(f"c{j}_{a}_{b}", sample=(0.2, 2))) for b in range(n)] for a in range(n)]
        mats.append(K.array_cells(rows))
    for a in range(n):
        if not nan_var[a]:
            K.assume(K.cell_val(K.cell(mats[0], a, a)) > 0)
    before = [K.snapshot(m) for m in mats]
    acorr = list(K.items(K.call(COV.acorr_from_acov, tuple(mats))))
    K.ensure("one matrix per order", len(acorr) == order + 1)
    for j in range(min(order + 1, len(acorr))):
        for a in range(n):
            for b in range(n):
                cell = K.cell(acorr[j], a, b)
                if nan_var[a] or nan_var[b]:
                    K.ensure(f"order {j} ({a},{b}): stays NaN", K.cell_is_nan(cell))
                else:
                    va, vb = K.cell_val(K.cell(before[0], a, a)), K.cell_val(K.cell(before[0], b, b))
                    K.ensure(f"order {j} ({a},{b}): covariance over the product of standard deviations",
                             K.And(K.Not(K.cell_is_nan(cell)), K.real_eq(K.cell_val(cell) * K.sqrt(va) * K.sqrt(vb), K.cell_val(K.cell(before[j], a, b)))))
    if not any(nan_var):
        for a in range(n):
            K.ensure(f"order 0: unit diagonal ({a})", K.real_eq(K.cell_val(K.cell(acorr[0], a, a)), 1))
    K.ensure("the autocovariances handed in are not modified", K.And(*[K.cell_eq(K.cell(m, a, b), K.cell(m0, a, b)) for m, m0 in zip(mats, before) for a in range(n) for b in range(n)]))


# ------------------------------------------------------------------------------ scaling of all standard deviations
@contract("C15", targets=[PC + "get_autocov_square", "irispie.fords.covariances:cov_from_std"],
          instances=[(1, 0, 1, 1, 1, (False,), (False,), 2, 3), (2, 1, 1, 1, 1, (True, False), (False,), 1, 3), (1, 0, 2, 1, 1, (False,), (False, False), 1, "1/2")],      # one stable state: with two, the key identity takes z3 44 s
          thorough=[(2, 0, 1, 1, 1, (False, False), (False,), 1, 3)],
          cross=0, opts={"max_paths": 100})
def scaling_the_standard_deviations(K, na, r, ny, nu, nw, xi_unit, y_unit, order, scale):
    """Multiplying every shock standard deviation by s multiplies every autocovariance by s^2 (NaN stays NaN).  Uses the
    uniqueness of the Lyapunov solution: s^2 Omega satisfies the equation the second run hands to the solver."""
    if not K.symbolic:
        return
    import z3
    sol, Ta, Pa, Za, H, Ua = _solution(K, na, r, ny, nu, nw, xi_unit, y_unit)
    s = K.frac(scale)          # a fixed factor per instance (a symbolic one makes the polynomial identities degree 5 and the queries time out)
    su = K.array("std_u", (nu,), nan=False)
    sw = K.array("std_w", (nw,), nan=False)
    first = list(K.items(K.call(COV.get_autocov_square, sol, K.call(COV.cov_from_std, su, trim_negative=False), K.call(COV.cov_from_std, sw, trim_negative=False), order)))
    second = list(K.items(K.call(COV.get_autocov_square, sol, K.call(COV.cov_from_std, K.binop("*", su, s), trim_negative=False),
                                 K.call(COV.cov_from_std, K.binop("*", sw, s), trim_negative=False), order)))
    (A1, Q1, X1), (A2, Q2, X2) = K.ctx.lyaps
    m = len(X1)
    from pyvc.interp import to_z3
    tz = lambda x: to_z3(x) if not hasattr(x, "sort") else x      # noqa: E731
    cand = [[s * s * X1[i][j].t for j in range(m)] for i in range(m)]
    eq = [cand[i][j] == tz(Q2[i][j]) + sum(tz(A2[i][p]) * cand[p][q] * tz(A2[j][q]) for p in range(m) for q in range(m)) for i in range(m) for j in range(m)]
    K.ensure("s^2 * Omega solves the Lyapunov equation of the scaled run", z3.And(*eq) if eq else True)
    for i in range(m):
        for j in range(m):
            K.assume(X2[i][j].t == cand[i][j])             # uniqueness of the stationary covariance (assumed with the solver)
    n = na + ny
    for j in range(order + 1):
        for a in range(n):
            for b in range(n):
                c1, c2 = K.cell(first[j], a, b), K.cell(second[j], a, b)
                K.ensure(f"order {j} ({a},{b}): scaled by s^2", K.Or(K.And(K.cell_is_nan(c1), K.cell_is_nan(c2)), K.And(K.Not(K.cell_is_nan(c1)), K.Not(K.cell_is_nan(c2)), K.real_eq(K.cell_val(c2), s * s * K.cell_val(c1)))))


# ------------------------------------------------------------------------------ native replay on solved models (bounded stand-in, NOT a proof)
ACOV_SOURCE = r"""
!transition-variables
    x, z, w
!transition-shocks
    ex, ez
!measurement-variables
    obs
!measurement-shocks
    eobs
!parameters
    rho, phi, unit
!transition-equations
    x = rho*x[-1] + 0.3*z[-1] + ex;
    z = phi*z[-1] + 0.2*x[-2] + ez;
    w = unit*w[-1] + 0.5*x + ez;
!measurement-equations
    obs = x + 0.5*z + eobs;
"""


@bounded("C15", bound="one linear model (3 transition variables incl. a lag-2 term, 1 measurement variable, 3 shocks) at 4 stable parameter points and 2 points with a unit root in one variable; orders 0-3; std scale factors 0.5 and 3")
def acov_native(B):
    """get_acov / get_acorr through the public API against an independent computation from the square solution matrices
    (fixed-point iteration of Omega = T Omega T' + P Su P'), NaN for the unit-root variable, scaling by s^2."""
    for (rho, phi, unit) in ((0.5, 0.3, 0.2), (0.8, -0.4, 0.0), (0.1, 0.9, 0.7), (-0.6, 0.5, -0.3), (0.5, 0.3, 1.0), (0.8, -0.2, 1.0)):
        B.case()
        m = ir.Simultaneous.from_string(ACOV_SOURCE, linear=True)
        m.assign(rho=rho, phi=phi, unit=unit, std_ex=0.7, std_ez=1.3, std_eobs=0.4)
        m.solve()
        names = list(m.get_acov_dimension_names().rows)
        order = 3
        ac = m.get_acov(up_to_order=order)
        sol = m.get_solution_matrices() if hasattr(m, "get_solution_matrices") else m._variants[0].solution
        T, P, Z, H = np.asarray(sol.T), np.asarray(sol.P), np.asarray(sol.Z), np.asarray(sol.H)
        vec = m._invariant.dynamic_descriptor.solution_vectors
        xi_tok = list(vec.transition_variables)
        q2n = m.create_qid_to_name()
        cur = [i for i, t in enumerate(xi_tok) if t.shift == 0]
        Su = np.diag(np.asarray(m.getv_std_u(m._variants[0])).flatten() ** 2)
        Sw = np.diag(np.asarray(m.getv_std_w(m._variants[0])).flatten() ** 2)
        has_unit = abs(unit) >= 1.0
        if not has_unit:
            Om = np.zeros_like(T)
            for _ in range(6000):
                Om = T @ Om @ T.T + P @ Su @ P.T
            full0 = np.block([[Om, Om @ Z.T], [Z @ Om, Z @ Om @ Z.T + H @ Sw @ H.T]])
            A = np.block([[T, np.zeros((T.shape[0], Z.shape[0]))], [Z @ T, np.zeros((Z.shape[0], Z.shape[0]))]])
            sel = cur + [T.shape[0] + i for i in range(Z.shape[0])]
            want = []
            M = full0
            for j in range(order + 1):
                want.append(M[np.ix_(sel, sel)])
                M = A @ M
            for j in range(order + 1):
                if np.asarray(ac[j]).shape != want[j].shape or not np.allclose(np.asarray(ac[j]), want[j], atol=1e-7):
                    B.fail(f"get_acov order {j} is not the covariance implied by the solution", {"params": [rho, phi, unit], "names": names, "got": np.asarray(ac[j]).round(6).tolist(), "want": want[j].round(6).tolist()})
                    return
            acr = m.get_acorr(up_to_order=order)
            sd = np.sqrt(np.diag(want[0]))
            for j in range(order + 1):
                if not np.allclose(np.asarray(acr[j]), want[j] / np.outer(sd, sd), atol=1e-7):
                    B.fail(f"get_acorr order {j} is not the autocovariance scaled by the order-0 standard deviations", {"params": [rho, phi, unit]})
                    return
        else:
            iw = names.index("w")
            a0 = np.asarray(ac[0])
            if not (np.all(np.isnan(a0[iw, :])) and np.all(np.isnan(a0[:, iw]))):
                B.fail("a variable loaded on a unit root is reported with finite numbers", {"params": [rho, phi, unit], "row": a0[iw, :].tolist()})
                return
            others = [i for i in range(len(names)) if i != iw]
            if not np.all(np.isfinite(a0[np.ix_(others, others)])):
                B.fail("stationary variables of a model with a unit root are not reported", {"params": [rho, phi, unit]})
                return
        for s in (0.5, 3.0):
            B.case()
            m2 = m.copy()
            m2.rescale_stds(s)
            m2.solve()
            ac2 = m2.get_acov(up_to_order=order)
            for j in range(order + 1):
                if not np.allclose(np.asarray(ac2[j]), s * s * np.asarray(ac[j]), atol=1e-7, equal_nan=True):
                    B.fail("scaling all standard deviations by s does not scale the autocovariances by s^2", {"params": [rho, phi, unit], "s": s, "order": j})
                    return


@contract("C15", targets=[PC + "get_autocov_square"], instances=[()], canary=True, cross=0)
def canary_measurement_noise_ignored(K):
    """Deliberately wrong: 'the variance of a measurement variable does not contain the measurement shock' must be refuted."""
    sol, Ta, Pa, Za, H, Ua = _solution(K, 1, 0, 1, 1, 1, (False,), (False,))
    Su, Sw = _mat(K, "Su", 1, 1), _mat(K, "Sw", 1, 1)
    K.assume(K.And(K.cell_val(K.cell(Sw, 0, 0)) > 0, K.cell_val(K.cell(H, 0, 0)) > 0))
    acov = list(K.items(K.call(COV.get_autocov_square, sol, Su, Sw, 0)))
    if not K.symbolic:
        K.ensure("WRONG: var(y) == Za var(alpha) Za'", False)
        return
    X = K.ctx.lyaps[0][2]
    z = K.cell_val(K.cell(Za, 0, 0))
    K.ensure("WRONG: var(y) == Za var(alpha) Za'", K.real_eq(K.cell_val(K.cell(acov[0], 1, 1)), z * X[0][0].t * z))


# ------------------------------------------------------------------------------ model level: which numbers reach the covariance code
from irispie.simultaneous import _covariances as SCOV
PSC = "irispie.simultaneous._covariances:"


def _two_variant_model():
    m = ir.Simultaneous.from_string(ACOV_SOURCE, linear=True)
    m.alter_num_variants(3)
    m.assign(rho=[0.5, 0.7, 0.2], phi=[0.3, -0.4, 0.1], unit=[0.2, 0.0, 0.5], std_ex=[0.7, 1.1, 0.3], std_ez=[1.3, 0.2, 0.9], std_eobs=[0.4, 0.6, 2.0])
    m.solve()
    return m


@contract("C15", targets=[PSC + "Inlay.getv_autocov", PSC + "Inlay.getv_cov_u", PSC + "Inlay.getv_cov_w", PSC + "Inlay.getv_std_u", PSC + "Inlay.getv_std_w", PSC + "_retrieve_stds",
                          PSC + "_get_system_vector", PSC + "Inlay.get_acov"], instances=[(0,), (1,), (2,)], cross=0, opts={"max_paths": 100})
def each_variant_uses_its_own_solution_and_standard_deviations(K, vid):
    """getv_autocov(variant, ...) hands the covariance code the solution of THAT variant and diag(std^2) of THAT variant's
    shock standard deviations (transition and measurement shocks, in the order of the solution vectors), and keeps of
    the result exactly the rows and columns of the current-dated variables."""
    m = _two_variant_model()
    ml = K.lift(m)
    vec = m._invariant.dynamic_descriptor.solution_vectors
    _, zero_shift = SCOV._get_system_vector(m)
    n_all = len(zero_shift)
    marker = [np.arange(n_all * n_all, dtype=float).reshape(n_all, n_all) + 1000 * j for j in range(2)]
    variant = m._variants[vid]
    calls = []

    def fake(solution, cov_u, cov_w, order):
        calls.append((solution, cov_u, cov_w, order))
        return tuple(K.array_cells(mk.tolist()) for mk in marker[:order + 1])
    res = K.stubbed(COV.get_autocov_square, fake, "the covariance code itself is under its own contract (autocovariances_of_the_solved_model)",
                    lambda: K.method(ml, "getv_autocov", K.lift(variant) if False else variant, zero_shift, up_to_order=1))
    K.ensure("one call of the covariance code", len(calls) == 1)
    sol, cov_u, cov_w, order = calls[0]
    same_solution = (sol is variant.solution) or np.array_equal(np.asarray(K.concrete_array(K.attr(sol, "T"))), np.asarray(variant.solution.T))
    K.ensure("the solution of this variant", bool(same_solution) and not any(np.array_equal(np.asarray(v.solution.T), np.asarray(variant.solution.T)) for v in m._variants if v is not variant))
    n2q = m.create_name_to_qid()
    su = [variant.levels[m._invariant.shock_qid_to_std_qid[t.qid]] for t in vec.transition_shocks]
    sw = [variant.levels[m._invariant.shock_qid_to_std_qid[t.qid]] for t in vec.measurement_shocks]
    for label, cov, sd in (("transition", cov_u, su), ("measurement", cov_w, sw)):
        K.ensure(f"{label} shock covariance: shape", K.shape(cov) == (len(sd), len(sd)))
        K.ensure(f"{label} shock covariance: diag(std^2) of this variant",
                 K.And(*[K.real_eq(K.cell_val(K.cell(cov, i, j)), (K.frac(str(sd[i])) * K.frac(str(sd[i])) if K.symbolic else sd[i] ** 2) if i == j else 0) for i in range(len(sd)) for j in range(len(sd))]))
    K.ensure("requested order passed on", order == 1)
    sel = [i for i, z in enumerate(zero_shift) if z]
    res = list(K.items(res))
    for j in range(2):
        K.ensure(f"order {j}: rows and columns of the current-dated variables", np.array_equal(np.asarray(K.concrete_array(res[j])), marker[j][np.ix_(sel, sel)]))


@contract("C15", targets=[PSC + "Inlay.rescale_stds", "irispie.simultaneous._get:Inlay._get_std_qids", "irispie.simultaneous._variants:Variant.rescale_values"],
          instances=[()], cross=0, opts={"max_paths": 100})
def rescaling_reaches_every_standard_deviation_of_every_variant(K):
    """rescale_stds(s) multiplies the standard deviation of every shock in EVERY variant by s and changes nothing else."""
    m = _two_variant_model()
    before = [dict(v.levels) for v in m._variants]
    ml = K.lift(m)
    s = K.real("s", positive=True, sample=(0.2, 5))
    K.method(ml, "rescale_stds", s)
    std_qids = set(m._invariant.shock_qid_to_std_qid.values())
    for i, v in enumerate(K.items(K.attr(ml, "_variants"))):
        lv = K.attr(v, "levels")
        for q, old in before[i].items():
            new = K.index(lv, q)
            if q in std_qids:
                K.ensure(f"variant {i}: std {q} multiplied by s", K.real_eq(K.scalar(new), s * float(old)))
            else:
                K.ensure(f"variant {i}: quantity {q} untouched", (new is None and old is None) or (old is not None and K.real_eq(K.scalar(new), float(old))))
