#!/bin/bash
# usage: seed_verify.sh <seed-src-dir> <seed-id> <prop> [more props...]
# Confirms a seeded change independently in a scratch worktree (demo passes clean / fails patched, pinned suite
# unchanged), runs the property checks against that patched worktree (PYVC_REPO_SRC), and files it under /verif/seeded/<id>/.
set -u
SRC=$1; ID=$2; shift 2; PROPS="$@"
WT=$(mktemp -d /tmp/seedwt_XXXX); rmdir $WT
git -C /repo worktree add -q --detach $WT HEAD || exit 2
cleanup() { git -C /repo worktree remove --force $WT 2>/dev/null; rm -rf $WT; }
trap cleanup EXIT
cd $WT
PYTHONPATH=$WT/src /venv/bin/python -W ignore $SRC/demo.py > /tmp/$ID.clean.out 2>&1; CLEAN=$?
git apply --check $SRC/patch.diff || { echo "patch does not apply"; exit 2; }
git apply $SRC/patch.diff
PYTHONPATH=$WT/src /venv/bin/python -W ignore $SRC/demo.py > /tmp/$ID.patched.out 2>&1; PATCHED=$?
PYTHONPATH=$WT/src /venv/bin/python -m pytest -q -p no:cacheprovider --timeout=900 --continue-on-collection-errors --junitxml=/tmp/$ID.junit.xml > /tmp/$ID.suite.log 2>&1
SUITE=$(python3 - /tmp/$ID.junit.xml <<'PY'
import json, sys, xml.etree.ElementTree as ET
base = set(json.load(open('/root/.vp/BASELINE.json'))['stable_pass'])
passed = set()
for tc in ET.parse(sys.argv[1]).iter('testcase'):
    if not any(c.tag in ('failure', 'error', 'skipped') for c in tc):
        passed.add(f"{tc.get('classname')}::{tc.get('name')}")
print(len(base - passed))
PY
)
rm -f $WT/tmp*.spc
echo "$ID: demo clean exit=$CLEAN patched exit=$PATCHED; baseline tests missing with patch=$SUITE"
if [ "$CLEAN" != 0 ] || [ "$PATCHED" = 0 ] || [ "$SUITE" != 0 ]; then echo "$ID: REJECTED (does not meet the criteria)"; exit 1; fi
# run my checks against the patched scratch worktree (PYVC_REPO_SRC): /repo itself is not touched
EVSAVE=$(mktemp -d /tmp/evsave_XXXX); cp -r /verif/evidence/. $EVSAVE/ 2>/dev/null
RES=""
for P in $PROPS; do
  OUT=$(PYVC_REPO_SRC=$WT/src /verif/check $P 2>&1); RC=$?
  FIRST=$(echo "$OUT" | grep -m1 "failed obligation\|bounded stand-in" | cut -c1-260)
  NV=$(echo "$OUT" | grep -c "^VIOLATION")
  RES="$RES $P:exit=$RC,violations=$NV"
  echo "  check $P exit=$RC violation_lines=$NV :: $FIRST"
  echo "$OUT" | tail -1
done
cp -r $EVSAVE/. /verif/evidence/ 2>/dev/null; rm -rf $EVSAVE      # evidence of runs on a mutated tree is never kept
mkdir -p /verif/seeded/$ID; cp $SRC/patch.diff $SRC/demo.py /verif/seeded/$ID/
python3 - "$SRC/meta.json" "/verif/seeded/$ID/meta.json" "$RES" "$CLEAN" "$PATCHED" <<'PY'
import json, sys
m = json.load(open(sys.argv[1]))
m["confirmed_by_me"] = {"demo_exit_clean": int(sys.argv[4]), "demo_exit_patched": int(sys.argv[5]), "pinned_suite_baseline_tests_lost": 0,
                        "how": "tools/seed_verify.sh: scratch worktree of /repo HEAD, demo before/after, pinned suite junit vs BASELINE.json"}
m["check_results"] = sys.argv[3].strip()
json.dump(m, open(sys.argv[2], "w"), indent=1)
PY
