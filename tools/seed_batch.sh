#!/bin/bash
# usage: seed_batch.sh <prop> [extra props to run]  -- verifies /tmp/seed2_<prop>/_seeds/s* and files them as <prop>-s*
P=$1; shift; EXTRA="$@"
for d in ${SEEDROOT:-/tmp/seed2}_$P/_seeds/s*; do
  k=$(basename $d)
  [ -f $d/patch.diff ] || continue
  /verif/tools/seed_verify.sh $d $P-$k $P $EXTRA 2>&1 | grep -v "^  bounded\|^  failed" | cut -c1-300
done
