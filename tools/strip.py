#!/usr/bin/env python3
"""Print a python file without docstrings/blank lines (reading aid)."""
import ast, sys
src = open(sys.argv[1]).read()
tree = ast.parse(src)
skip = set()
for node in ast.walk(tree):
    if isinstance(node, (ast.FunctionDef, ast.ClassDef, ast.Module, ast.AsyncFunctionDef)):
        b = node.body
        if b and isinstance(b[0], ast.Expr) and isinstance(b[0].value, ast.Constant) and isinstance(b[0].value.value, str):
            for l in range(b[0].lineno, b[0].end_lineno + 1):
                skip.add(l)
    elif isinstance(node, ast.Expr) and isinstance(node.value, ast.Constant) and isinstance(node.value.value, str):
        for l in range(node.lineno, node.end_lineno + 1):
            skip.add(l)
lo = int(sys.argv[2]) if len(sys.argv) > 2 else 1
hi = int(sys.argv[3]) if len(sys.argv) > 3 else 10**9
for i, line in enumerate(src.splitlines(), 1):
    if i in skip or not line.strip() or i < lo or i > hi:
        continue
    s = line.strip()
    if s in ('#[', '#]', '...'):
        continue
    print(f"{i:5d} {line}")
