#!/usr/bin/env python3
"""Print the rows of DESIGN.md section 7.3 from the evidence files (run after tools/run_all.sh)."""
import json, glob, os
rows = []
for p in sorted(glob.glob(os.path.join(os.path.dirname(__file__), "..", "evidence", "C*.json"))):
    d = json.load(open(p))
    c = d["coverage"]
    st = "; ".join(b["name"] for b in c.get("bounded_standins", [])) or "-"
    rows.append(f"| {d['property_id']} | {c['discharged']}/{c['obligations']} | {c['contract_instances']} | {len(c['functions_under_contract'])} | {st} | ~{round(d['wall_s'])} s |")
print("| id | obligations discharged | contract instances | functions analysed from AST | bounded stand-ins (not counted) | quick wall |")
print("|----|-----------|-----|-----|------|------|")
print("\n".join(rows))
