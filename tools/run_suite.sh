#!/bin/sh
# Run the pinned baseline suite (guard off) and compare with BASELINE.json stable_pass. usage: run_suite.sh [junit-out]
OUT=${1:-/tmp/suite.junit.xml}
BEFORE=$(cd /repo && ls tmp*.spc 2>/dev/null | sort)
cd /repo && env -u IRISPIE_VERIF /venv/bin/python -m pytest -ra -q -p no:cacheprovider --timeout=900 --continue-on-collection-errors --junitxml=$OUT > ${OUT%.xml}.log 2>&1
# the x13 tests leave tmp*.spc files in the working directory: remove the ones this run created
for f in $(cd /repo && ls tmp*.spc 2>/dev/null | sort); do echo "$BEFORE" | grep -qx "$f" || rm -f "/repo/$f"; done
python3 - "$OUT" <<'PY'
import json, sys, xml.etree.ElementTree as ET
base = set(json.load(open('/root/.vp/BASELINE.json'))['stable_pass'])
t = ET.parse(sys.argv[1])
passed = set()
for tc in t.iter('testcase'):
    if not any(c.tag in ('failure', 'error', 'skipped') for c in tc):
        passed.add(f"{tc.get('classname')}::{tc.get('name')}")
missing = sorted(base - passed)
print(f"baseline stable_pass={len(base)} passed_now={len(passed)} missing={len(missing)}")
for m in missing[:20]:
    print("  MISSING", m)
sys.exit(1 if missing else 0)
PY
