#!/usr/bin/env python3
"""Development-time mutation harness: apply each seeded edit to a scratch copy of /repo/src, run the
property check against the copy, report whether it was detected.  usage: mutants.py <mutants.json> [filter]"""
import json, os, shutil, subprocess, sys, tempfile, time
spec = json.load(open(sys.argv[1]))
flt = sys.argv[2] if len(sys.argv) > 2 else None
root = tempfile.mkdtemp(prefix="pyvc_mut_")
src = os.path.join(root, "src")
shutil.copytree("/repo/src", src, ignore=shutil.ignore_patterns("__pycache__"))
ok = True
try:
    for m in spec:
        if flt and flt not in m["id"]:
            continue
        path = os.path.join(src, m["file"])
        text = open(path).read()
        if text.count(m["old"]) != 1:
            print(f"{m['id']}: PATTERN count={text.count(m['old'])} (mutant not applicable)")
            ok = False
            continue
        open(path, "w").write(text.replace(m["old"], m["new"]))
        env = dict(os.environ, PYVC_REPO_SRC=src, PYTHONDONTWRITEBYTECODE="1")
        t0 = time.time()
        r = subprocess.run(["/verif/check", m["prop"]], capture_output=True, text=True, env=env)
        open(path, "w").write(text)
        viol = [l for l in r.stdout.splitlines() if l.startswith("VIOLATION")]
        first = [l for l in r.stdout.splitlines() if l.strip().startswith("failed obligation")][:1]
        expect = m.get("expect", "violation")
        got = "violation" if r.returncode == 1 and viol else {0: "pass", 2: "undecided", 3: "checker-error"}.get(r.returncode, str(r.returncode))
        flag = "OK " if got == expect else "BAD"
        if got != expect:
            ok = False
        print(f"{flag} {m['id']}: expected {expect}, got {got} ({len(viol)} VIOLATION lines, {time.time()-t0:.1f}s) {first[0].strip()[:230] if first else r.stdout.strip().splitlines()[-1][:200]}")
finally:
    shutil.rmtree(root, ignore_errors=True)
sys.exit(0 if ok else 1)
