#!/bin/bash
# Run every claimed check on the current tree (fresh evidence); usage: run_all.sh [tier] [seed]
cd /verif
TIER=${1:-quick}; export VERIF_SEED=${2:-0}
for P in $(python3 -c "import json; print(' '.join(c['property_id'] for c in json.load(open('MANIFEST.json'))['checks']))"); do
  OUT=$(./check $P --tier $TIER 2>&1); RC=$?
  echo "exit=$RC $(echo "$OUT" | tail -1)"
  [ $RC -ne 0 ] && echo "$OUT" | grep -v "^  " | head -5
done
.venv/bin/python - <<'PY'
import json, jsonschema, glob
sch = json.load(open('/root/.vp/EVIDENCE.schema.json'))
for f in sorted(glob.glob('/verif/evidence/*.json')):
    e = json.load(open(f)); jsonschema.validate(e, sch)
    c = e['coverage']; assert c['obligations'] == c['discharged'], f
jsonschema.validate(json.load(open('/verif/MANIFEST.json')), json.load(open('/root/.vp/MANIFEST.schema.json')))
print("evidence + manifest valid")
PY
