"""dev helper: run ONE contract instance symbolically in-process and print path outcomes with tracebacks.
usage: .venv/bin/python tools/dbg.py <module> <contract name> <instance index> [-o]  (-o prints obligations)"""
import sys, warnings, traceback
warnings.simplefilter("ignore"); sys.path.insert(0, '/verif')
import os
if os.environ.get('PYVC_REPO_SRC'):
    sys.path.insert(0, os.environ['PYVC_REPO_SRC'])
import importlib, irispie, z3
from pyvc import prove as PR
from pyvc.ctx import explore
from pyvc.kit import SymKit
mod, name, idx = sys.argv[1], sys.argv[2], int(sys.argv[3])
importlib.import_module(mod)
c = [c for c in PR.REGISTRY if c.name == name][0]
inst = c.instances[idx]
print("instance", inst)
def run(ctx):
    K = SymKit(ctx, opts=dict(c.opts or {}))
    for a in sys.argv:
        if a.startswith("--fix="):           # --fix=name=intvalue : pin an integer input
            nm, v = a[6:].split("=")
            ctx.assume(z3.Int(nm) == int(v))
    try:
        c.fn(K, *inst)
    except Exception as e:
        if type(e).__name__ in ("Unsupported",) or "-t" in sys.argv:
            traceback.print_exc(limit=40)
        raise
    return K
n = 0
for ctx, out in explore(run):
    n += 1
    print("path", n, "outcome", str(out)[:300], "obligations", len(ctx.obligs))
    if "-p" in sys.argv:
        pcs = ctx.pc if isinstance(ctx.pc, list) else [ctx.pc]
        for t in pcs[-6:]:
            print("   pc:", str(z3.simplify(t) if isinstance(t, z3.ExprRef) else t)[:700])
        sol = z3.Solver(); sol.set("timeout", 20000)
        for t in pcs:
            sol.add(t)
        print("   pc check:", sol.check())
    if "-o" in sys.argv:
        for ob in ctx.obligs:
            print("   ", ob.name)
