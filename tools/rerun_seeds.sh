#!/bin/bash
# Re-run every filed seeded change against the current checks: apply to /repo, run the property's quick check, revert.
# usage: rerun_seeds.sh [id-prefix]      (results -> seeded/<id>/meta.json:check_results_latest and seeded/RESULTS.md)
cd /repo; git diff --quiet || { echo "/repo not clean"; exit 2; }
EVSAVE=$(mktemp -d /tmp/evsave_XXXX); cp -r /verif/evidence/. $EVSAVE/
OUTF=/verif/seeded/RESULTS.md
echo "| seed | property | quick check on the seeded tree | first reported obligation / stand-in |" > $OUTF.tmp
echo "|---|---|---|---|" >> $OUTF.tmp
for D in /verif/seeded/${1:-C}*/; do
  ID=$(basename $D); P=$(python3 -c "import json; print(json.load(open('$D/meta.json'))['property'])")
  git apply $D/patch.diff || { echo "$ID: patch no longer applies"; continue; }
  OUT=$(/verif/check $P 2>&1); RC=$?
  git checkout -- .
  NV=$(echo "$OUT" | grep -c "^VIOLATION")
  FIRST=$(echo "$OUT" | grep -m1 "failed obligation\|bounded stand-in" | sed 's/inputs=.*//; s/witness=.*//; s/^ *//' | cut -c1-200)
  VERDICT=$([ $RC -eq 1 ] && [ $NV -gt 0 ] && echo "DETECTED (exit 1, $NV VIOLATION lines)" || echo "missed (exit $RC)")
  echo "$ID $P $VERDICT :: $FIRST"
  echo "| $ID | $P | $VERDICT | ${FIRST//|/\\|} |" >> $OUTF.tmp
  python3 - "$D/meta.json" "$VERDICT" "$FIRST" <<'PY'
import json, sys
m = json.load(open(sys.argv[1])); m["check_results_latest"] = {"verdict": sys.argv[2], "first_report": sys.argv[3]}
json.dump(m, open(sys.argv[1], "w"), indent=1)
PY
done
mv $OUTF.tmp $OUTF
cp -r $EVSAVE/. /verif/evidence/; rm -rf $EVSAVE
git -C /repo status --short | grep -v '^??'
