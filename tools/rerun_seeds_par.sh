#!/bin/bash
# Re-run every filed seeded change against the current checks, N at a time, each on its own scratch copy of /repo's
# committed src tree (PYVC_REPO_SRC) - /repo itself is never touched.
# usage: rerun_seeds_par.sh [id-prefix] [parallel=3]     (results -> seeded/<id>/meta.json:check_results_latest, seeded/RESULTS.md)
PFX=${1:-C}; PAR=${2:-3}
ROOT=$(mktemp -d /tmp/rsp_XXXX)
EVSAVE=$ROOT/evidence; mkdir -p $EVSAVE; cp -r /verif/evidence/. $EVSAVE/
one() {
  D=$1; ROOT=$2
  ID=$(basename $D); P=$(python3 -c "import json; print(json.load(open('$D/meta.json'))['property'])")
  W=$ROOT/$ID; mkdir -p $W; git -C /repo archive HEAD src | tar -x -C $W
  if ! (cd $W && git apply $D/patch.diff 2>/dev/null); then echo "$ID|$P|patch no longer applies|" > $ROOT/$ID.res; rm -rf $W; return; fi
  OUT=$(PYVC_REPO_SRC=$W/src /verif/check $P --jobs 6 2>&1); RC=$?
  rm -rf $W
  NV=$(echo "$OUT" | grep -c "^VIOLATION")
  FIRST=$(echo "$OUT" | grep -m1 "failed obligation\|bounded stand-in" | sed 's/inputs=.*//; s/witness=.*//; s/^ *//' | cut -c1-200)
  if [ $RC -eq 1 ] && [ $NV -gt 0 ]; then V="DETECTED (exit 1, $NV VIOLATION lines)"; else V="missed (exit $RC)"; fi
  echo "$ID|$P|$V|$FIRST" > $ROOT/$ID.res
  echo "$ID $P $V :: $FIRST"
}
export -f one
ls -d /verif/seeded/${PFX}*/ | xargs -P $PAR -I{} bash -c 'one {} '"$ROOT"
OUTF=/verif/seeded/RESULTS.md
{ echo "| seed | property | quick check on the seeded tree | first reported obligation / stand-in |"; echo "|---|---|---|---|"; } > $OUTF.tmp
for R in $(ls $ROOT/*.res | sort -V); do
  IFS='|' read -r ID P V FIRST < $R
  echo "| $ID | $P | $V | ${FIRST//|/\\|} |" >> $OUTF.tmp
  python3 - "/verif/seeded/$ID/meta.json" "$V" "$FIRST" <<'PY'
import json, sys
m = json.load(open(sys.argv[1])); m["check_results_latest"] = {"verdict": sys.argv[2], "first_report": sys.argv[3]}
json.dump(m, open(sys.argv[1], "w"), indent=1)
PY
done
if [ "$PFX" = "C" ]; then mv $OUTF.tmp $OUTF; else cat $OUTF.tmp; rm $OUTF.tmp; fi
cp -r $EVSAVE/. /verif/evidence/; rm -rf $ROOT
